"""Shared machinery: sharded exhaustive exploration, evidence, findings, replay.

A check is a module in mc.checks exposing:

    ID, LEVEL, RULE, ASSUMPTIONS
    tasks(tier)            -> list of picklable task descriptors (each a complete, disjoint part of the space)
    run_task(task)         -> Result (see below)           [executed in worker processes]
    replay(case)           -> None | violation dict        [re-run one recorded case without the explorer]
    bound(tier)            -> dict describing the bound that a complete run covers

Every task enumerates its part of the space completely.  Nothing is sampled; VERIF_SEED only rotates the order in
which tasks are handed to workers and which cases are kept as samples.
"""
from __future__ import print_function

import hashlib
import json
import os
import signal
import sys
import time
import traceback
from concurrent.futures import ProcessPoolExecutor, as_completed

HERE = os.path.dirname(os.path.dirname(os.path.abspath(__file__)))
REPO = os.environ.get('VERIF_REPO', '/repo')
SEED = int(os.environ.get('VERIF_SEED', '0') or 0)
WORKERS = int(os.environ.get('VERIF_WORKERS', '0') or 0) or (os.cpu_count() or 4)
EVIDENCE_DIR = os.environ.get('VERIF_EVIDENCE_DIR') or os.path.join(HERE, 'evidence')      # overridden only by the seeded-change experiments
REPLAY_DIR = os.environ.get('VERIF_REPLAY_DIR') or os.path.join(HERE, 'replay')
FINDINGS_FILE = os.path.join(HERE, 'known_findings.json')
MAX_REPORTED = 40          # distinct unknown signatures written out as replay files per run
MAX_PER_SIG = 3            # witnesses kept per signature


class HarnessError(Exception):
    """The harness itself is inconsistent (oracle cross-check failed, worker crashed...). Exit status 2, never a pass."""


class CaseTimeout(BaseException):
    """raised by the watchdog; a BaseException so that `except Exception` inside the code under test cannot swallow it"""
    pass


class time_limit(object):
    """Watchdog: a hang becomes an exception (and then a violation or harness error), never a stuck check."""

    def __init__(self, seconds):
        self.seconds = seconds

    def _fire(self, signum, frame):
        raise CaseTimeout('case exceeded %ss' % self.seconds)

    def __enter__(self):
        self.old = signal.signal(signal.SIGALRM, self._fire)
        signal.setitimer(signal.ITIMER_REAL, self.seconds)

    def __exit__(self, *exc):
        signal.setitimer(signal.ITIMER_REAL, 0)
        signal.signal(signal.SIGALRM, self.old)
        return False


def h64(*parts):
    m = hashlib.blake2b(digest_size=8)
    for p in parts:
        if not isinstance(p, bytes):
            p = repr(p).encode('utf-8', 'surrogatepass')
        m.update(p)
        m.update(b'\0')
    return int.from_bytes(m.digest(), 'big')


class Result(object):
    """What one task reports.  Everything is additive / unionable so that the parent can merge shards."""

    def __init__(self):
        self.counters = {}          # name -> int  (summed)
        self.sets = {}              # name -> set of hashables (unioned; sizes reported)  e.g. states, transitions
        self.violations = []        # list of {'signature':str,'case':{...},'detail':str}
        self.samples = []           # a few cases written out
        self.notes = {}             # name -> value (last wins)
        self._sig_count = {}

    def count(self, name, n=1):
        self.counters[name] = self.counters.get(name, 0) + n

    def add(self, setname, item):
        self.sets.setdefault(setname, set()).add(item)

    def sample(self, case, limit=4):
        if len(self.samples) < limit:
            self.samples.append(case)

    def violation(self, signature, case, detail=''):
        self.count('violation_instances')
        n = self._sig_count.get(signature, 0)
        self._sig_count[signature] = n + 1
        if n < MAX_PER_SIG:
            self.violations.append({'signature': signature, 'case': case, 'detail': detail[:2000]})

    def merge(self, other):
        for k, v in other.counters.items():
            self.counters[k] = self.counters.get(k, 0) + v
        for k, v in other.sets.items():
            self.sets.setdefault(k, set()).update(v)
        for v in other.violations:
            n = self._sig_count.get(v['signature'], 0)
            self._sig_count[v['signature']] = n + 1
            if n < MAX_PER_SIG:
                self.violations.append(v)
        for s in other.samples:
            if len(self.samples) < 8:
                self.samples.append(s)
        self.notes.update(other.notes)


def _run_task(modname, task):
    # executed in the worker
    import importlib
    mod = importlib.import_module(modname)
    try:
        t0 = time.time()
        res = mod.run_task(task)
        if os.environ.get('VERIF_VERBOSE'):
            sys.stderr.write('task %r done in %.1fs\n' % (task, time.time() - t0))
        return ('ok', res)
    except Exception:
        return ('err', 'task %r\n%s' % (task, traceback.format_exc()))


def load_findings():
    if not os.path.exists(FINDINGS_FILE):
        return {'findings': [], 'fixed': []}
    with open(FINDINGS_FILE) as f:
        return json.load(f)


def explore(mod, tier):
    """Run every task of a check, merge, triage against known findings, write evidence + replay files."""
    t0 = time.time()
    tasks = list(mod.tasks(tier))
    if not tasks:
        raise HarnessError('no tasks')
    order = list(range(len(tasks)))
    if SEED:
        k = SEED % len(order)
        order = order[k:] + order[:k]
    total = Result()
    errors = []
    modname = mod.__name__
    serial = os.environ.get('VERIF_SERIAL') == '1' or getattr(mod, 'SERIAL', False)
    if serial:
        for i in order:
            st, r = _run_task(modname, tasks[i])
            if st == 'ok':
                total.merge(r)
            else:
                errors.append(r)
    else:
        with ProcessPoolExecutor(max_workers=min(WORKERS, len(tasks))) as ex:
            futs = [ex.submit(_run_task, modname, tasks[i]) for i in order]
            for f in as_completed(futs):
                try:
                    st, r = f.result()
                except Exception as e:  # worker died
                    errors.append('worker died: %r' % (e,))
                    continue
                if st == 'ok':
                    total.merge(r)
                else:
                    errors.append(r)
    wall = time.time() - t0
    if errors:
        sys.stderr.write('HARNESS ERROR in %s (%d task failures)\n%s\n' % (mod.ID, len(errors), errors[0]))
        return 2
    post = getattr(mod, 'finish', None)
    if post:
        post(total, tier)
    return report(mod, tier, total, wall, len(tasks))


def report(mod, tier, total, wall, ntasks):
    pid = mod.ID
    known = load_findings()
    known_sigs = {}
    for f in known.get('findings', []):
        if f['property'] == pid:
            known_sigs[f['signature']] = f
    by_sig = {}
    for v in total.violations:
        by_sig.setdefault(v['signature'], []).append(v)
    unknown = [s for s in sorted(by_sig) if s not in known_sigs]
    hit_known = [s for s in sorted(by_sig) if s in known_sigs]
    for s in hit_known:
        print('KNOWN-FINDING: property=%s %s [%s; %d instance(s) in this run]' % (
            pid, known_sigs[s].get('note', ''), s, total._sig_count.get(s, 0)))
    # replay files for unknown signatures
    rdir = os.path.join(REPLAY_DIR, pid)
    if os.path.isdir(rdir):
        for fn in os.listdir(rdir):
            try:
                os.unlink(os.path.join(rdir, fn))
            except OSError:
                pass
    nviol = 0
    for n, s in enumerate(unknown[:MAX_REPORTED]):
        os.makedirs(rdir, exist_ok=True)
        v = by_sig[s][0]
        path = os.path.join(rdir, '%03d.json' % n)
        with open(path, 'w') as f:
            json.dump({'property': pid, 'check': mod.__name__, 'signature': s, 'case': v['case'],
                       'detail': v['detail'], 'instances': total._sig_count.get(s, 0),
                       'other_witnesses': [w['case'] for w in by_sig[s][1:]]}, f, indent=1, sort_keys=True,
                      default=repr)
        print('VIOLATION property=%s replay=%s' % (pid, path))
        sys.stdout.write('  signature: %s\n  detail: %s\n' % (s, v['detail'].replace('\n', '\n    ')[:1200]))
        nviol += 1
    if len(unknown) > MAX_REPORTED:
        print('  ... %d further distinct signatures not written out' % (len(unknown) - MAX_REPORTED))
    if not unknown and os.environ.get('VERIF_DUMP') and os.path.exists(os.environ['VERIF_DUMP']):
        os.unlink(os.environ['VERIF_DUMP'])
    if unknown and os.environ.get('VERIF_DUMP'):
        with open(os.environ['VERIF_DUMP'], 'w') as f:
            json.dump([{'signature': s_, 'instances': total._sig_count.get(s_, 0), 'first': by_sig[s_][0]} for s_ in unknown], f, indent=1,
                      default=repr)
    cov = {}
    cov.update(total.counters)
    for k, v in total.sets.items():
        cov[k] = len(v)
    ev = cov.get('evaluations', 0)
    nt = cov.get('distinct_nontrivial', 0)
    cov['evaluations'] = int(ev)
    cov['distinct_nontrivial'] = int(nt)
    cov['rule'] = mod.RULE
    cov['samples'] = total.samples[:8] or ['<no sample recorded>']
    cov['exhaustive'] = bool(total.notes.get('exhaustive', True))
    cov['bound'] = mod.bound(tier)
    cov['tasks'] = ntasks
    cov['workers'] = WORKERS
    cov['known_finding_signatures_hit'] = hit_known
    cov['unknown_violation_signatures'] = unknown[:MAX_REPORTED]
    for k, v in total.notes.items():
        if k != 'exhaustive':
            cov[k] = v
    evidence = {
        'property_id': pid, 'tier': tier, 'seed': SEED, 'level': mod.LEVEL, 'coverage': cov,
        'assumptions': list(mod.ASSUMPTIONS), 'wall_s': round(wall, 2), 'violations': len(unknown),
        'repo': REPO, 'python': sys.version.split()[0],
    }
    os.makedirs(EVIDENCE_DIR, exist_ok=True)
    with open(os.path.join(EVIDENCE_DIR, pid + '.json'), 'w') as f:
        json.dump(evidence, f, indent=1, sort_keys=True, default=repr)
    keys = ['evaluations', 'distinct_nontrivial', 'states', 'transitions', 'traces_validated_against_impl']
    print('%s tier=%s %s wall=%.1fs exhaustive=%s known=%d violations=%d' % (
        pid, tier, ' '.join('%s=%s' % (k, cov[k]) for k in keys if k in cov), wall, cov['exhaustive'],
        len(hit_known), len(unknown)))
    return 1 if unknown else 0


def do_replay(path):
    import importlib
    with open(path) as f:
        rec = json.load(f)
    mod = importlib.import_module(rec['check'])
    a = mod.replay(rec['case'])
    b = mod.replay(rec['case'])
    sa = a and a['signature']
    sb = b and b['signature']
    if sa != sb:
        print('NONDETERMINISTIC replay: %r vs %r' % (sa, sb))
        return 2
    if a is None:
        print('replay: case passes (no violation) on %s' % REPO)
        return 0
    print('replay: VIOLATION property=%s signature=%s\n%s' % (rec['property'], a['signature'], a.get('detail', '')))
    return 1


def chunks(n, k):
    """k (start, stop) ranges covering range(n)."""
    k = max(1, min(k, n))
    out = []
    for i in range(k):
        out.append((n * i // k, n * (i + 1) // k))
    return out
