"""G_scope: scope skeletons x binding-event bundles, emitted as self-observing runnable programs.

A program is a tree of scopes under the module.  Scope kinds: def, adef (async def), class, lambda, listcomp, setcomp, genexp, dictcomp.
Each scope carries an *event bundle* for the tracked name (how that scope binds / loads / declares it) and children attached in
*slots* (every position the renamer's namespace mapper special-cases: body, default, kw-default, decorator, base, class keyword, f-string
field, return value; lambda body/default; comprehension element / first iterable / later iterable / condition).

Every load is `obs(<name>)`; `obs` records a tag describing the value it sees and returns the value, so it can sit anywhere an
expression can.  `obs`, `cm`, `deco`, `base`, `meta`, `run` are injected through the exec namespace, so to the minifier they are unbound
globals.  Each binding stores a distinct tag.  Every def/lambda is called once, comprehensions are consumed, classes are created.
"""
import itertools

X = 'fnmatch'       # tracked name: importable both as `import fnmatch` and `from fnmatch import fnmatch`
Y = 'bisect'        # second tracked name (same property)

STMT_KINDS = ('def', 'adef', 'class')
EXPR_KINDS = ('lambda', 'listcomp', 'setcomp', 'genexp', 'dictcomp')
COMP_KINDS = ('listcomp', 'setcomp', 'genexp', 'dictcomp')

# ---- bundles ---------------------------------------------------------------------------------------------------------------------------
# statement scopes (module / def / adef / class): list of statement templates; {n} the name, {t} a fresh tag
STMT_BUNDLES = {
    'none': [],
    'load': ['obs({n})'],
    'assign': ["{n}='{t}'", 'obs({n})'],
    'store_only': ["{n}='{t}'"],
    'augassign': ["{n}='{t}'", "{n}+='+'", 'obs({n})'],
    'aug_only': ["{n}+='+'", 'obs({n})'],
    'annassign': ["{n}:int='{t}'", 'obs({n})'],
    'ann_only': ['{n}:int', 'obs({n})'],
    'for': ["for {n} in('{t}',):pass", 'obs({n})'],
    'with': ["with cm('{t}')as {n}:pass", 'obs({n})'],
    'except': ["try:raise ValueError('{t}')\nexcept ValueError as {n}:obs({n})", 'obs({n})'],
    'import': ['import {n}', 'obs({n})'],
    'import_as': ['import os as {n}', 'obs({n})'],
    'import_dotted_as': ['import os.path as {n}', 'obs({n})'],
    'import_dotted': ['import xml.dom.minidom', 'obs((xml.__name__,xml.dom.__name__,xml.dom.minidom.__name__))', 'obs({n})'],
    'from_import': ['from {n} import {n}', 'obs({n})'],
    'from_import_as': ['from os import sep as {n}', 'obs({n})'],
    'def': ["def {n}():return'{t}'", 'obs({n})'],
    'class': ["class {n}:tag='{t}'", 'obs({n})'],
    'walrus': ["({n}:='{t}')", 'obs({n})'],
    'del': ["{n}='{t}'", 'del {n}', 'obs({n})'],
    'unpack': ["{n},z_=('{t}',0)", 'obs({n})'],
    'star': ["*{n},=('{t}',)", 'obs({n})'],
    'match_capture': ["match('{t}',):\n case({n},):pass", 'obs({n})'],
    'match_star': ["match('{t}',):\n case[*{n}]:pass", 'obs({n})'],
    'match_rest': ["match{{'k':'{t}'}}:\n case{{**{n}}}:pass", 'obs({n})'],
    'match_as': ["match'{t}':\n case str()as {n}:pass", 'obs({n})'],
    'typeparam': ['def g_[{n}]():return {n}', 'obs(g_())'],
    'load_before': ['obs({n})', "{n}='{t}'"],
    'global': ['global {n}', "{n}='{t}'", 'obs({n})'],
    'global_load': ['global {n}', 'obs({n})'],
    'global_del': ['global {n}', "{n}='{t}'", 'del {n}'],
    'global_del_only': ['global {n}', 'try:del {n}\nexcept NameError:obs(0)', 'obs({n})'],      # only deleted and read: the module never binds it
    'nonlocal': ['nonlocal {n}', "{n}='{t}'", 'obs({n})'],
    'nonlocal_load': ['nonlocal {n}', 'obs({n})'],
    # the tracked name declared together with a user name taken from the renamer's own output alphabet
    'assign_with_A': ["{n}='{t}'", "A='{t}a'", 'obs({n})', 'obs(A)'],
    'global_with_A': ['global {n},A', "{n}='{t}'", "A='{t}a'", 'obs({n})', 'obs(A)', 'obs({n})'],
    'global_load_with_A': ['global A,{n}', 'obs({n})', 'obs(A)', 'obs({n})'],
    'nonlocal_with_A': ['nonlocal {n},A', "{n}={n}+'{t}'", "A=A+'{t}a'", 'obs({n})', 'obs(A)', 'obs({n})'],
    'ann_var_self': ["{n}:{n}='{t}'", 'obs({n})'],          # variable annotated with its own name (evaluated in module/class scope, not in functions)
    'ann_var_obs': ["v_:obs({n})=0", 'obs({n})'],
}
MODULE_EXCLUDED = ('global', 'global_load', 'global_del', 'global_del_only', 'nonlocal', 'nonlocal_load', 'global_with_A', 'global_load_with_A', 'nonlocal_with_A')

# def / adef: (params, call args, body statements)
DEF_PARAM_BUNDLES = {
    'param_pos': ('{n}', "'{t}'", ['obs({n})']),
    'param_pos_kwcall': ('{n}', "{n}='{t}'", ['obs({n})']),
    'param_default': ("{n}='{t}'", '', ['obs({n})']),
    'param_kwonly': ('*,{n}', "{n}='{t}'", ['obs({n})']),
    'param_vararg': ('*{n}', "'{t}'", ['obs({n})']),
    'param_kwarg': ('**{n}', "k='{t}'", ['obs({n})']),
    'param_posonly': ('{n},/', "'{t}'", ['obs({n})']),
    'param_posonly_default': ("{n}='{t}',/", '', ['obs({n})']),
    'param_second': ('p_,{n}', "0,'{t}'", ['obs({n})']),
    'param_rebind': ('{n}', "'{t}'", ["{n}={n}+'!'", 'obs({n})']),
    'param_del': ('{n}', "'{t}'", ['del {n}', 'obs({n})']),
    # parameters annotated with their own name: the annotation is evaluated in the *enclosing* scope, the parameter lives in the function
    'param_ann_self': ("{n}:{n}='{t}'", '', ['obs({n})']),
    'param_kwonly_ann_self': ("*,{n}:{n}='{t}'", '', ['obs({n})']),
    'param_posonly_ann_self': ("{n}:{n}='{t}',/", '', ['obs({n})']),
    'param_vararg_ann_self': ('*{n}:{n}', "'{t}'", ['obs({n})']),
    'param_kwarg_ann_self': ('**{n}:{n}', "k='{t}'", ['obs({n})']),
    'param_ann_obs': ("p_:obs({n})=0", '', ['obs({n})']),
    'param_kwonly_ann_obs': ("*,k_:obs({n})=0", '', ['obs({n})']),
    'return_ann_self': (")->({n}", '', ["{n}='{t}'", 'obs({n})']),
    'return_ann_obs': (")->(obs({n})", '', ['obs({n})']),
}
ANN_PARAM_BUNDLES = ('param_ann_self', 'param_kwonly_ann_self', 'param_posonly_ann_self', 'param_vararg_ann_self', 'param_kwarg_ann_self', 'param_ann_obs',
                     'param_kwonly_ann_obs', 'return_ann_self', 'return_ann_obs')

# lambda: (params, call args, body items)
LAMBDA_BUNDLES = {
    'none': ('', '', []),
    'load': ('', '', ['obs({n})']),
    'param_pos': ('{n}', "'{t}'", ['obs({n})']),
    'param_pos_kwcall': ('{n}', "{n}='{t}'", ['obs({n})']),
    'param_default': ("{n}='{t}'", '', ['obs({n})']),
    'param_kwonly': ('*,{n}', "{n}='{t}'", ['obs({n})']),
    'param_vararg': ('*{n}', "'{t}'", ['obs({n})']),
    'param_kwarg': ('**{n}', "k='{t}'", ['obs({n})']),
    'param_posonly': ('{n},/', "'{t}'", ['obs({n})']),
    'walrus': ('', '', ["({n}:='{t}')", 'obs({n})']),
    'default_load': ('p_={n}', '', ['obs(p_)']),
}

# comprehension: dict of parts; elt items, generators [(target, iter, [conds])]
COMP_BUNDLES = {
    'none': {},
    'load_elt': {'elt': ['obs({n})']},
    'load_iter0': {'iter0': '(obs({n}),)'},
    'load_iter1': {'gen1': ('j_', '(obs({n}),)', [])},
    'load_cond': {'cond0': ['obs({n})']},
    'target': {'target0': '{n}', 'iter0': "('{t}',)", 'elt': ['obs({n})']},
    'target_iter_same': {'target0': '{n}', 'iter0': '(obs({n}),)', 'elt': ['obs({n})']},
    'target1': {'gen1': ('{n}', "('{t}',)", []), 'elt': ['obs({n})']},
    'target_tuple': {'target0': '{n},z_', 'iter0': "(('{t}',0),)", 'elt': ['obs({n})']},
    'target_cond': {'target0': '{n}', 'iter0': "('{t}',)", 'cond0': ['obs({n})']},
    'walrus_elt': {'elt': ["({n}:='{t}')"], 'epilogue': ['obs({n})']},
    'walrus_cond': {'cond0': ["({n}:='{t}')"], 'epilogue': ['obs({n})']},
    'walrus_elt_load': {'elt': ["({n}:='{t}')", 'obs({n})']},
}

# slots -----------------------------------------------------------------------------------------------------------------------------------
STMT_PARENT_EXPR_SLOTS = ('expr', 'default', 'kwdefault', 'decorator', 'base', 'classkw', 'fstring', 'lambda_default_chain')
ANN_SLOTS = ('ann_param', 'ann_kwonly', 'ann_return', 'ann_var')
LAMBDA_SLOTS = ('body', 'default')
COMP_SLOTS = ('elt', 'iter0', 'iter1', 'cond')


class Scope(object):
    __slots__ = ('kind', 'bundles', 'children', 'child_first')

    def __init__(self, kind, bundles, children=(), child_first=False):
        self.kind = kind                # module/def/adef/class/lambda/listcomp/...
        self.bundles = bundles          # tuple of (name, bundle id)
        self.children = tuple(children)  # tuple of (slot, Scope)
        self.child_first = child_first

    def key(self):
        return (self.kind, self.bundles, tuple((s, c.key()) for s, c in self.children), self.child_first)

    def describe(self):
        b = ','.join('%s:%s' % (n[0], bid) for n, bid in self.bundles)
        s = '%s{%s}' % (self.kind, b)
        if self.children:
            s += '[' + ' '.join('%s=%s' % (sl, c.describe()) for sl, c in self.children) + ']'
        if self.child_first:
            s += '^'
        return s


class Emitter(object):
    def __init__(self):
        self.ntag = 0
        self.nhelper = 0

    def tag(self):
        self.ntag += 1
        return 't%d' % self.ntag

    def helper(self, prefix='h'):
        self.nhelper += 1
        return '%s%d_' % (prefix, self.nhelper)

    def fmt(self, template, n):
        if '{t}' in template:
            return template.format(n=n, t=self.tag())
        return template.format(n=n)

    # ---- statement scopes -------------------------------------------------------------------------------------------------------------
    def stmt_body(self, scope):
        """statements (strings, possibly multi-line) forming the body of a module/def/adef/class scope"""
        bundle_stmts = []
        for n, bid in scope.bundles:
            if bid in STMT_BUNDLES:
                for t in STMT_BUNDLES[bid]:
                    bundle_stmts.append(self.fmt(t, n))
            elif bid in DEF_PARAM_BUNDLES:
                for t in DEF_PARAM_BUNDLES[bid][2]:
                    bundle_stmts.append(self.fmt(t, n))
            else:
                raise ValueError(bid)
        child_stmts = []
        for slot, child in scope.children:
            child_stmts.extend(self.child_in_stmt_scope(slot, child, scope))
        # declarations (global/nonlocal) must precede uses: keep them first even when children come first
        if scope.child_first:
            decl = [s for s in bundle_stmts if s.startswith(('global ', 'nonlocal '))]
            rest = [s for s in bundle_stmts if not s.startswith(('global ', 'nonlocal '))]
            return decl + child_stmts + rest
        return bundle_stmts + child_stmts

    def child_in_stmt_scope(self, slot, child, parent):
        if child.kind in STMT_KINDS:
            assert slot == 'body'
            return self.stmt_child(child)
        expr, epilogue = self.expr_scope(child)
        if slot == 'expr':
            out = [expr]
        elif slot == 'default':
            h = self.helper()
            out = ['def %s(p_=%s):return 0' % (h, expr), '%s()' % h]
        elif slot == 'kwdefault':
            h = self.helper()
            out = ['def %s(*,p_=%s):return 0' % (h, expr), '%s()' % h]
        elif slot == 'decorator':
            h = self.helper()
            out = ['@deco(%s)\ndef %s():return 0' % (expr, h)]
        elif slot == 'base':
            h = self.helper()
            out = ['class %s(base(%s)):pass' % (h, expr)]
        elif slot == 'classkw':
            h = self.helper()
            out = ['class %s(metaclass=meta(%s)):pass' % (h, expr)]
        elif slot == 'fstring':
            out = ["obs(f'{%s!s:.0}')" % expr]      # value formatted to '' so that no object address reaches the stream
        elif slot == 'lambda_default_chain':
            out = ['(lambda q_=%s:0)()' % expr]
        elif slot == 'ann_param':
            h = self.helper()
            out = ['def %s(p_:%s=0):return 0' % (h, expr), '%s()' % h]
        elif slot == 'ann_kwonly':
            h = self.helper()
            out = ['def %s(*,p_:%s=0):return 0' % (h, expr), '%s()' % h]
        elif slot == 'ann_return':
            h = self.helper()
            out = ['def %s()->%s:return 0' % (h, expr), '%s()' % h]
        elif slot == 'ann_var':
            out = ['w_:%s=0' % expr]
        else:
            raise ValueError(slot)
        return out + epilogue

    def stmt_child(self, child):
        name = self.helper('c')
        params, args = '', ''
        for n, bid in child.bundles:
            if bid in DEF_PARAM_BUNDLES:
                p, a, _ = DEF_PARAM_BUNDLES[bid]
                t = self.tag()
                params = p.format(n=n, t=t)
                args = a.format(n=n, t=t)
        body = self.stmt_body(child)
        if child.kind == 'class':
            body = body or ['pass']
            return ['class %s:\n%s' % (name, indent(body)), 'obs(%s)' % name]
        body = body + ["return'r'"]
        if ')->(' in params:
            params = params + ')'       # '...)->(annotation' + ')'  ; the header below supplies the closing parenthesis of the parameter list
            header = '(%s' % params
        else:
            header = '(%s)' % params
        if child.kind == 'def':
            return ['def %s%s:\n%s' % (name, header, indent(body)), 'obs(%s(%s))' % (name, args)]
        return ['async def %s%s:\n%s' % (name, header, indent(body)), 'obs(run(%s(%s)))' % (name, args)]

    # ---- expression scopes ---------------------------------------------------------------------------------------------------------------
    def expr_scope(self, scope):
        """returns (expression text, epilogue statements for the enclosing statement scope)"""
        if scope.kind == 'lambda':
            return self.lambda_expr(scope)
        return self.comp_expr(scope)

    def lambda_expr(self, scope):
        params, args, items, epilogue = [], [], [], []
        for n, bid in scope.bundles:
            p, a, b = LAMBDA_BUNDLES[bid]
            t = self.tag()
            if p:
                params.append(p.format(n=n, t=t))
            if a:
                args.append(a.format(n=n, t=t))
            for it in b:
                items.append(it.format(n=n, t=t))
        for slot, child in scope.children:
            e, ep = self.expr_scope(child)
            epilogue += ep
            if slot == 'body':
                items.append(e)
            elif slot == 'default':
                params.append('q%d_=%s' % (len(params), e))
            else:
                raise ValueError(slot)
        # parameters without default must precede those with one
        params.sort(key=lambda p: (2 if p.startswith('**') else 1 if p.startswith('*') else 0))
        body = '(' + ','.join(items) + (',' if len(items) == 1 else '') + ')' if items else '0'
        return '(lambda %s:%s)(%s)' % (','.join(params), body, ','.join(args)), epilogue

    def comp_expr(self, scope):
        parts = {'elt': [], 'target0': 'i_', 'iter0': '(0,)', 'cond0': [], 'gen1': None, 'epilogue': []}
        for n, bid in scope.bundles:
            t = self.tag()
            for k, v in COMP_BUNDLES[bid].items():
                if k in ('elt', 'cond0', 'epilogue'):
                    parts[k] = parts[k] + [x.format(n=n, t=t) for x in v]
                elif k == 'gen1':
                    parts[k] = (v[0].format(n=n, t=t), v[1].format(n=n, t=t), list(v[2]))
                else:
                    parts[k] = v.format(n=n, t=t)
        epilogue = list(parts['epilogue'])
        gen1 = parts['gen1']
        for slot, child in scope.children:
            e, ep = self.expr_scope(child)
            epilogue += ep
            if slot == 'elt':
                parts['elt'].append(e)
            elif slot == 'iter0':
                parts['iter0'] = '(%s,)' % e if parts['iter0'] == '(0,)' else '(%s,%s)' % (parts['iter0'][1:-1].rstrip(','), e)
            elif slot == 'iter1':
                if gen1 is None:
                    gen1 = ('j_', '(%s,)' % e, [])
                else:
                    gen1 = (gen1[0], '(%s,%s)' % (gen1[1][1:-1].rstrip(','), e), gen1[2])
            elif slot == 'cond':
                parts['cond0'].append('(%s,)' % e)
            else:
                raise ValueError(slot)
        elt_items = parts['elt']
        if not elt_items:
            elt = 'i_' if parts['target0'] == 'i_' else '0'
        elif len(elt_items) == 1:
            elt = elt_items[0]
        else:
            elt = '(' + ','.join(elt_items) + ')'
        gens = 'for %s in %s' % (parts['target0'], parts['iter0'])
        for c in parts['cond0']:
            gens += ' if %s' % c
        if gen1 is not None:
            gens += ' for %s in %s' % (gen1[0], gen1[1])
            for c in gen1[2]:
                gens += ' if %s' % c
        k = scope.kind
        if k == 'listcomp':
            return '[%s %s]' % (elt, gens), epilogue
        if k == 'setcomp':
            return 'len({%s %s})' % (elt if elt_items else '0', gens), epilogue
        if k == 'genexp':
            return 'list(%s %s)' % (elt, gens), epilogue
        if k == 'dictcomp':
            return '{%s:0 %s}' % (elt, gens), epilogue
        raise ValueError(k)

    def program(self, module):
        return '\n'.join(self.stmt_body(module)) + '\n'


def indent(stmts):
    out = []
    for s in stmts:
        for line in s.split('\n'):
            out.append(' ' + line)
    return '\n'.join(out)


def emit(module):
    return Emitter().program(module)


# ---- enumeration ---------------------------------------------------------------------------------------------------------------------------

def bundles_for(kind, level, in_class=False):
    """bundle ids available to a scope kind at a bundle-alphabet `level` ('full' | 'mid' | 'core' | 'ann')"""
    if level == 'withA':
        # the tracked name declared / bound together with the user name A (a name the renamer itself hands out)
        if kind in ('def', 'adef'):
            return ['none', 'assign_with_A', 'nonlocal_with_A', 'global_with_A', 'global_load_with_A']
        if kind == 'module':
            return ['none', 'assign_with_A']
        if kind == 'class':
            return ['none', 'assign_with_A']
        if kind == 'lambda':
            return ['none', 'load']
        return ['none', 'load_elt']
    if level == 'tiny':
        if kind in ('def', 'adef'):
            return ['none', 'load', 'assign', 'param_pos']
        if kind == 'class':
            return ['none', 'load', 'assign', 'store_only']      # store_only: bound in the class body but never read there
        if kind == 'module':
            return ['none', 'load', 'assign']
        if kind == 'lambda':
            return ['none', 'load', 'param_default']
        return ['none', 'load_elt', 'target']
    if level == 'ann':
        if kind in ('def', 'adef'):
            return list(ANN_PARAM_BUNDLES) + ['assign', 'load']
        if kind in ('module', 'class'):
            return ['none', 'assign', 'ann_var_self', 'ann_var_obs']
        level = 'core'
    if kind in ('module', 'def', 'adef', 'class'):
        if level == 'full':
            ids = [i for i in STMT_BUNDLES if not i.startswith('ann_var_')]
        elif level == 'mid':
            ids = ['none', 'load', 'assign', 'store_only', 'aug_only', 'ann_only', 'for', 'except', 'import', 'import_dotted', 'from_import', 'def', 'class', 'walrus', 'del',
                   'match_capture', 'typeparam', 'load_before', 'global', 'global_load', 'global_del_only', 'nonlocal', 'nonlocal_load', 'assign_with_A', 'global_with_A',
                   'global_load_with_A', 'nonlocal_with_A']
        else:
            ids = ['none', 'load', 'assign', 'global', 'nonlocal', 'load_before'] + (['store_only'] if kind == 'class' else [])
        if kind == 'module':
            ids = [i for i in ids if i not in MODULE_EXCLUDED]
        if kind in ('def', 'adef'):
            if level == 'full':
                ids += [i for i in DEF_PARAM_BUNDLES if i not in ANN_PARAM_BUNDLES]
            elif level == 'mid':
                ids += ['param_pos', 'param_pos_kwcall', 'param_default', 'param_kwonly', 'param_vararg', 'param_kwarg', 'param_posonly', 'param_rebind']
            else:
                ids += ['param_pos', 'param_default']
        return ids
    if kind == 'lambda':
        if level == 'full':
            return list(LAMBDA_BUNDLES)
        if level == 'mid':
            return ['none', 'load', 'param_pos', 'param_default', 'param_kwonly', 'param_vararg', 'walrus', 'default_load']
        return ['none', 'load', 'param_default', 'walrus']
    if level == 'full':
        return list(COMP_BUNDLES)
    if level == 'mid':
        return ['none', 'load_elt', 'load_iter0', 'load_iter1', 'load_cond', 'target', 'target1', 'walrus_elt', 'walrus_cond']
    return ['none', 'load_elt', 'load_iter0', 'target', 'walrus_elt']


def slots_for(parent_kind, child_kind, level):
    if parent_kind in ('module', 'def', 'adef', 'class'):
        if child_kind in STMT_KINDS:
            return ['body']
        if level == 'ann':
            return list(ANN_SLOTS)
        if level == 'full':
            return list(STMT_PARENT_EXPR_SLOTS)
        if level == 'mid':
            return ['expr', 'default', 'decorator', 'base', 'fstring']
        return ['expr', 'default']
    if child_kind in STMT_KINDS:
        return []
    if level == 'ann':
        level = 'core'
    if parent_kind == 'lambda':
        return list(LAMBDA_SLOTS) if level != 'core' else ['body']
    if level == 'full':
        return list(COMP_SLOTS)
    if level == 'mid':
        return ['elt', 'iter0', 'iter1', 'cond']
    return ['elt', 'iter0']


def kinds_for(level):
    if level == 'full':
        return list(STMT_KINDS + EXPR_KINDS)
    if level == 'mid':
        return ['def', 'adef', 'class', 'lambda', 'listcomp', 'genexp', 'dictcomp']
    return ['def', 'class', 'lambda', 'listcomp', 'genexp']


def shapes(nscopes, klevel, slevel, chain_only=False):
    """all trees with exactly `nscopes` non-module scopes (unlabelled by bundles): yields a nested structure
    ('module', [(slot, (kind, [children...]))...])"""
    kinds = kinds_for(klevel)

    def subtrees(parent_kind, n):
        """forests of total size n under a parent of the given kind: list of lists of (slot, (kind, children))"""
        if n == 0:
            yield []
            return
        # first child takes k nodes, rest forest takes n-k ; to avoid duplicate orderings keep all orderings (order matters for evaluation)
        for k in range(1, n + 1):
            if chain_only and k != n:
                continue        # a chain: the single child takes all remaining nodes
            for kind in kinds:
                for slot in slots_for(parent_kind, kind, slevel):
                    for sub in subtrees(kind, k - 1):
                        for rest in subtrees(parent_kind, n - k):
                            yield [(slot, (kind, sub))] + rest

    for forest in subtrees('module', nscopes):
        yield ('module', forest)


def label(shape, levels, names=(X,), child_first=False, decoy=False):
    """all assignments of bundles to the scopes of a shape.  levels: function depth-first index -> bundle level"""
    nodes = []

    def collect(node):
        nodes.append(node)
        for _slot, ch in node[1]:
            collect(ch)
    collect(shape)
    choices = []
    for i, node in enumerate(nodes):
        ids = bundles_for(node[0], levels(i, len(nodes)))
        choices.append(ids)
    last = nodes[-1]
    # decoy programs come in two flavours: the innermost scope reads the injected global B, or (functions only) declares it global and
    # deletes it - a name that is only deleted is not bound by the module either, and must keep its spelling
    flavours = (('load',), ('load', 'global_del_only'))[bool(decoy) and last[0] in ('def', 'adef')] if decoy else (None,)
    for combo in itertools.product(*choices):
        for flavour in flavours:
            it = iter(combo)

            def build(node):
                bid = next(it)
                children = [(slot, build(ch)) for slot, ch in node[1]]
                bundles = ((names[0], bid),)
                if decoy:
                    # names from the renamer's own output alphabet used by the program itself: `A` is a module global, `B` is never bound by the
                    # module (injected through the execution namespace); the innermost scope reads both, so no binding on the way may be named A or B
                    if node is shape:
                        bundles = (('A', 'store_only'),) + bundles
                    if node is last:
                        load = 'load' if node[0] in ('module', 'def', 'adef', 'class', 'lambda') else 'load_elt'
                        bundles = bundles + (('A', load), ('B', load if flavour == 'load' else flavour))
                return Scope(node[0], bundles, children, child_first and bool(children))
            yield build(shape)


def count_nodes(shape):
    return 1 + sum(count_nodes(ch) for _s, ch in shape[1])
