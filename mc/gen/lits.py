"""G_lit: literal-only arithmetic expressions."""
import itertools

OPERANDS = ['0', '1', '2', '3', '7', '10', '255', '256', '2147483648', '9223372036854775808', '100000000000000000000',
            'True', 'False', '0.0', '.5', '1.0', '.1', '1e16', '1e308', '5e-324', '0j', '1j', '2.5j']
SMALL = ['0', '1', '2', '10', '256', 'True', '0.0', '.5', '1e308', '1j', '-1', '-0.0']
UNARY = ['', '-', '+', '~']
BINOPS = ['+', '-', '*', '/', '//', '%', '**', '<<', '>>', '|', '^', '&', '@']


def operands(full=True):
    out = []
    for o in OPERANDS:
        for u in UNARY:
            out.append(u + o)
    return out


def _big(text):
    import re
    return any(len(m) > 4 for m in re.findall(r'\d+', text) if '.' not in text and 'e' not in text and 'j' not in text)


def depth1():
    ops = operands()
    for a in ops:
        for b in ops:
            for op in BINOPS:
                if op == '<<' and _big(b):
                    continue        # 1<<2**31 makes the folder build (and on interpreters without the int->str limit, print) a 600M digit number
                yield '%s%s%s' % (a, op, b)


def depth2(alphabet, part=0, nparts=1):
    i = 0
    for a in alphabet:
        for op1 in BINOPS:
            i += 1
            if i % nparts != part:
                continue
            for b in alphabet:
                for op2 in BINOPS:
                    for c in alphabet:
                        if not (op2 == '<<' and _big(c)) and not (op1 == '<<' and _big(b)):
                            yield '(%s%s%s)%s%s' % (a, op1, b, op2, c)
                        if not (op1 == '<<' and (_big(b) or _big(c) or op2 in ('<<', '*', '+', '|', '^'))):
                            yield '%s%s(%s%s%s)' % (a, op1, b, op2, c)


CONTEXTS = [
    'x={E}', 'def f(p={E}):pass', 'x=a[{E}]', 'x=a({E})', 'x=a(k={E})', 'x=({E}).real', 'x=2**({E})', 'x=({E})**2', 'x=-({E})', 'x=~({E})', 'x=not {E}',
    'x=({E})<3', 'x=3 in ({E},)', "x=f'{{{E}}}'", "x=f'{{a:{{{E}}}}}'", 'x=a[{E}:{E}]', 'x={{{E}:{E}}}', '@a({E})\ndef f():pass',
    'def f():\n return {E}', 'x=lambda:{E}', 'match a:\n case 1:x={E}', 'x=[{E} for a in b if {E}]', 'assert {E},{E}', 'x=({E})+a', 'x=a+({E})',
    'x=a*({E})', 'x=({E})*a', 'x=a-({E})', 'x=a**({E})', 'x=a if {E} else b', 'class C:\n x={E}', 'x:int={E}', 'x+={E}', 'print({E})',
    'for a in ({E},):pass', 'while {E}:break', 'with a({E}):pass', 'x=a.b({E}).c', 'x=({E},)', 'x=[{E}]', 'x=({E})if a else({E})', 'x=a@({E})',
    'del a[{E}]', 'raise a({E})', 'x=await a({E})' , 'x=yield {E}', 'type X=a[{E}]', 'x=({E}).__class__', 'x=({E})[0]', 'x=a<({E})<b', 'x=1*({E})*1',
]
