"""Programs for C06: k occurrences of one literal distributed over every pair / triple of syntactic positions.

Each position contributes statements to a container (module, def f, nested def g, class C, method m, async def af); the program is the
containers that received something, followed by calls that make every scope run and observe the values.
"""
import itertools

# (name, container, statement template using {L}); containers: M module, F def f, G nested def g in f, C class, K method of C, A async def
POSITIONS = [
    ('m-assign', 'M', 'm_value={L}'),
    ('m-call', 'M', 'obs({L})'),
    ('m-default', 'M', 'def d_fn(p={L}):return p\nobs(d_fn())'),
    ('m-kwdefault', 'M', 'def k_fn(*,p={L}):return p\nobs(k_fn())'),
    ('m-decorator', 'M', '@deco({L})\ndef dec_fn():return 0'),
    ('m-base', 'M', 'class B_cls(base({L})):pass'),
    ('m-lambda', 'M', 'm_lam=lambda:{L}\nobs(m_lam())'),
    ('m-lambda-default', 'M', 'm_lam2=lambda q={L}:q\nobs(m_lam2())'),
    ('m-comp-elt', 'M', 'obs([{L} for i_ in (0,)])'),
    ('m-comp-iter', 'M', 'obs([i_ for i_ in ({L},)])'),
    ('m-comp-cond', 'M', 'obs([i_ for i_ in (0,) if {L} is not 5])'),
    ('m-genexp', 'M', 'obs(list({L} for i_ in (0,)))'),
    ('m-dictkey', 'M', 'obs({{{L}:1}})'),
    ('m-subscript', 'M', 'obs({{{L}:1}}[{L}])'),
    ('m-fstring-field', 'M', "obs(f'{{{L}!r}}')"),
    ('m-fstring-spec', 'M', "obs(f'{{1:{{{L}!r:.0}}}}')"),
    ('m-with', 'M', 'with cm({L}) as w_value:obs(w_value)'),
    ('m-except-type', 'M', 'try:raise KeyError({L})\nexcept (KeyError,obs({L}) and ValueError) as e_value:obs(e_value.args)'),
    ('m-assert-msg', 'M', 'assert obs(1),{L}'),
    ('m-match-subject', 'M', 'match {L}:\n case _:obs(0)'),
    ('m-match-guard', 'M', 'match 0:\n case _ if obs({L}) is not 5:obs(1)'),
    ('m-match-body', 'M', 'match 0:\n case _:obs({L})'),
    ('m-match-pattern', 'M', 'match {L}:\n case {L}:obs(2)\n case _:obs(3)'),
    ('m-slots-module', 'M', '__slots__=({L},)\nobs(__slots__)'),
    ('m-annotation', 'M', 'm_ann:obs({L})=0'),
    ('m-if-test', 'M', 'if {L} is not 5:obs(4)'),
    ('m-return-in-def', 'M', 'def r_fn():return {L}\nobs(r_fn())'),
    ('f-assign', 'F', 'f_value={L}\nobs(f_value)'),
    ('f-call', 'F', 'obs({L})'),
    ('f-comp', 'F', 'obs([{L} for i_ in ({L},)])'),
    ('f-lambda', 'F', 'obs((lambda:{L})())'),
    ('f-default', 'F', 'def fd_fn(p={L}):return p\nobs(fd_fn())'),
    ('f-global-decl', 'F', 'global m_value\nm_value={L}'),
    ('g-return', 'G', 'return {L}'),
    ('g-nonlocal', 'G', 'nonlocal f_outer\nf_outer={L}\nobs(f_outer)'),
    ('c-attr', 'C', 'attr={L}'),
    ('c-slots', 'C', '__slots__=({L},)'),
    # the value of an annotated assignment (the annotation-removing transform rebuilds these statements before literals are counted)
    ('m-annassign-value', 'M', 'm_ann:str={L}\nobs(m_ann)'), ('f-annassign-value', 'F', 'f_ann:str={L}\nobs(f_ann)'), ('c-annassign-value', 'C', 'c_ann:str={L}'),
    ('c-slots-annotated', 'C', '__slots__:tuple=({L},)'), ('c-slots-in-if', 'C', 'if obs:\n __slots__=({L},)'),
    ('c-slots-in-try', 'C', 'try:\n __slots__=({L},)\nfinally:\n pass'),
    ('c-doc-after', 'C', "'class doc'\nattr2={L}"),
    ('c-user-A', 'C', "A='user A'\nattr3={L}"), ('c-user-_A', 'C', "_A='user _A'\nattr4={L}"), ('c-user-A-read', 'C', "A='user A'\nobs(A)\nattr5={L}"),
    ('f-user-A', 'F', "A='user A'\nobs(A)\nf_v2={L}"), ('m-user-B', 'M', "B='user B'\nobs(B)\nm_v2={L}"),
    ('k-return', 'K', 'return {L}'),
    # a function whose parameters carry the very names the renamer hands out first
    ('p-use', 'P', 'obs(({L},A))'), ('p-use-kw', 'P', 'obs(({L},B,mode))'),
    ('a-await', 'A', 'return {L}'),
]
POS_D = {p[0]: p for p in POSITIONS}

LITERALS = [
    ('str6', "'abcdef'", 1), ('bytes6', "b'abcdef'", 1), ('none', 'None', 2), ('true', 'True', 2), ('false', 'False', 2),
    ('empty-str', "''", 2), ('empty-bytes', "b''", 2),
    # literals that only exist after constant folding (the folded node is created by a transform, not by the parser)
    ('true-folded', '(True|False)', 2), ('false-folded', '(True&False)', 2),
]
# pairs of literals that compare equal / look alike but must stay distinct
MIXED = [
    ('str-vs-bytes', "'abcdef'", "b'abcdef'"), ('true-vs-1', 'True', '1'), ('true-vs-1.0', 'True', '1.0'), ('false-vs-0', 'False', '0'),
    ('none-vs-str', 'None', "'None'"),
]
HEADS = [('plain', ''), ('docstring', "'module docstring'\n"), ('future', 'from __future__ import generators\n'),
         ('doc+future', "'module docstring'\nfrom __future__ import generators\n"), ('uses-A', "A='user A'\n_A='user _A'\nobs((A,_A))\n")]


def lit_expr(lit, mult):
    return lit if mult == 1 else '(%s,%s)' % (lit, lit)


def build(selection, head=''):
    """selection: list of (position name, literal expression)"""
    cont = {'M': [], 'F': [], 'G': [], 'C': [], 'K': [], 'A': [], 'P': []}
    for pos, expr in selection:
        _, c, tmpl = POS_D[pos]
        cont[c].append(tmpl.replace('{L}', expr.replace('{', '{{').replace('}', '}}')).format())
    out = [head] if head else []
    out.extend(cont['M'])
    if cont['F'] or cont['G']:
        body = ["'function docstring'", 'f_outer=0'] + cont['F']
        if cont['G']:
            g = cont['G']
            if not any(s.startswith('return') for s in g):
                g = g + ['return 0']
            else:
                g = [s for s in g if not s.startswith('return')] + [s for s in g if s.startswith('return')][:1]
            body.append('def g_fn():\n' + indent(g))
            body.append('obs(g_fn())')
        body.append('return f_outer')
        out.append('def f_fn():\n' + indent(body))
        out.append('obs(f_fn())')
    if cont['C'] or cont['K']:
        body = list(cont['C'])
        if cont['K']:
            body.append('def k_method(self):\n' + indent(cont['K'][:1]))
        out.append('class C_cls:\n' + indent(body or ['pass']))
        if cont['K']:
            out.append('obs(C_cls().k_method())')
        out.append('obs(C_cls)')
    if cont['P']:
        out.append('def p_fn(A,B=2,*,mode=0):\n' + indent(cont['P'] + ['return (A,B,mode)']))
        out.append('obs(p_fn(7))')
        out.append('obs(p_fn(7,B=8,mode=9))')
    if cont['A']:
        out.append('async def a_fn():\n' + indent(cont['A'][:1]))
        out.append('obs(run(a_fn()))')
    return '\n'.join(out) + '\n'


def indent(stmts):
    lines = []
    for s in stmts:
        for l in s.split('\n'):
            lines.append(' ' + l)
    return '\n'.join(lines)


def programs(tier):
    names = [p[0] for p in POSITIONS]
    ks = (2,) if tier == 'quick' else (2, 3)
    for lname, lit, mult in LITERALS:
        e = lit_expr(lit, mult)
        for k in ks:
            for combo in itertools.combinations_with_replacement(names, k):
                if k == 3 and lname not in ('str6', 'none'):
                    continue
                heads = HEADS if (k == 2 and lname in ('str6', 'none')) else HEADS[:1]
                for hname, head in heads:
                    yield 'hoist:%s:%s:%s' % (lname, '+'.join(combo), hname), build([(p, e) for p in combo], head)
    for mname, l1, l2 in MIXED:
        for a, b in itertools.product(names, repeat=2):
            e1, e2 = '(%s,%s)' % (l1, l1), '(%s,%s)' % (l2, l2)
            yield 'hoist:%s:%s+%s' % (mname, a, b), build([(a, e1), (a, e1), (b, e2), (b, e2)])
