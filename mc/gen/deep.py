"""Depth ladders for C08: one syntactic shape nested / chained n times, n over a fixed ladder of rungs.

The interpreter compiles these up to its own limits (parser nesting limit 200 for brackets, 100 indentation levels, the compiler's recursion
guard); the minifier's visitors are recursive Python functions, so each shape has a depth beyond which `minify` raises RecursionError although
`compile()` still accepts the source.  The ladder finds, per shape and option set, the first rung at which that happens (or any other failure).
"""

RUNGS = [10, 25, 50, 75, 100, 150, 200, 250, 300, 400, 600, 900, 1500, 3000]


def _nest_blocks(header, n, body='pass'):
    lines = []
    for i in range(n):
        lines.append(' ' * i + header)
    lines.append(' ' * n + body)
    return '\n'.join(lines) + '\n'


SHAPES = [
    ('binop-left', lambda n: 'x=' + '+'.join(['a'] * (n + 1)) + '\n'),
    ('binop-right', lambda n: 'x=' + '**'.join(['a'] * (n + 1)) + '\n'),
    ('binop-left-literals', lambda n: 'x=' + '+'.join(['a'] + ['1'] * n) + '\n'),
    ('binop-str-concat', lambda n: 'x=' + '+'.join(["'s'", 'a'] * ((n + 1) // 2)) + '\n'),
    ('boolop-alternating', lambda n: 'x=' + '(' * n + 'a' + ''.join((' or b)' if i % 2 else ' and b)') for i in range(n)) + '\n'),
    ('unary-not', lambda n: 'x=' + 'not ' * n + 'a\n'),
    ('unary-minus', lambda n: 'x=' + '-' * n + 'a\n'),
    ('attribute-chain', lambda n: 'x=a' + '.b' * n + '\n'),
    ('call-chain', lambda n: 'x=a' + '()' * n + '\n'),
    ('subscript-chain', lambda n: 'x=a' + '[0]' * n + '\n'),
    ('method-chain', lambda n: 'x=a' + '.b(1)' * n + '\n'),
    ('nested-list', lambda n: 'x=' + '[' * n + 'a' + ']' * n + '\n'),
    ('nested-call-arg', lambda n: 'x=' + 'f(' * n + 'a' + ')' * n + '\n'),
    ('nested-dict', lambda n: 'x=' + '{1:' * n + 'a' + '}' * n + '\n'),
    ('nested-parens', lambda n: 'x=' + '(' * n + 'a' + ')' * n + '\n'),
    ('nested-lambda', lambda n: 'x=' + 'lambda:' * n + 'a\n'),
    ('nested-ifexp', lambda n: 'x=' + 'a if b else ' * n + 'c\n'),
    ('nested-ifexp-test', lambda n: 'x=' + '(' * n + 'a' + ' if b else c)' * n + '\n'),
    ('elif-ladder', lambda n: 'if a:\n pass\n' + 'elif a:\n pass\n' * n),
    ('elif-ladder-in-def', lambda n: 'def f(a):\n if a:\n  return 1\n' + ' elif a:\n  return 1\n' * n),
    ('nested-if', lambda n: _nest_blocks('if a:', n)),
    ('nested-def', lambda n: _nest_blocks('def f():', n)),
    ('nested-class', lambda n: _nest_blocks('class C:', n)),
    ('nested-with', lambda n: _nest_blocks('with a:', n)),
    ('nested-try', lambda n: ''.join(' ' * i + 'try:\n' for i in range(n)) + ' ' * n + 'pass\n' + ''.join(' ' * i + 'finally:\n' + ' ' * (i + 1) + 'pass\n' for i in reversed(range(n)))),
    ('compare-chain', lambda n: 'x=' + '<'.join(['a'] * (n + 1)) + '\n'),
    ('tuple-flat', lambda n: 'x=(' + ','.join(['a'] * (n + 1)) + ')\n'),
    ('statements-flat', lambda n: 'a=1\n' * (n + 1)),
    ('decorators-flat', lambda n: '@d\n' * n + 'def f():pass\n'),
    ('implicit-str-concat', lambda n: 'x=' + " ".join(["'s'"] * (n + 1)) + '\n'),
    ('fstring-fields-flat', lambda n: "x=f'" + '{a}' * (n + 1) + "'\n"),
    ('nested-genexp', lambda n: 'x=' + '(' * n + 'a' + ' for a in b)' * n + '\n'),
    ('await-chain', lambda n: 'async def f():\n x=' + 'await ' * n + 'a\n'),
    ('starred-assign-chain', lambda n: '=' .join(['a'] * (n + 1)) + '=1\n'),
    ('walrus-nest', lambda n: 'x=' + '(a:=' * n + 'b' + ')' * n + '\n'),
    ('slice-nest', lambda n: 'x=a' + '[b' * n + ']' * n + '\n'),
]


def ladder():
    """yield (shape, n, source)"""
    for name, make in SHAPES:
        for n in RUNGS:
            yield name, n, make(n)
