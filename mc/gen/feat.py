"""G_feat: "kitchen-sink" runnable programs built from ordered selections of construct fragments.

Fragments share a tiny name alphabet on purpose (value, result, helper, Item, ...) so that they shadow and collide.  Every fragment
observes what it computes through obs() (injected) or print().  Fragments never read reflective state (locals(), __qualname__, annotations).
"""
import itertools

FRAGMENTS = [
    ('closure', '''
def make_counter(start):
    count = start
    def increment(step=1):
        nonlocal count
        count += step
        return count
    return increment
counter = make_counter(10)
obs(counter())
obs(counter(step=5))
'''),
    ('generator', '''
def gen_values(limit):
    total = 0
    for value in range(limit):
        total += value
        yield total
    return None
obs(list(gen_values(5)))
'''),
    ('coroutine', '''
async def fetch_value(value):
    return value * 2
async def gather_values():
    result = []
    for value in (1, 2, 3):
        result.append(await fetch_value(value))
    return result
obs(run(gather_values()))
'''),
    ('decorator', '''
def logged(prefix):
    def wrap(function):
        def inner(*args, **kwargs):
            obs(prefix)
            return function(*args, **kwargs)
        return inner
    return wrap
@logged('calling')
def add_values(first, second=2):
    return first + second
obs(add_values(1))
obs(add_values(first=3, second=4))
'''),
    ('starargs', '''
def collect(first, *rest, key=None, **options):
    return (first, rest, key, sorted(options.items()))
obs(collect(1, 2, 3, key='k', extra=True))
values = [1, 2, 3]
mapping = {'key': 'v', 'other': 1}
obs(collect(*values, **mapping))
'''),
    ('posonly', '''
def divide(numerator, denominator, /, *, rounding=None):
    result = numerator / denominator
    if rounding is not None:
        return round(result, rounding)
    return result
obs(divide(7, 2))
obs(divide(7, 3, rounding=2))
'''),
    ('class_attrs', '''
class Item(object):
    category = 'generic'
    count = 0
    def __init__(self, name, price=0):
        self.name = name
        self.price = price
        Item.count += 1
    def describe(self):
        return '%s:%s:%s' % (self.category, self.name, self.price)
    @classmethod
    def create(cls, name):
        return cls(name, price=1)
    @staticmethod
    def helper(value):
        return value + 1
    @property
    def double(self):
        return self.price * 2
item = Item.create('widget')
obs(item.describe())
obs(item.double)
obs(Item.helper(1))
obs(Item.count)
'''),
    ('decorated_methods', '''
import builtins
def as_static(flag):
    return staticmethod
class Shape:
    @builtins.staticmethod
    def scale(factor, amount):
        return factor * amount
    @as_static(1)
    def shift(offset, amount=1):
        return offset + amount
    @builtins.classmethod
    def make(klass, size):
        return (klass is Shape, size)
    @staticmethod
    def plain(first, second=2):
        return first - second
obs(Shape.scale(factor=2, amount=5))
obs(Shape.shift(offset=3))
obs(Shape.make(size=4))
obs(Shape.plain(first=9))
'''),
    ('slots', '''
class Point:
    __slots__ = ('x_coord', 'y_coord')
    def __init__(self, x_coord, y_coord):
        self.x_coord = x_coord
        self.y_coord = y_coord
point = Point(1, 2)
obs((point.x_coord, point.y_coord))
obs(Point.__slots__)
'''),
    ('dataclass', '''
import dataclasses
@dataclasses.dataclass
class Record:
    name: str
    value: int = 0
    label: str = 'none'
record = Record('alpha', value=3)
obs((record.name, record.value, record.label))
obs(record == Record('alpha', 3))
'''),
    ('namedtuple', '''
import typing
class Pair(typing.NamedTuple):
    left: int
    right: int = 5
pair = Pair(1)
obs((pair.left, pair.right))
obs(pair._fields)
'''),
    ('try_full', '''
def risky(value):
    try:
        if value == 0:
            raise ValueError()
        elif value == 1:
            raise KeyError('one')
        result = 'ok'
    except ValueError as error:
        result = 'value'
        obs(type(error) is ValueError)
    except (KeyError, IndexError) as error:
        result = error.args[0]
    else:
        result = result + '!'
    finally:
        obs('finally')
    return result
obs([risky(value) for value in range(3)])
'''),
    ('raise_builtin', '''
def check(value):
    if value < 0:
        raise ValueError()
    if value == 0:
        raise ZeroDivisionError
    if value > 5:
        raise RuntimeError('big')
    if value == 4:
        raise ImportError(name='module_name', path='module_path')
    if value == 5:
        raise OSError(*())
    return None
for value in (-1, 0, 3, 9, 4, 5):
    try:
        obs(check(value))
    except Exception as error:
        obs((type(error).__name__, error.args, getattr(error, 'name', None), getattr(error, 'path', None)))
'''),
    ('with_stmt', '''
class Manager:
    def __init__(self, name):
        self.name = name
    def __enter__(self):
        obs('enter ' + self.name)
        return self.name
    def __exit__(self, *exc_info):
        obs('exit ' + self.name)
        return False
with Manager('first') as first, Manager('second') as second:
    obs(first + second)
'''),
    ('match_stmt', '''
def classify(subject):
    match subject:
        case 0 | 1:
            return 'small'
        case [first, *rest]:
            return ('list', first, rest)
        case {'key': value, **others}:
            return ('dict', value, others)
        case str() as text if text:
            return 'text ' + text
        case None:
            return 'none'
        case _:
            pass
    return 'other'
obs([classify(subject) for subject in (0, [1, 2, 3], {'key': 1, 'z': 2}, 'hello', None, 2.5)])
'''),
    ('loops_else', '''
def search(values, target):
    for index, value in enumerate(values):
        if value == target:
            break
    else:
        return -1
    while index > 100:
        pass
    else:
        index += 0
    return index
obs(search([3, 4, 5], 5))
obs(search([3, 4, 5], 6))
'''),
    ('fstrings', '''
name = 'world'
width = 10
value = 3.14159
mapping = {'key': 'item'}
obs(f'hello {name!r:>{width}} {value:.2f} {mapping["key"]} {"quoted"}')
obs(f'{name=} {{literal}} {value + 1 = }')
obs(f"{'nested ' f'{name}'}")
obs(f'{b"bytes"!r} {len(b"it is")} {b"" in b"abc"} {name in "world"}')
'''),
    ('repeated_literals', '''
def labels():
    return ['long literal string', 'long literal string', 'long literal string', b'some bytes here', b'some bytes here', b'some bytes here']
flags = [True, True, True, True, False, False, False, False, None, None, None, None, None]
obs(labels())
obs(flags)
obs('long literal string')
'''),
    ('repeated_builtins', '''
def measure(values):
    return (len(values), len(values[0]), len(str(values)), isinstance(values, list), isinstance(values, tuple), isinstance(values[0], str))
obs(measure(['ab', 'c']))
obs((len('abc'), isinstance(1, int)))
'''),
    ('return_none', '''
def nothing(flag):
    if flag:
        return None
    return
def only_none():
    return None
obs((nothing(True), nothing(False), only_none()))
'''),
    ('docstrings', '''
def documented():
    """Function docstring"""
    'another literal statement'
    42
    return documented.__doc__
class Documented:
    """Class docstring"""
    def method(self):
        """Method docstring"""
obs(documented())
obs(Documented.__doc__)
obs(Documented.method.__doc__)
'''),
    ('annotations', '''
import typing
counter: int = 0
untyped: typing.Optional[int]
def annotated(first: int, *args: str, key: 'typing.Any' = None, **kwargs: float) -> typing.List[int]:
    local: int = first
    unset: str
    return [local]
class Annotated:
    attribute: int = 3
    other: str
obs(annotated(1))
obs(Annotated.attribute)
obs(counter)
'''),
    ('imports', '''
import os
import os.path
import sys
import collections as coll
from itertools import chain, islice
from os import sep as separator
import json, re
obs(os.path.join('a', 'b').replace(separator, '/'))
obs(list(islice(chain([1], [2, 3]), 2)))
obs(coll.OrderedDict([(1, 2)])[1])
obs(json.dumps([re.sub('a', 'b', 'aa')]))
obs(sys.version_info[0])
def use_dotted_import():
    import xml.dom.minidom
    import os.path
    return (xml.__name__, xml.dom.minidom.__name__, os.path.sep, os.sep)
obs(use_dotted_import())
'''),
    ('constant_arith', '''
SECONDS = 60 * 60 * 24
MASK = 0xFF << 8 | 0x0F
RATIO = 10 / 4
NEGATIVE = -5 // 2
POWER = 2 ** 10
MIXED = 1 + 2.0
TEXT = 'ab' + 'cd'
REPEAT = 'ab' * 3
BYTES = b'ab' + b'cd'
obs((SECONDS, MASK, RATIO, NEGATIVE, POWER, MIXED, TEXT, REPEAT, BYTES, 5 % 3, 7 - 10, 2 ** -1, -0.0 * 1, 1e308 * 10))
'''),
    ('lambda_comps', '''
scale = 3
multiply = lambda value, factor=scale: value * factor
squares = [value * value for value in range(4) if value % 2 == 0]
pairs = {key: [item for item in range(key)] for key in range(3)}
lazy = (multiply(value) for value in squares)
unique = {value % 2 for value in range(5)}
obs((multiply(2), multiply(2, factor=5), squares, pairs, list(lazy), sorted(unique)))
obs([(last := value) for value in range(3)])
obs(last)
'''),
    ('global_nonlocal', '''
total = 0
def accumulate(amount):
    global total
    total += amount
    def inner():
        global total
        total *= 2
        return total
    return inner()
obs(accumulate(2))
obs(accumulate(3))
obs(total)
'''),
    ('multi_global', '''
def setup_state():
    global first_state, second_state, third_state, fourth_state
    first_state = 'one'
    second_state = 'two'
    third_state = 'three'
    fourth_state = 'four'
def read_state():
    def inner():
        nonlocal alpha_local, beta_local, gamma_local
        alpha_local, beta_local, gamma_local = gamma_local, alpha_local, beta_local
    alpha_local, beta_local, gamma_local = first_state, second_state, third_state
    inner()
    return (alpha_local, beta_local, gamma_local, fourth_state)
setup_state()
obs(read_state())
'''),
    ('class_imports', '''
def make_paths():
    class Paths:
        from os.path import join as join_path
        from os.path import dirname
        from os.path import basename, splitext
        import json
        import re
        nested = dirname(dirname(dirname('a/b/c/d')))
        joined = join_path(basename('x/y'), basename('z/w'), splitext('v.txt')[0], splitext('u.py')[1])
        def build(self):
            return (Paths.join_path('a', 'b').replace('\\\\', '/'), Paths.dirname('a/b'), Paths.basename('a/b'), Paths.json.dumps(1), Paths.re.escape('.'))
    return Paths
obs(make_paths()().build())
obs(sorted(name for name in make_paths().__dict__ if not name.startswith('_')))
obs((make_paths().nested, make_paths().joined.replace('\\\\', '/')))
'''),
    ('class_scope', '''
value = 'module'
class Scoped:
    value = 'class'
    copy = value
    def method(self):
        return value
    items = [value for _ in range(1)]
    nested = [[value, inner] for inner in (1,)]
obs((Scoped.copy, Scoped().method(), Scoped.items, Scoped.nested))
'''),
    ('shadow_builtin', '''
def shadow(len):
    return len + 1
ValueError_copy = ValueError
class Custom:
    ValueError = KeyError
    def fail(self):
        raise ValueError()
try:
    Custom().fail()
except Exception as error:
    obs(type(error).__name__)
obs(shadow(2))
obs(len('abc'))
'''),
    ('object_base', '''
class Base(object):
    pass
class Derived(Base, object):
    pass
class Meta(type):
    pass
class WithMeta(object, metaclass=Meta):
    pass
obs([cls is object for cls in Derived.__mro__])
obs(type(WithMeta) is Meta)
'''),
    ('assert_debug', '''
def checked(value):
    assert value > 0, 'must be positive'
    if __debug__:
        obs('debug on')
    return value
try:
    obs(checked(1))
    obs(checked(-1))
except AssertionError as error:
    obs(('assertion', error.args))
'''),
    ('pass_blocks', '''
class Empty:
    pass
def empty():
    pass
for _ in range(2):
    pass
if True:
    pass
else:
    pass
try:
    pass
except Exception:
    pass
finally:
    pass
obs((Empty.__mro__[1:], empty()))
'''),
    ('exceptions_custom', '''
class AppError(Exception):
    def __init__(self, message='default'):
        super().__init__(message)
        self.message = message
def fail(kind):
    if kind:
        raise AppError()
    raise AppError('custom') from None
for kind in (True, False):
    try:
        fail(kind)
    except AppError as error:
        obs(error.message)
'''),
    ('kwargs_call', '''
def configure(host, port=80, *, secure=False, **extra):
    return (host, port, secure, sorted(extra))
options = dict(secure=True, timeout=3)
obs(configure('localhost'))
obs(configure(host='remote', port=8080))
obs(configure('h', **options))
'''),
    ('string_methods', '''
template = '{greeting}, {name}!'
obs(template.format(greeting='hello', name='there'))
obs('%(key)s=%(value)d' % {'key': 'answer', 'value': 42})
obs(', '.join(sorted({'b', 'a'})))
'''),
    ('unpacking', '''
first, *middle, last = range(5)
(alpha, beta), gamma = (1, 2), 3
merged = [*middle, *[alpha, beta]]
combined = {**{'k': first}, 'last': last}
obs((first, middle, last, alpha, beta, gamma, merged, sorted(combined.items())))
'''),
    ('tuples_yield', '''
def produce():
    received = yield 1, 2
    obs(received)
    yield (received, 3)
    return 4, 5
producer = produce()
obs(next(producer))
obs(producer.send('sent'))
try:
    next(producer)
except StopIteration as stop:
    obs(stop.value)
'''),
    ('chained_compare', '''
low, high = 1, 10
obs([value for value in range(12) if low < value <= high and value not in (3, 4) or value is None])
obs(not low == high)
obs(-low ** 2)
obs((-low) ** 2)
obs(2 ** -low)
obs(low if high else 0 if low else 1)
'''),
    ('type_params', '''
def first_of[T](items: list[T]) -> T:
    return items[0]
class Box[T]:
    def __init__(self, content: T):
        self.content = content
type Alias[K] = dict[K, int]
obs(first_of([1, 2]))
obs(Box('content').content)
obs(type(Alias).__name__)
'''),
    ('del_stmt', '''
values = {'key': 1, 'other': 2}
temp = 5
del values['key'], temp
obs(sorted(values))
try:
    temp
except NameError:
    obs('deleted')
'''),
    ('nested_functions', '''
def outer(value):
    def middle(factor):
        def inner(offset):
            return value * factor + offset
        return inner
    return middle
obs(outer(2)(3)(4))
'''),
    ('bytes_unicode', '''
data = b'\\x00\\xff binary \\\\ data'
text = 'unicode \\u00e9 \\U0001f600 \\n newline \\\\ backslash'
obs((data, text, len(data), len(text)))
'''),
    ('while_walrus', '''
queue = [3, 2, 1, 0, 5]
seen = []
while (current := queue.pop(0)):
    seen.append(current)
obs((seen, queue, current))
'''),
    ('eq_hash_dunder', '''
class Version:
    def __init__(self, major):
        self.major = major
    def __eq__(self, other):
        return self.major == other.major
    def __hash__(self):
        return hash(self.major)
    def __repr__(self):
        return 'Version(%d)' % self.major
    def __lt__(self, other):
        return self.major < other.major
obs(repr(sorted([Version(2), Version(1)])))
obs(len({Version(1), Version(1)}))
'''),
    ('getattr_names', '''
class Config:
    debug = True
    level = 3
config = Config()
obs([getattr(config, name) for name in ('debug', 'level')])
setattr(config, 'extra', 1)
obs(config.extra)
obs(hasattr(Config, 'level'))
'''),
    ('print_out', '''
import sys
print('to stdout', 1, sep='|')
print('second line')
'''),
    ('sys_exit', '''
import sys
obs('before exit')
sys.exit(3)
'''),
    ('uncaught', '''
def explode():
    raise LookupError()
obs('before')
explode()
'''),
    ('future_import', '''
from __future__ import annotations
def later(value: Undefined) -> Undefined:
    return value
obs(later(1))
'''),
]
FRAG_D = dict(FRAGMENTS)
# fragments that end the program (must come last) or must come first
TERMINAL = ('sys_exit', 'uncaught')
FIRST_ONLY = ('future_import',)


def programs(tier):
    """ordered selections of <=2 (quick) / <=3 (thorough: all pairs + triples over a reduced set) fragments"""
    names = [n for n, _ in FRAGMENTS]
    for n in names:
        yield 'feat:' + n, FRAG_D[n]
    body = [n for n in names if n not in FIRST_ONLY]
    for a, b in itertools.permutations(names, 2):
        if a in TERMINAL or b in FIRST_ONLY:
            continue
        yield 'feat:%s+%s' % (a, b), FRAG_D[a] + FRAG_D[b]
    if tier == 'thorough':
        core = ['closure', 'decorator', 'class_attrs', 'try_full', 'raise_builtin', 'match_stmt', 'fstrings', 'repeated_literals',
                'repeated_builtins', 'lambda_comps', 'global_nonlocal', 'class_scope', 'shadow_builtin', 'annotations', 'imports',
                'constant_arith', 'type_params', 'docstrings']
        for a, b, c in itertools.permutations(core, 3):
            yield 'feat:%s+%s+%s' % (a, b, c), FRAG_D[a] + FRAG_D[b] + FRAG_D[c]


def crossed_programs():
    """a few programs that contain a trigger for every transform, for the fully crossed option sets"""
    sel = [
        ('docstrings', 'class_attrs', 'raise_builtin', 'return_none', 'repeated_literals', 'constant_arith', 'annotations', 'imports', 'posonly', 'pass_blocks'),
        ('object_base', 'closure', 'repeated_builtins', 'assert_debug', 'shadow_builtin', 'fstrings', 'lambda_comps', 'dataclass', 'return_none', 'pass_blocks'),
        ('match_stmt', 'global_nonlocal', 'class_scope', 'try_full', 'kwargs_call', 'namedtuple', 'constant_arith', 'imports', 'raise_builtin', 'docstrings'),
    ]
    for names in sel:
        yield 'crossed:' + '+'.join(names), ''.join(FRAG_D[n] for n in names)
