"""f-string programs whose printed form has several equally short candidates (quote choice, nesting, format specs with nested fields):
value kind x format-spec kind x conversion x debug flag.  Used by C11 (hash seed / set order / schedules must not decide between ties)
and available to C02/C08 through exprs-like (label, source) pairs."""
import itertools

VALUES = [
    ('name', 'value'),
    ('str-sq', "'it'"), ('str-dq', '"it"'), ('str-both', "'a\\'b\"c'"),
    ('bytes', "b'it'"),
    ('nested-f', "f'{fill}>'"), ('nested-f-dq', 'f"{fill}"'),
    ('dict', "{'k': value}['k']"),
    ('call-str', "len('ab')"),
]
SPECS = [
    ('none', ''),
    ('literal', ':>10'),
    ('field', ':{width}'),
    ('two-fields', ':{fill}>{width}'),
    ('nested-f-field', ':{f"{width}"}'),
    ('nested-f-field-mixed', ':{f"{fill}>{width}"}'),
    ('nested-f-sq', ":{f'{width}'}"),
    ('str-field', ":{'>'}{width}"),
    ('nested-f-with-str', ':{f"{\'>\'}{width}"}'),
]
CONVS = [('', ''), ('r', '!r'), ('s', '!s')]
DEBUG = [('', ''), ('dbg', '=')]
OUTER = [('sq', "'"), ('dq', '"'), ('tsq', "'''"), ('tdq', '"""')]


def cases(tier='thorough'):
    head = "value = 'v'\nfill = '*'\nwidth = 5\n"
    for (vn, v), (sn, s), (cn, c), (dn, d), (on, q) in itertools.product(VALUES, SPECS, CONVS, DEBUG, OUTER[:2] if tier == 'quick' else OUTER):
        body = 'f%s{%s%s%s%s} and {%s}%s' % (q, v, d, c, s, v, q)
        yield 'fstr:%s:%s:%s:%s:%s' % (vn, sn, cn or '-', dn or '-', on), head + 'print(' + body + ')\n'
