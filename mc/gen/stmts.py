"""G_stmt: every block position x block contents of 1-2 statements from the statement forms the structural transforms care about.

Programs are runnable: `flag` (True) and `obs` are injected; each block position is entered exactly once.
"""
import itertools

# block positions: template with {B} (the block under test, indented by the builder) ; 'fn' marks positions inside a function (return allowed)
POSITIONS = [
    ('module', '{B0}', False),
    ('def', 'def f():\n{B1}\nobs(f())', True),
    ('async-def', 'async def f():\n{B1}\nobs(run(f()))', True),
    ('class', 'class C:\n{B1}\nobs(C)', False),
    ('method', 'class C:\n def m(self):\n{B2}\nobs(C().m())', True),
    ('nested-def', 'def f():\n def g():\n{B2}\n return g()\nobs(f())', True),
    ('if', 'if flag:\n{B1}', False),
    ('else', 'if not flag:\n obs(0)\nelse:\n{B1}', False),
    ('elif', 'if not flag:\n obs(0)\nelif flag:\n{B1}', False),
    ('for', 'for i_ in (1,):\n{B1}', False),
    ('for-else', 'for i_ in (1,):\n obs(i_)\nelse:\n{B1}', False),
    ('while', 'while flag:\n{B1}\n break', False),
    ('try', 'try:\n{B1}\nfinally:\n obs(9)', False),
    ('except', 'try:\n raise KeyError(1)\nexcept KeyError:\n{B1}', False),
    ('try-else', 'try:\n obs(8)\nexcept KeyError:\n obs(7)\nelse:\n{B1}', False),
    ('finally', 'try:\n obs(8)\nfinally:\n{B1}', False),
    ('with', 'with cm(1):\n{B1}', False),
    ('match-case', 'match 1:\n case 1:\n{B2}', False),
    ('def-in-if', 'if flag:\n def f():\n{B2}\n obs(f())', True),
    # blocks that end a function: a trailing `return` here is NOT the function's last statement
    ('def-finally', 'def f():\n try:\n  raise KeyError(1)\n finally:\n{B2}\ntry:\n obs(f())\nexcept KeyError:\n obs(6)', True),
    ('def-try-else', 'def f():\n try:\n  obs(8)\n except KeyError:\n  obs(7)\n else:\n{B2}\nobs(f())', True),
    ('def-if-last', 'def f():\n if flag:\n{B2}\nobs(f())', True),
    ('def-with-last', 'def f():\n with cm(1):\n{B2}\nobs(f())', True),
    ('def-except-last', 'def f():\n try:\n  raise KeyError(1)\n except KeyError:\n{B2}\nobs(f())', True),
    ('def-for-else-last', 'def f():\n for i_ in (1,):\n  obs(i_)\n else:\n{B2}\nobs(f())', True),
    # scopes in which `object` is a parameter / local of some kind (the base-class rewrite must leave them alone)
    ('def-object-kwonly', 'def f(*,object=Exception):\n{B1}\nobs(f())', True),
    ('def-object-posonly', 'def f(object=Exception,/):\n{B1}\nobs(f())', True),
    ('def-object-vararg', 'def f(*object):\n object=Exception\n{B1}\nobs(f())', True),
    ('except-as-object', 'try:\n raise KeyError(1)\nexcept KeyError as object:\n object=Exception\n{B1}', False),
    ('for-object', 'for object in (Exception,):\n{B1}', False),
    ('typeparam-object', 'def f[object]():\n{B1}\ntry:\n obs(f())\nexcept TypeError:\n obs(5)', True),
    ('class-typeparam-object', 'class G[*object]:\n{B1}\nobs(G)', False),
]

# statement forms: (name, text, needs function?)
STATEMENTS = [
    ('pass', 'pass', False),
    ('lit-int', '1', False), ('lit-str', "'string statement'", False), ('lit-bytes', "b'bytes'", False), ('lit-none', 'None', False),
    ('lit-true', 'True', False), ('lit-ellipsis', '...', False), ('lit-float', '1.5', False), ('lit-fstring', "f'{flag}'", False),
    ('lit-zero', '0', False), ('lit-tuple', '(1,2)', False), ('lit-neg', '-1', False),
    ('real', 'obs(1)', False), ('real2', 'v_=obs(2)', False),
    ('assert', 'assert obs(3)', False), ('assert-msg', "assert obs(4),'message'", False), ('assert-false', 'assert not obs(5)', False),
    ('debug', 'if __debug__:\n obs(10)', False), ('debug-is-true', 'if __debug__ is True:\n obs(11)', False),
    ('debug-eq-true', 'if __debug__==True:\n obs(12)', False), ('debug-is-not-false', 'if __debug__ is not False:\n obs(13)', False),
    ('debug-not', 'if not __debug__:\n obs(14)', False), ('debug-is-false', 'if __debug__ is False:\n obs(15)', False),
    ('debug-else', 'if __debug__:\n obs(16)\nelse:\n obs(17)', False), ('debug-elif', 'if __debug__:\n obs(18)\nelif flag:\n obs(19)', False),
    ('debug-and', 'if __debug__ and flag:\n obs(20)', False), ('other-is-true', 'if flag is True:\n obs(21)', False),
    ('other-eq-true', 'if flag==True:\n obs(22)', False), ('debug-rev', 'if True is __debug__:\n obs(23)', False),
    ('debug-pass', 'if __debug__:\n pass', False),
    ('import', 'import os', False), ('import2', 'import sys', False), ('import-dotted', 'import os.path', False), ('import-as', 'import json as js_', False),
    ('from', 'from os import sep', False), ('from2', 'from os import linesep', False), ('from-other', 'from sys import argv', False),
    ('from-as', 'from os import sep as sep_', False), ('from-future-like', 'from os.path import join', False),
    ('from-rel1', 'from . import r_one', False), ('from-rel2', 'from .. import r_two', False), ('from-rel1-mod', 'from .os import sep', False),
    ('from-star', 'from os.path import *', False),
    ('return-none', 'return None', True), ('return', 'return', True), ('return-value', 'return obs(30)', True),
    ('return-none-cond', 'if flag:\n return None', True),
    ('raise', 'raise ValueError()', False), ('raise-noparen', 'raise ValueError', False), ('raise-arg', 'raise ValueError(1)', False),
    ('raise-from', 'raise ValueError() from KeyError()', False), ('raise-attr', 'raise os_.error()', False),
    ('raise-nonexc', 'raise int()', False), ('raise-kw', 'raise ValueError(*())', False), ('raise-kwonly', "raise ImportError(name='n_')", False),
    ('raise-dstar', 'raise ImportError(**{})', False),
    ('ann-value', 'a_:int=obs(40)', False), ('ann-novalue', 'b_:int', False), ('ann-attr', 'ns_.c:int=1', False), ('ann-sideeffect-free', 'd_:"int"=2', False),
    ('class-object', 'class K(object):pass', False), ('class-object-2', 'class K(object,metaclass=type):x=1', False),
    ('class-base', 'class K(Exception,object):pass', False),
    ('def-posonly', 'def p_(a,/,b=2):return a', False), ('def-ann', 'def q_(a:int,*b:str,c:float=1.,**d:bytes)->bool:return a', False),
    ('docstring-def', "def r_():\n 'docstring'\n return r_.__doc__", False),
]
STMT_D = dict((n, (t, fn)) for n, t, fn in STATEMENTS)

# contexts that shadow things the transforms must look at; prepended to the program
PREAMBLES = [
    ('plain', ''),
    ('shadow-exc-global', 'ValueError=KeyError\n'),
    ('shadow-object', 'object=int\n'),
    ('uses-doc-name', "'module docstring'\nobs(__doc__)\n"),
    ('uses-doc-attr', "'module docstring'\nimport os as om_\nobs(om_.__doc__ is None)\n"),
    ('module-docstring', "'module docstring'\n"),
    ('augments-doc', "'module docstring'\n__doc__+=' more'\n"),
    ('assigns-doc', "'module docstring'\n__doc__=__doc__.upper()\n"),
    ('deletes-doc', "'module docstring'\ndel __doc__\n"),
    # the exception name is rebound through the namespace dictionary: invisible to static resolution, which is why nothing may be assumed about
    # names in a module that uses globals() / a star import
    ('shadow-exc-dynamic', "globals()['ValueError']=lambda *a:KeyError(5)\n"),
    ('shadow-exc-dynamic-late', "def rebind_():\n globals()['ValueError']=lambda *a:KeyError(5)\nrebind_()\n"),
]


def indent(text, n):
    return '\n'.join(' ' * n + l for l in text.split('\n'))


def build(pos, names, preamble=''):
    pname, tmpl, _fn = pos
    body = '\n'.join(STMT_D[n][0] for n in names)
    src = tmpl.replace('{B0}', body).replace('{B1}', indent(body, 1)).replace('{B2}', indent(body, 2))
    return preamble + 'import os as os_\nimport types\nns_=types.SimpleNamespace()\n' + src + '\n'


def programs(tier):
    names = [s[0] for s in STATEMENTS]
    for pos in POSITIONS:
        infn = pos[2]
        usable = [n for n in names if infn or not STMT_D[n][1]]
        if 'object' in pos[0]:
            usable = [n for n in usable if n.startswith('class-') or n in ('pass', 'real')]
        if pos[0].startswith('def-') and pos[0].endswith(('-last', 'finally', 'try-else')):
            usable = [n for n in usable if n.startswith('return') or n in ('pass', 'real', 'lit-str', 'raise')]
        for n in usable:
            yield 'stmt:%s:%s' % (pos[0], n), build(pos, [n])
        for a, b in itertools.product(usable, repeat=2):
            if tier == 'quick' and pos[0] not in ('module', 'def', 'class', 'method', 'if', 'except', 'for-else', 'match-case') and not pos[0].startswith('def-'):
                # quick: full pair table in 8 positions, first-statement-only elsewhere
                continue
            yield 'stmt:%s:%s+%s' % (pos[0], a, b), build(pos, [a, b])
    # dataclass / NamedTuple / TypedDict fields and preambles
    for cname, hdr in (('dataclass', 'import dataclasses\n@dataclasses.dataclass\nclass D:\n'), ('dataclass-call', 'import dataclasses\n@dataclasses.dataclass(frozen=True)\nclass D:\n'),
                       ('dataclass-name', 'from dataclasses import dataclass\n@dataclass\nclass D:\n'),
                       ('namedtuple', 'import typing\nclass D(typing.NamedTuple):\n'), ('typeddict', 'from typing import TypedDict\nclass D(TypedDict):\n'),
                       ('dataclass-second', 'import dataclasses,functools\n@functools.total_ordering\n@dataclasses.dataclass\nclass D:\n def __lt__(self,o):return False\n'),
                       ('dataclass-first-of-two', 'import dataclasses\n@dataclasses.dataclass\n@ident\nclass D:\n'),
                       ('namedtuple-second-base', 'import typing\nclass M:pass\nclass D(M,typing.NamedTuple):\n') if False else ('typeddict-total', 'import typing\nclass D(typing.TypedDict,total=False):\n'),
                       ('plain-class', 'class D:\n'), ('enum-like', 'import enum\nclass D(enum.Enum):\n')):
        for body in (' x:int=1\n y:str="s"', ' x:int\n y:str="s"', " 'doc'\n x:int=1", ' x:int=1\n def m(self)->int:\n  z:int=self.x\n  return z',
                     # fields nested in a compound statement of the class body are still fields; a nested plain class in between does not end them
                     ' if flag:\n  x:int=1\n y:str="s"', ' try:\n  x:int=1\n finally:\n  y:str="s"', ' with cm(1):\n  x:int=1\n  w:int\n y:str="s"',
                     ' x:int=1\n class Inner:\n  w:int=3\n y:str="s"', ' class Inner:\n  w:int=3\n  v:int\n x:int=1', ' for i_ in (1,):\n  x:int=1\n else:\n  y:int=2'):
            yield 'stmt:annfield:%s:%s' % (cname, body.replace('\n', ';')), hdr + body + '\nobs(D.__mro__[1:])\nobs(sorted(getattr(D,"__dataclass_fields__",getattr(D,"_fields",())) or getattr(D,"__required_keys__",()) or getattr(D,"__optional_keys__",())))\n'
    for pre_name, pre in PREAMBLES[1:]:
        for pos in POSITIONS[:5]:
            infn = pos[2]
            for n in ('raise', 'raise-from', 'class-object', 'class-base', 'lit-str', 'pass', 'docstring-def', 'real'):
                yield 'stmt:%s:%s:%s' % (pre_name, pos[0], n), build(pos, [n], pre)
