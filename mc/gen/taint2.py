"""Programs for the multi-interpreter part of C09 (run by the portable worker under every installed interpreter, 2.7 included).

The property names "contains an exec statement" explicitly: that form only exists in Python 2, so it can only be reached by running the
minifier under 2.7.  The programs are written in the common subset of 2.7 and 3.x (no print statement; `out()` writes to stdout) except for
the trigger itself; an interpreter that cannot compile a program skips it ("not in that interpreter's language").

Each case is (label, source, control): control is the same program with the trigger statement replaced by a no-op, used to measure that the
renaming switches *would* have changed the program (so the freeze is what is being observed).
"""

HEAD = '''import sys
import os.path
def out(v):
 sys.stdout.write(repr(v)+'\\n')
counter_value='long literal value'
def helper_function(first_argument,second_argument='long literal value'):
 local_variable=first_argument
 other_local=[len(local_variable),len(second_argument),len('long literal value'),None,None,None,None]
 if local_variable is None:
  raise ValueError()
 return (local_variable,other_local,'other literal','other literal','other literal',isinstance(first_argument,str),isinstance(second_argument,str))
'''
TAIL = '''out(helper_function('argument'))
out(helper_function(first_argument='long literal value'))
out(('long literal value',None,None,None,len(counter_value),len(counter_value),isinstance(counter_value,str)))
'''

# trigger statements; {N} is a program name that is visible at the trigger position (so the executed string really looks it up by name)
TRIGGERS = [
    ('exec-stmt', 'exec "out({N})"'),
    ('exec-stmt-paren', 'exec("out({N})")'),                   # an exec *statement* on 2.7, a builtin call on 3.x
    ('exec-stmt-in', 'exec "out(1)" in {{"out":out}}'),
    ('exec-stmt-in2', 'exec "out(1)" in {{"out":out}},{{}}'),
    ('exec-stmt-tuple', 'exec("out(1)",{{"out":out}})'),
    ('eval-call', 'out(eval("{N}"))'),
    ('locals-call', 'out(sorted(k for k in locals() if len(k)<3))'),
    ('globals-call', 'out(sorted(k for k in globals() if len(k)<3))'),
    ('vars-call', 'out(sorted(k for k in vars() if len(k)<3))'),
    ('eval-bare', 'out((eval,0)[1])'),
    ('locals-attr', 'out(locals.__name__)'),
]

# positions: (label, template, name visible there)
POSITIONS = [
    ('module', '{T}\n', 'counter_value'),
    ('module-if', 'if counter_value:\n {T}\n', 'counter_value'),
    ('module-try', 'try:\n {T}\nfinally:\n counter_value=counter_value+""\n', 'counter_value'),
    ('module-for', 'for loop_variable in (1,2):\n {T}\n', 'counter_value'),
    ('def-body', 'def scope_function(parameter_name):\n inner_local=parameter_name\n {T}\n return inner_local\nout(scope_function(1))\n', 'inner_local'),
    ('def-body-param', 'def scope_function(parameter_name,other_parameter=2):\n {T}\n return parameter_name+other_parameter\nout(scope_function(1))\n', 'parameter_name'),
    ('def-if', 'def scope_function(parameter_name):\n inner_local=parameter_name\n if inner_local:\n  {T}\n return inner_local\nout(scope_function(1))\n', 'inner_local'),
    ('def-while-else', 'def scope_function(parameter_name):\n inner_local=parameter_name\n while inner_local<1:\n  inner_local+=1\n else:\n  {T}\n return inner_local\nout(scope_function(1))\n', 'inner_local'),
    ('def-try-except', 'def scope_function(parameter_name):\n inner_local=parameter_name\n try:\n  raise KeyError(inner_local)\n except KeyError as caught_error:\n  {T}\n return inner_local\nout(scope_function(1))\n', 'inner_local'),
    ('def-with', 'def scope_function(parameter_name):\n inner_local=parameter_name\n with open(os.devnull) as managed_file:\n  {T}\n return inner_local\nout(scope_function(1))\n', 'inner_local'),
    ('sibling-def', 'def scope_function(parameter_name):\n {T}\n return parameter_name\ndef sibling_function(sibling_parameter):\n sibling_local=sibling_parameter\n return sibling_local+sibling_local\nout(scope_function(1))\nout(sibling_function(2))\n', 'parameter_name'),
    ('inner-def-no-free', 'def scope_function(parameter_name):\n def nested_function(nested_parameter):\n  nested_local=nested_parameter\n  {T}\n  return nested_local+nested_local\n return nested_function(parameter_name)\nout(scope_function(1))\n', 'nested_local'),
    ('outer-of-closure', 'def scope_function(parameter_name):\n closed_over=parameter_name\n {T}\n def nested_function():\n  return closed_over\n return nested_function()\nout(scope_function(1))\n', 'closed_over'),
    ('class-body', 'class ScopeClass(object):\n class_attribute=1\n {T}\n def method(self,method_argument):\n  method_local=method_argument\n  return method_local+method_local\nout(ScopeClass().method(2))\n', 'class_attribute'),
    ('method-body', 'class ScopeClass(object):\n def method(self,method_argument):\n  method_local=method_argument\n  {T}\n  return method_local+method_local\nout(ScopeClass().method(2))\n', 'method_local'),
    ('after-local-import', 'def scope_function(parameter_name):\n import itertools\n import os.path as local_path\n {T}\n return (parameter_name,itertools.__name__,local_path.__name__)\nout(scope_function(1))\n', 'parameter_name'),
    ('global-decl', 'def scope_function(parameter_name):\n global counter_value\n counter_value=parameter_name\n {T}\n return counter_value\nout(scope_function("x"))\n', 'counter_value'),
    ('last-statement', None, 'counter_value'),
    ('first-statement', None, 'out'),
]


def cases():
    for tname, trig in TRIGGERS:
        for pname, tmpl, visible in POSITIONS:
            t = trig.replace('{N}', visible).replace('{{', '{').replace('}}', '}')
            label = 'taint2:%s:%s' % (tname, pname)
            if pname == 'last-statement':
                src = HEAD + TAIL + t + '\n'
                ctrl = HEAD + TAIL + '0\n'
            elif pname == 'first-statement':
                # the trigger comes right after the helper it needs
                head_lines = HEAD.split('\n')
                first = '\n'.join(head_lines[:4]) + '\n'
                rest = '\n'.join(head_lines[4:])
                src = first + t + '\n' + rest + TAIL
                ctrl = first + '0\n' + rest + TAIL
            else:
                src = HEAD + tmpl.replace('{T}', t) + TAIL
                ctrl = HEAD + tmpl.replace('{T}', '0') + TAIL
            yield label, src, ctrl
