"""Programs for C09: a taint trigger (kind x syntactic form) placed in every scope/slot position of an enriched program.

The enrichment gives the minifier everything it could respell or introduce: long locals, a parameter that would be re-bound, module globals,
repeated str/bytes/None literals, repeated builtins, raise ValueError(), imports.  The trigger actually *looks*: the namespaces and an eval
of a program name are observed, so a leaked alias or a renamed name changes the observation stream.
"""
import itertools

TRIGGER_NAMES = ['exec', 'eval', 'locals', 'globals', 'vars']

# expression forms of a trigger; {T} the builtin name.  Each is an expression usable anywhere.
def trigger_exprs(name):
    look = {
        'exec': ["exec('probe_=1')", "exec"],
        'eval': ["obs(eval('counter_value'))", "eval"],
        'locals': ["obs(sorted(k for k in locals() if len(k)<3))", "locals"],
        'globals': ["obs(sorted(k for k in globals() if len(k)<3 and k!='cm'))", "globals"],
        'vars': ["obs(sorted(k for k in vars() if len(k)<3 and k!='cm'))", "vars"],
    }[name]
    return [('call', look[0]), ('bare', '(%s,0)[1]' % look[1]), ('attr', 'obs(%s.__name__)' % name)]


ENRICH_HEAD = '''import os.path
import collections
counter_value='long literal value'
def helper_function(first_argument,second_argument='long literal value'):
 local_variable=first_argument
 other_local=[len(local_variable),len(second_argument),len('long literal value'),None,None,None,None]
 if local_variable is None:
  raise ValueError()
 return (local_variable,other_local,b'bytes literal',b'bytes literal',b'bytes literal',isinstance(first_argument,str),isinstance(second_argument,str))
'''
ENRICH_TAIL = '''obs(helper_function('argument'))
obs(helper_function(first_argument='long literal value'))
obs(('long literal value',None,None,None,len(counter_value),len(counter_value),isinstance(counter_value,str)))
'''

# positions: (label, template with {E} for the trigger expression).  The template is inserted between head and tail.
POSITIONS = [
    ('module-stmt', '{E}\n'),
    ('module-stmt-first', None),       # handled specially: before the head
    ('def-body', 'def scope_function(parameter_name):\n inner_local=parameter_name\n {E}\n return inner_local\nobs(scope_function(1))\n'),
    ('nested-def', 'def scope_function(parameter_name):\n def nested_function(nested_parameter):\n  nested_local=nested_parameter\n  {E}\n  return nested_local+parameter_name\n return nested_function(parameter_name)\nobs(scope_function(1))\n'),
    ('async-def', 'async def scope_function(parameter_name):\n inner_local=parameter_name\n {E}\n return inner_local\nobs(run(scope_function(1)))\n'),
    ('class-body', 'class ScopeClass:\n class_attribute=1\n {E}\n def method(self,method_argument):\n  method_local=method_argument\n  return method_local\nobs(ScopeClass().method(2))\n'),
    ('method-body', 'class ScopeClass:\n def method(self,method_argument):\n  method_local=method_argument\n  {E}\n  return method_local\nobs(ScopeClass().method(2))\n'),
    ('lambda-body', 'scope_lambda=lambda lambda_argument:({E},lambda_argument)[1]\nobs(scope_lambda(3))\n'),
    ('lambda-in-def', 'def scope_function(parameter_name):\n inner_local=lambda lambda_argument:({E},lambda_argument+parameter_name)[1]\n return inner_local(parameter_name)\nobs(scope_function(1))\n'),
    ('comp-elt', 'def scope_function(parameter_name):\n inner_local=[({E},comp_variable)[1] for comp_variable in range(parameter_name)]\n return inner_local\nobs(scope_function(2))\n'),
    ('comp-iter', 'def scope_function(parameter_name):\n inner_local=[comp_variable for comp_variable in ({E},parameter_name)]\n return inner_local[1:]\nobs(scope_function(2))\n'),
    ('comp-iter2', 'def scope_function(parameter_name):\n inner_local=[comp_variable for other_variable in (0,) for comp_variable in ({E},parameter_name)]\n return inner_local[1:]\nobs(scope_function(2))\n'),
    ('comp-cond', 'def scope_function(parameter_name):\n inner_local=[comp_variable for comp_variable in range(parameter_name) if ({E},1)[1]]\n return inner_local\nobs(scope_function(2))\n'),
    ('genexp-module', 'module_values=list(({E},comp_variable)[1] for comp_variable in range(2))\nobs(module_values)\n'),
    ('decorator', 'def scope_function(parameter_name):\n @deco({E})\n def decorated_function(inner_argument):\n  return inner_argument\n return decorated_function(parameter_name)\nobs(scope_function(1))\n'),
    ('default', 'def scope_function(parameter_name):\n def defaulted_function(inner_argument=({E},5)[1]):\n  return inner_argument\n return defaulted_function()+parameter_name\nobs(scope_function(1))\n'),
    ('class-base', 'def scope_function(parameter_name):\n class LocalClass(base({E})):\n  pass\n return parameter_name\nobs(scope_function(1))\n'),
    ('fstring', "def scope_function(parameter_name):\n inner_local=f'{({E},parameter_name)[1]}'\n return inner_local\nobs(scope_function(1))\n"),
    ('annotation', 'def scope_function(parameter_name):\n def annotated_function(inner_argument:({E},int)[1]=5)->({E},int)[1]:\n  return inner_argument\n return annotated_function()+parameter_name\nobs(scope_function(1))\n'),
    ('ann-arg-only', 'def scope_function(parameter_name):\n def annotated_function(inner_argument:({E},int)[1]=5):\n  return inner_argument\n return annotated_function()+parameter_name\nobs(scope_function(1))\n'),
    ('ann-return-only', 'def scope_function(parameter_name):\n def annotated_function(inner_argument=5)->({E},int)[1]:\n  return inner_argument\n return annotated_function()+parameter_name\nobs(scope_function(1))\n'),
    ('ann-vararg', 'def scope_function(parameter_name):\n def annotated_function(*inner_arguments:({E},int)[1],**inner_keywords:int):\n  return len(inner_arguments)\n return annotated_function()+parameter_name\nobs(scope_function(1))\n'),
    ('ann-kwonly', 'def scope_function(parameter_name):\n def annotated_function(*,inner_argument:({E},int)[1]=5):\n  return inner_argument\n return annotated_function()+parameter_name\nobs(scope_function(1))\n'),
    ('ann-variable', 'module_annotated:({E},int)[1]=1\ndef scope_function(parameter_name):\n inner_local=parameter_name\n return inner_local+inner_local\nobs(scope_function(1))\n'),
    ('ann-class-attr', 'class ScopeClass:\n class_attribute:({E},int)[1]=1\n def method(self,method_argument):\n  method_local=method_argument\n  return method_local+method_local\nobs(ScopeClass().method(2))\n'),
    ('lambda-default', 'def scope_function(parameter_name):\n inner_local=lambda lambda_argument=({E},3)[1]:lambda_argument+parameter_name\n return inner_local()\nobs(scope_function(1))\n'),
    ('kwonly-default', 'def scope_function(parameter_name):\n def defaulted_function(*,inner_argument=({E},5)[1]):\n  return inner_argument\n return defaulted_function()+parameter_name\nobs(scope_function(1))\n'),
    ('class-keyword', 'def scope_function(parameter_name):\n class LocalClass(metaclass=meta({E})):\n  pass\n return parameter_name\nobs(scope_function(1))\n'),
    ('class-decorator', 'def scope_function(parameter_name):\n @deco({E})\n class LocalClass:\n  pass\n return parameter_name\nobs(scope_function(1))\n'),
    ('fstring-spec', "def scope_function(parameter_name):\n inner_local=f'{parameter_name:{({E},2)[1]}}'\n return inner_local\nobs(scope_function(1))\n"),
    ('match-guard', 'def scope_function(parameter_name):\n match parameter_name:\n  case captured_value if ({E},1)[1]:\n   return captured_value\n return 0\nobs(scope_function(1))\n'),
    ('typeparam-bound', 'def scope_function[TypeParam:({E},int)[1]](parameter_name):\n inner_local=parameter_name\n return inner_local+inner_local\nobs(scope_function(1))\n'),
    ('assert-message', 'def scope_function(parameter_name):\n assert parameter_name,({E},"message")[1]\n inner_local=parameter_name\n return inner_local+inner_local\nobs(scope_function(1))\n'),
    ('walrus-value', 'def scope_function(parameter_name):\n if (inner_local:=({E},parameter_name)[1]):\n  return inner_local+inner_local\n return 0\nobs(scope_function(1))\n'),
    ('del-subscript', 'def scope_function(parameter_name):\n inner_local={{1:2,0:3}}\n del inner_local[({E},1)[1]]\n return len(inner_local)+parameter_name\nobs(scope_function(1))\n'.replace('{{','{').replace('}}','}')),
    ('except-type', 'def scope_function(parameter_name):\n try:\n  inner_local=parameter_name\n except (({E},KeyError)[1],) as caught_error:\n  obs(caught_error)\n return inner_local\nobs(scope_function(1))\n'),
    ('after-local-import', 'def scope_function(parameter_name):\n import itertools\n import os.path as local_path\n {E}\n return (parameter_name,itertools.__name__,local_path.__name__)\nobs(scope_function(1))\n'),
    ('try', 'def scope_function(parameter_name):\n try:\n  {E}\n except Exception as caught_error:\n  obs(caught_error)\n finally:\n  inner_local=parameter_name\n return inner_local\nobs(scope_function(1))\n'),
    ('with', 'def scope_function(parameter_name):\n with cm(parameter_name) as managed_value:\n  {E}\n return managed_value\nobs(scope_function(1))\n'),
    ('match', 'def scope_function(parameter_name):\n match parameter_name:\n  case captured_value:\n   {E}\n return captured_value\nobs(scope_function(1))\n'),
    ('global-decl', 'def scope_function(parameter_name):\n global counter_value\n counter_value=parameter_name\n {E}\n return counter_value\nobs(scope_function("x"))\n'),
    # the trigger name itself is declared global in the function (and never assigned by the module): still the builtin
    ('global-trigger-name', 'def scope_function(parameter_name):\n global {G}\n inner_local=parameter_name\n {E}\n return inner_local+inner_local\nobs(scope_function(1))\n'),
    ('global-trigger-name-nested', 'def scope_function(parameter_name):\n global {G}\n def nested_function(nested_parameter):\n  nested_local=nested_parameter\n  {E}\n  return nested_local+nested_local\n return nested_function(parameter_name)\nobs(scope_function(1))\n'),
    ('nonlocal-closure', 'def scope_function(parameter_name):\n closed_over=parameter_name\n def inner_function():\n  nonlocal closed_over\n  closed_over+=1\n  {E}\n  return closed_over\n return inner_function()\nobs(scope_function(1))\n'),
]


def programs():
    """yield (label, source, runnable_safe)"""
    for name in TRIGGER_NAMES:
        for form, expr in trigger_exprs(name):
            for pos, tmpl in POSITIONS:
                label = 'taint:%s:%s:%s' % (name, form, pos)
                if pos == 'module-stmt-first':
                    src = expr + '\n' + ENRICH_HEAD + ENRICH_TAIL
                    if 'counter_value' in expr:
                        continue        # would be a NameError before the definition; not interesting
                else:
                    src = ENRICH_HEAD + tmpl.replace('{E}', expr).replace('{G}', name) + ENRICH_TAIL
                yield label, src
    # a default value that names the builtin and is bound to a parameter of the same name: the default is evaluated in the ENCLOSING scope, so
    # this is a reference to the builtin (the parameter then shadows it inside the function only)
    for name in TRIGGER_NAMES:
        for pos, tmpl in (
                ('default-same-name', 'def scope_function(parameter_name):\n def defaulted_function({G}={G}):\n  inner_local=parameter_name\n  return inner_local+inner_local\n return defaulted_function()\nobs(scope_function(1))\n'),
                ('kwonly-default-same-name', 'def scope_function(parameter_name,*,{G}={G}):\n inner_local=parameter_name\n return inner_local+inner_local\nobs(scope_function(1))\n'),
                ('kwonly-default-same-name-nested', 'def scope_function(parameter_name):\n def defaulted_function(*,{G}={G}):\n  inner_local=parameter_name\n  return inner_local+inner_local\n return defaulted_function()\nobs(scope_function(1))\n'),
                ('lambda-default-same-name', 'def scope_function(parameter_name):\n inner_local=lambda {G}={G}:parameter_name\n return inner_local()\nobs(scope_function(1))\n'),
                ('method-named-like-trigger', 'class ScopeClass:\n def {G}(self,method_argument):\n  method_local=method_argument\n  return method_local\n def other(self,method_argument):\n  method_local={G}\n  return method_argument\nobs(ScopeClass().other(2))\n'),
                ('class-attr-named-like-trigger', 'class ScopeClass:\n {G}=1\n def other(self,method_argument):\n  method_local=({G},method_argument)[1]\n  return method_local+method_local\nobs(ScopeClass().other(2))\n')):
            yield 'taint:%s:samename:%s' % (name, pos), ENRICH_HEAD + tmpl.replace('{G}', name) + ENRICH_TAIL
    # star import (module level only; a star import inside a function is a syntax error)
    for where in ('first', 'middle', 'last'):
        star = 'from os.path import *\n'
        if where == 'first':
            src = star + ENRICH_HEAD + ENRICH_TAIL
        elif where == 'middle':
            src = ENRICH_HEAD + star + ENRICH_TAIL
        else:
            src = ENRICH_HEAD + ENRICH_TAIL + star
        yield 'taint:star-import:%s' % where, src
    for where, src in (('conditional', ENRICH_HEAD + 'if counter_value:\n from os.path import *\n' + ENRICH_TAIL),
                       ('try', ENRICH_HEAD + 'try:\n from os.path import *\nexcept ImportError:\n pass\n' + ENRICH_TAIL)):
        yield 'taint:star-import:%s' % where, src
