"""G_src: token strings (valid and invalid sources) and source encodings."""
import itertools

TOKENS = ['a', '=', '1', '(', ')', ':', '\n', ' ', 'def ', 'pass', "'s'", '\xe9', '#c', '\\', '\0', '\t', '\x0c', '﻿', ',', 'if ', 'lambda', '*', '.', '"""', '1if 1else ', '0in a', "'\xe9\xe9'"]


def token_strings(maxlen, part=0, nparts=1):
    i = 0
    for n in range(0, maxlen + 1):
        for combo in itertools.product(TOKENS, repeat=n):
            i += 1
            if i % nparts != part:
                continue
            yield ''.join(combo)
