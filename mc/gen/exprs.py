"""G_expr / G_stmt: the complete (context, slot, child[, grandchild]) table of the expression and statement grammar.

Everything is text templates with numbered holes {0} {1} ...  A child is inserted bare, parenthesised and doubly
parenthesised; every variant the interpreter's parser accepts is a case (so trees such as `with ((a,b)):` that only
exist through redundant parentheses are reached), deduplicated later by ast.dump of the parsed tree.
"""
import itertools

ATOMS = ['a', '1', '1.', '1j', "'s'", "b's'", 'None', '...', 'True', '-1']
FILL = ['a', 'b', 'c', 'd']           # default fillers for the holes that are not being varied

# name -> template.  Holes are expression positions.
EXPR = [
    # binary operators, one per precedence level (+ both members where associativity/spacing differs)
    ('Add', '{0}+{1}'), ('Sub', '{0}-{1}'), ('Mult', '{0}*{1}'), ('Div', '{0}/{1}'), ('FloorDiv', '{0}//{1}'),
    ('Mod', '{0}%{1}'), ('MatMult', '{0}@{1}'), ('Pow', '{0}**{1}'), ('LShift', '{0}<<{1}'), ('RShift', '{0}>>{1}'),
    ('BitOr', '{0}|{1}'), ('BitXor', '{0}^{1}'), ('BitAnd', '{0}&{1}'),
    ('UAdd', '+{0}'), ('USub', '-{0}'), ('Invert', '~{0}'), ('Not', 'not {0}'),
    ('And', '{0} and {1}'), ('Or', '{0} or {1}'), ('And3', '{0} and {1} and {2}'),
    ('Lt', '{0}<{1}'), ('Eq', '{0}=={1}'), ('In', '{0} in {1}'), ('NotIn', '{0} not in {1}'), ('Is', '{0} is {1}'),
    ('IsNot', '{0} is not {1}'), ('Chain', '{0}<{1}!={2}'),
    ('IfExp', '{0} if {1} else {2}'),
    ('Lambda', 'lambda:{0}'), ('LambdaDef', 'lambda x={0}:{1}'), ('LambdaKw', 'lambda *,k={0}:{1}'),
    ('LambdaAll', 'lambda p,/,x,*y,z,**k:{0}'),
    ('NamedExpr', 'x:={0}'),
    ('Yield', 'yield {0}'), ('Yield0', 'yield'), ('YieldFrom', 'yield from {0}'), ('Await', 'await {0}'),
    ('Tuple0', '()'), ('Tuple1', '{0},'), ('Tuple2', '{0},{1}'), ('TupleStar', '*{0},{1}'), ('TupleStar1', '*{0},'),
    ('List', '[{0},{1}]'), ('List1', '[{0}]'), ('ListStar', '[*{0}]'), ('Set', '{{{0},{1}}}'), ('SetStar', '{{*{0}}}'),
    ('Dict', '{{{0}:{1}}}'), ('Dict2', '{{{0}:{1},{2}:{3}}}'), ('DictStar', '{{**{0}}}'), ('Dict0', '{{}}'),
    ('ListComp', '[{0} for x in {1}]'), ('ListCompIf', '[{0} for x in {1} if {2}]'),
    ('ListComp2', '[{0} for x in {1} if {2} if {3} for y in {4}]'),
    ('SetComp', '{{{0} for x in {1}}}'), ('DictComp', '{{{0}:{1} for x in {2}}}'),
    ('GenExp', '({0} for x in {1})'), ('GenExpIf', '({0} for x,y in {1} if {2})'),
    ('AsyncComp', '[{0} async for x in {1}]'),
    ('Attribute', '{0}.b'), ('Subscript', '{0}[{1}]'), ('Slice', '{0}[{1}:{2}]'), ('Slice3', '{0}[{1}:{2}:{3}]'),
    ('Slice0', '{0}[:]'), ('SliceLo', '{0}[{1}:]'), ('SliceHi', '{0}[:{1}]'), ('SliceStep', '{0}[::{1}]'),
    ('ExtSlice', '{0}[{1}:{2},{3}]'), ('ExtSlice1', '{0}[{1}:{2},]'), ('SubTuple', '{0}[{1},{2}]'),
    ('SubTuple1', '{0}[{1},]'), ('SubStar', '{0}[*{1}]'), ('SubStar2', '{0}[*{1},{2}]'),
    ('Call0', '{0}()'), ('Call', '{0}({1})'), ('Call2', '{0}({1},{2})'), ('CallKw', '{0}(k={1})'),
    ('CallStar', '{0}(*{1})'), ('CallDStar', '{0}(**{1})'), ('CallMix', '{0}({1},*{2},k={3},**{4})'),
    ('CallGen', '{0}({1} for x in {2})'), ('CallGen2', '{0}(({1} for x in {2}),{3})'),
    ('FStr', "f'{{{0}}}'"), ('FStrConv', "f'{{{0}!r}}'"), ('FStrSpec', "f'{{{0}:{{{1}}}}}'"),
    ('FStrText', "f'a{{{0}}}b{{{1}}}'"), ('FStrDebug', "f'{{{0}=}}'"), ('FStrSpecLit', "f'{{{0}:>4}}'"),
    ('StrCat', "'a' 'b'"), ('FStrCat', "'a' f'{{{0}}}'"),
    # the field starts with whatever the leftmost leaf of these expressions prints: a leading '{' (dict/set display or comprehension, reachable only
    # through the parenthesised child variant) must be separated from the field's own brace
    ('FStrSub', "f'{{{0}[a]}}'"), ('FStrAttr', "f'{{{0}.a}}'"), ('FStrCallee', "f'{{{0}(a)}}'"), ('FStrBinL', "f'{{{0}+a}}'"), ('FStrCmpL', "f'{{{0}<a}}'"),
    ('FStrBoolL', "f'{{{0} or a}}'"), ('FStrIfL', "f'{{{0} if a else b}}'"), ('FStrTupleL', "f'{{{0},a}}'"), ('FStrSubSub', "f'{{{0}[a][b].c(d)}}'"),
    ('FStrAwaitL', "f'{{await {0}}}'"), ('FStrStarL', "f'{{*{0},}}'"), ('FStrConvL', "f'{{{0}!r:>{{a}}}}'"), ('FStrLambda', "f'{{(lambda:{0})}}'"),
    ('FStrNested', "f'{{f\"{{{0}}}\"}}'"), ('FStrNestedSub', "f'{{f\"{{{0}[a]}}\"}}'"),
]
EXPR_D = dict(EXPR)

# statement contexts.  Holes are expression positions; every template is a complete module.
STMT = [
    ('Expr', '{0}'), ('Assign', 'x={0}'), ('Assign2', 'x=y={0}'), ('AssignT', '{0}={1}'), ('AssignTT', 'x,y={0}'),
    ('AssignSub', 'a[{0}]={1}'), ('AssignAttr', '{0}.b={1}'),
    ('AugAssign', 'x+={0}'), ('AugAssignT', 'a.b**={0}'), ('AugSub', 'a[{0}]@={1}'),
    ('AnnAssign', 'x:{0}={1}'), ('AnnOnly', 'x:{0}'), ('AnnParen', '(x):{0}={1}'), ('AnnAttr', 'a.b:{0}={1}'),
    ('AnnSub', 'a[{0}]:{1}'),
    ('Return', 'def f():\n return {0}'), ('Return0', 'def f():\n return'),
    ('Del', 'del a.b,c[{0}]'), ('DelT', 'del (a,b),[c]'), ('Assert', 'assert {0}'), ('Assert2', 'assert {0},{1}'),
    ('Raise', 'raise {0}'), ('RaiseFrom', 'raise {0} from {1}'), ('Raise0', 'raise'),
    ('If', 'if {0}:pass'), ('IfElse', 'if {0}:pass\nelif {1}:pass\nelse:pass'), ('IfNested', 'if {0}:\n if {1}:pass\nelse:pass'),
    ('While', 'while {0}:pass'), ('WhileElse', 'while {0}:break\nelse:continue'),
    ('For', 'for x in {0}:pass'), ('ForT', 'for x,y in {0}:pass'), ('ForTarget', 'for {0} in {1}:pass'),
    ('ForElse', 'for x in {0}:pass\nelse:pass'),
    ('With', 'with {0}:pass'), ('WithAs', 'with {0} as x:pass'), ('With2', 'with {0},{1}:pass'),
    ('WithAs2', 'with {0} as x,{1} as y:pass'), ('WithAsT', 'with {0} as (x,y):pass'), ('WithAsTarget', 'with a as {0}:pass'),
    ('WithParen', 'with ({0} as x,{1}):pass'),
    ('DefDefault', 'def f(x={0}):pass'), ('DefKwDefault', 'def f(*,x={0}):pass'), ('DefPosOnly', 'def f(p={0},/,q={1}):pass'),
    ('DefAnn', 'def f(x:{0},*a:{1},**k:{2})->{3}:pass'), ('Decorator', '@{0}\ndef f():pass'),
    ('Decorator2', '@{0}\n@{1}\nclass C:pass'),
    ('ClassBase', 'class C({0}):pass'), ('ClassBase2', 'class C({0},{1}):pass'), ('ClassKw', 'class C(k={0}):pass'),
    ('ClassStar', 'class C(*{0}):pass'), ('ClassDStar', 'class C(**{0}):pass'),
    ('Try', 'try:pass\nexcept {0}:pass'), ('TryAs', 'try:pass\nexcept {0} as e:pass\nelse:pass\nfinally:pass'),
    ('TryStar', 'try:pass\nexcept* {0}:pass'), ('TryFinally', 'try:{0}\nfinally:{1}'),
    ('Match', 'match {0}:\n case _:pass'), ('MatchGuard', 'match x:\n case _ if {0}:pass'),
    ('MatchT', 'match {0},{1}:\n case _:pass'),
    ('AsyncFor', 'async def f():\n async for x in {0}:pass'), ('AsyncWith', 'async def f():\n async with {0} as y,{1}:pass'),
    ('AsyncBody', 'async def f():\n x={0}'),
    ('TypeAlias', 'type X={0}'), ('TypeAliasP', 'type X[T:{0}]={1}'), ('DefTypeParam', 'def f[T:{0},*U,**V]():pass'),
    ('ClassTypeParam', 'class C[T:{0}]:pass'), ('TypeParamDefault', 'def f[T={0},*U={1},**V={2}]():pass'),
    ('ExprYieldCtx', 'def f():\n {0}'), ('AssignYieldCtx', 'def f():\n x={0}'), ('AugYieldCtx', 'def f():\n x+={0}'),
    ('AnnYieldCtx', 'def f():\n x:{0}={1}'),
    ('TwoStmts', '{0};{1}'),
    ('IfAfterSimple', 'def f():\n y={0}\n if y:pass'), ('ForAfterSimple', 'def f():\n y={0}\n for z in y:pass'), ('WhileAfterSimple', 'def f():\n y={0}\n while y:pass'),
    ('TryAfterSimple', 'def f():\n y={0}\n try:pass\n finally:pass'), ('WithAfterSimple', 'def f():\n y={0}\n with y:pass'),
    ('DefAfterSimple', 'def f():\n y={0}\n def g():pass'), ('ClassAfterSimple', 'def f():\n y={0}\n class G:pass'),
    ('MatchAfterSimple', 'def f():\n y={0}\n match y:\n  case _:pass'), ('TryStarAfterSimple', 'def f():\n y={0}\n try:pass\n except* E:pass'),
    ('AsyncAfterSimple', 'async def f():\n y={0}\n async with y:pass\n async for z in y:pass'),
    ('MatchInIf', 'if a:\n y={0}\n match y:\n  case 1:pass\n  case _:z=1'), ('MatchInClass', 'class C:\n y={0}\n match y:\n  case _:pass'),
    ('SimpleAfterMatch', 'def f():\n match {0}:\n  case _:pass\n y=1'), ('ClassBody', 'class C:\n x={0}\n def f(self):return {1}'),
]
STMT_D = dict(STMT)

# patterns (match statement) are a separate small grammar: each is a full case pattern
PATTERNS = [
    '1', '-1', '1+2j', '-1-2j', '1.', "'s'", "b's'", "'a' 'b'", 'None', 'True', 'a.b', 'a.b.c', 'x', '_', '*x', '*_',
    '[x]', '[x,y]', '(x,)', '(x,y)', 'x,', 'x,y', '[]', '()', '[*x]', '[x,*_]', '*x,y',
    '{}', '{1:x}', "{'a':x,**r}", '{**r}', '{a.b:1}', '{-1:x}', 'C()', 'C(x)', 'C(x,y)', 'C(k=x)', 'C(x,k=y)', 'a.C(x)',
    '1|2', '1|2|3', '(1|2) as x', '1 as x', '[1 as x]', 'C() as x',
    '[1|2]', '(1|2),3', '[(1|2) as x]', '{1:(2|3)}', 'C(k=1|2)', '(1),', '((x))', '[[x]]', '[(x,y)]', '(x,y),z',
    '[x] as y', '(x,y) as z', '[1]|[2]', 'None|True', '{1:_}|{2:_}',
]


def count_holes(t):
    n = 0
    while '{%d}' % n in t:
        n += 1
    return n


def variants(txt):
    return (txt, '(' + txt + ')', '((' + txt + '))')


def fill(template, mapping):
    """mapping: hole index -> text ; the remaining holes get the default fillers"""
    n = count_holes(template)
    args = [mapping.get(i, FILL[i % len(FILL)]) for i in range(n)]
    return template.format(*args)


def child_texts(depth_kinds=None):
    """every child expression: atoms plus each EXPR kind with filler children -> list of (name, text)"""
    out = [('atom:' + a, a) for a in ATOMS]
    for name, t in EXPR:
        out.append((name, fill(t, {})))
    return out


def depth2_cases():
    """(context name, slot, child name) x paren variants; contexts are every STMT and every EXPR placed in `x=...`
    style statement slots.  Yields (label, source)."""
    kids = child_texts()
    # statement contexts
    for sname, st in STMT:
        for slot in range(count_holes(st)):
            for cname, ctext in kids:
                for v, txt in enumerate(variants(ctext)):
                    yield ('%s[%d]<-%s/p%d' % (sname, slot, cname, v), fill(st, {slot: txt}))
        if count_holes(st) == 0:
            yield (sname, st)
    # expression contexts (parent expression in a neutral statement; Yield/Await parents get a function context)
    for pname, pt in EXPR:
        for slot in range(count_holes(pt)):
            for cname, ctext in kids:
                for v, txt in enumerate(variants(ctext)):
                    e = fill(pt, {slot: txt})
                    for w, etxt in enumerate(variants(e)[:2]):
                        yield ('%s[%d]<-%s/p%d%d' % (pname, slot, cname, v, w), 'async def f():\n x=%s' % etxt)
                    yield ('%s[%d]<-%s/p%ds' % (pname, slot, cname, v), 'async def f():\n %s' % e)


# parents whose printing depends on the precedence/kind of the child (used for the depth-3 table)
SENSITIVE = ['Add', 'Sub', 'Mult', 'Pow', 'MatMult', 'LShift', 'BitOr', 'BitAnd', 'UAdd', 'USub', 'Not', 'And', 'Or', 'Lt', 'In', 'Is',
             'Chain', 'IfExp', 'Lambda', 'LambdaDef', 'NamedExpr', 'Yield', 'YieldFrom', 'Await', 'Tuple1', 'Tuple2',
             'TupleStar', 'ListStar', 'DictStar', 'Dict', 'ListCompIf', 'GenExp', 'DictComp', 'Attribute', 'Subscript',
             'Slice', 'SubTuple', 'SubStar', 'Call', 'CallKw', 'CallStar', 'CallDStar', 'CallGen', 'FStr', 'FStrSpec']
SENS_STMT = ['Expr', 'Assign', 'AssignT', 'AugAssign', 'AnnAssign', 'Return', 'Assert2', 'RaiseFrom', 'If', 'For', 'ForTarget',
             'With', 'WithAs', 'With2', 'DefDefault', 'Decorator', 'ClassBase', 'Try', 'Match', 'MatchGuard', 'Del',
             'ExprYieldCtx', 'AssignYieldCtx', 'AugYieldCtx', 'TypeAlias', 'AssignSub', 'AsyncFor', 'AsyncWith']


def depth3_cases(part, nparts):
    """(context, slot, child in SENSITIVE, slot2, grandchild) with paren variants on both levels."""
    kids = child_texts()
    ctxs = [(n, STMT_D[n], False) for n in SENS_STMT] + [(n, EXPR_D[n], True) for n in SENSITIVE]
    i = 0
    for xname, xt, is_expr in ctxs:
        for slot in range(count_holes(xt)):
            for mname in SENSITIVE:
                mt = EXPR_D[mname]
                i += 1
                if i % nparts != part:
                    continue
                for slot2 in range(count_holes(mt)):
                    for gname, gtext in kids:
                        for v2, g in enumerate(variants(gtext)[:2]):
                            m = fill(mt, {slot2: g})
                            for v1, mtxt in enumerate(variants(m)[:2]):
                                src = fill(xt, {slot: mtxt})
                                if is_expr:
                                    src = 'async def f():\n x=' + src
                                yield ('%s[%d]<-%s[%d]<-%s/p%d%d' % (xname, slot, mname, slot2, gname, v1, v2), src)


def pattern_cases():
    for p in PATTERNS:
        yield ('pattern:' + p, 'match x:\n case %s:pass' % p)
        yield ('pattern-guard:' + p, 'match x:\n case %s if a:pass' % p)
    # nested one level: each pattern inside each container position
    for outer in ['[{0}]', '[{0},y]', '{{1:{0}}}', 'C({0})', 'C(k={0})', '({0})|2' , '2|({0})', '({0}) as z', '[{0}] as z', '{0},']:
        for p in PATTERNS:
            for v in variants(p)[:2]:
                yield ('pattern:%s<-%s' % (outer, p), 'match x:\n case %s:pass' % outer.format(v))
