"""G_str: every string over the character classes the quoting code distinguishes, in every literal placement."""
import itertools

# one representative per class the quoting / escaping code branches on
CLASSES = ["'", '"', '\\', '\n', '\r', '\0', '{', '}', 'a', ' ', '#', '\xe9', '\U0001f600', '\udc80', '1']       # '1': a digit after an escape (\0 + 1 is \01)
# reduced alphabet used where the placement multiplies the space (thorough tier uses CLASSES everywhere)
CORE = ["'", '"', '\\', '\n', '{', '}', 'a', '\0', '1']
BCLASSES = [b"'", b'"', b'\\', b'\n', b'\r', b'\0', b'{', b'}', b'a', b' ', b'#', b'\xe9', b'\xff', b'1']
BCORE = [b"'", b'"', b'\\', b'\n', b'{', b'a', b'\0', b'1']


def all_strings(alphabet, maxlen):
    yield alphabet[0][:0]
    for n in range(1, maxlen + 1):
        for t in itertools.product(alphabet, repeat=n):
            yield alphabet[0][:0].join(t)


def esc_ftext(s, quote="'"):
    """escape s for use as literal text of an f-string delimited by `quote` (independent of the code under test)"""
    out = []
    for c in s:
        if c == '\\':
            out.append('\\\\')
        elif c == quote:
            out.append('\\' + c)
        elif c == '\n':
            out.append('\\n')
        elif c == '\r':
            out.append('\\r')
        elif c == '\0':
            out.append('\\x00')
        elif c == '{':
            out.append('{{')
        elif c == '}':
            out.append('}}')
        elif 0xd800 <= ord(c) <= 0xdfff:
            out.append('\\u%04x' % ord(c))
        else:
            out.append(c)
    return ''.join(out)


def lit(s):
    """source literal for a str (escaping surrogates so the source itself is encodable)"""
    r = repr(s)
    return ''.join('\\u%04x' % ord(c) if 0xd800 <= ord(c) <= 0xdfff else c for c in r)


# placements: name -> function(str s) -> source, or None when not applicable
def _spec_ok(s):
    return not any(c in s for c in '{}\n\r\0\\\'"')


STR_PLACEMENTS = [
    ('plain', lambda s: 'x=' + lit(s)),
    ('expr-stmt', lambda s: 'a\n' + lit(s)),
    ('docstring', lambda s: lit(s) + '\na'),
    ('after-kw', lambda s: 'def f():\n return ' + lit(s)),
    ('concat-f', lambda s: 'x=' + lit(s) + " f'{a}'"),
    ('ftext-before', lambda s: "x=f'" + esc_ftext(s) + "{a}'"),
    ('ftext-after', lambda s: "x=f'{a}" + esc_ftext(s) + "'"),
    ('ftext-between', lambda s: "x=f'{a}" + esc_ftext(s) + "{b}'"),
    ('ftext-dq', lambda s: 'x=f"' + esc_ftext(s, '"') + '{a}"'),
    ('field-str', lambda s: "x=f'{" + lit(s) + "}'"),
    ('field-str-conv', lambda s: "x=f'{" + lit(s) + "!r:>9}'"),
    ('field-subscript', lambda s: "x=f'{a[" + lit(s) + "]}'"),
    ('field-call', lambda s: "x=f'{a(" + lit(s) + ',' + lit(s) + ")}'"),
    ('field-dict', lambda s: "x=f'{ {" + lit(s) + ":1}}'"),
    ('field-compare', lambda s: "x=f'{a==" + lit(s) + "}'"),
    ('field-in', lambda s: "x=f'{a in " + lit(s) + "}'"),
    ('field-ifelse', lambda s: "x=f'{" + lit(s) + ' if ' + lit(s) + ' else ' + lit(s) + "}'"),
    ('spec-nested-str', lambda s: "x=f'{a:{" + lit(s) + "}}'"),
    ('nested2', lambda s: "x=f'{f\"{" + lit(s) + "}\"}'"),
    ('nested3', lambda s: "x=f'{f\"{f\"\"\"{" + lit(s) + "}\"\"\"}\"}'"),
    ('nested2-text', lambda s: "x=f'{f\"" + esc_ftext(s, '"') + "{a}\"}'"),
    ('debug-text', lambda s: "x=f'" + esc_ftext(s) + "{a=}'"),
    ('debug-text-after', lambda s: "x=f'{a = }" + esc_ftext(s) + "'"),
    ('eq-text', lambda s: "x=f'" + esc_ftext(s) + "={a}'"),
    ('eq-text-conv', lambda s: "x=f'" + esc_ftext(s) + "a={a!r}'"),
]
BYTES_PLACEMENTS = [
    ('bytes', lambda b: 'x=' + repr(b)),
    ('bytes-after-kw', lambda b: 'def f():\n return ' + repr(b)),
    ('field-bytes', lambda b: "x=f'{" + repr(b) + "}'"),
    ('field-bytes-sub', lambda b: "x=f'{a[" + repr(b) + "]}'"),
    ('field-bytes-in', lambda b: "x=f'{a in " + repr(b) + "}'"),
    ('field-bytes-ifelse', lambda b: "x=f'{" + repr(b) + ' if ' + repr(b) + ' else ' + repr(b) + "}'"),
    ('field-bytes-not', lambda b: "x=f'{not " + repr(b) + "}'"),
    ('nested2-bytes', lambda b: "x=f'{f\"{" + repr(b) + "}\"}'"),
]

HEAVY = set(['field-in', 'field-ifelse', 'field-bytes-in', 'field-bytes-ifelse', 'field-bytes-not', 'field-call', 'nested3', 'nested2', 'spec-nested-str', 'field-dict', 'field-compare', 'field-str-conv', 'nested2-text',
             'debug-text-after', 'eq-text-conv', 'ftext-between', 'concat-f', 'nested2-bytes', 'field-bytes-sub'])


def cases(tier, part, nparts):
    """yield (label, source).  quick: full CLASSES to length 3 in light placements and CORE to length 3 in heavy ones
    (+ CORE length 4 in the quoting-critical placements); thorough: CLASSES to length 4 everywhere light, CORE length 5
    critical, CLASSES length 3 heavy."""
    if tier == 'quick':
        plan = [(CLASSES, 3, lambda n: n not in HEAVY), (CORE, 3, lambda n: n in HEAVY),
                (CORE, 4, lambda n: n in ('plain', 'field-str', 'ftext-before', 'field-subscript'))]
        bplan = [(BCLASSES, 3, lambda n: n not in HEAVY), (BCORE, 3, lambda n: n in HEAVY), (BCORE, 4, lambda n: n == 'field-bytes')]
    else:
        plan = [(CLASSES, 4, lambda n: n not in HEAVY), (CLASSES, 3, lambda n: n in HEAVY), (CORE, 4, lambda n: n in HEAVY),
                (CORE, 5, lambda n: n in ('plain', 'field-str', 'ftext-before', 'field-subscript', 'nested2'))]
        bplan = [(BCLASSES, 4, lambda n: n not in HEAVY), (BCLASSES, 3, lambda n: n in HEAVY), (BCORE, 5, lambda n: n == 'field-bytes')]
    i = 0
    for alphabet, maxlen, sel in plan:
        for s in all_strings(alphabet, maxlen):
            i += 1
            if i % nparts != part:
                continue
            for name, fn in STR_PLACEMENTS:
                if sel(name):
                    yield ('str:%s:%r' % (name, s), fn(s))
    for alphabet, maxlen, sel in bplan:
        for b in all_strings(alphabet, maxlen):
            i += 1
            if i % nparts != part:
                continue
            for name, fn in BYTES_PLACEMENTS:
                if sel(name):
                    yield ('bytes:%s:%r' % (name, b), fn(b))
