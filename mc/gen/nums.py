"""Numeric literal spellings (every class the number printer distinguishes) x syntactic contexts where spacing or
parenthesisation depends on the literal."""

INTS = ['0', '1', '9', '10', '15', '16', '255', '256', '4095', '4096', '65535', '65536', '99999', '100000', '999999', '1000000',
        '1048575', '1048576', '4294967295', '4294967296', '10000000000', '1099511627775', '1099511627776',
        '9223372036854775807', '9223372036854775808', '18446744073709551616', '100000000000000000000',
        '0xff', '0xFFFFFFFFFF', '0o777', '0b1011', '1_000_000', '0x' + 'f' * 40, '1' + '0' * 40, '9' * 41,
        '1' + '0' * 4299, '0x' + 'f' * 3570, '0x' + 'f' * 3571, '0x' + 'f' * 3600, '0x' + 'f' * 4000, '0o' + '7' * 5000, '0b' + '1' * 15000,
        '0x1' + '0' * 4300]
FLOATS = ['0.0', '0.', '.0', '1.0', '1.', '.5', '0.5', '1.5', '10.0', '100.0', '1000.0', '1e3', '1e5', '100000.0', '1000000.0', '123456789.0',
          '1200.0', '1e16', '1e15', '1e22', '1e23', '1.5e300', '1e308', '1e309', '1e999', '5e-324', '1e-400', '1e-5', '1e-7', '0.0001',
          '0.00001', '0.1', '3.14159', '12345678901234567890.0', '1.7976931348623157e308', '2.2250738585072014e-308', '1E5', '1_0.0_1',
          '120000000000000000000000.0', '1.0e-10', '12345678901234568.0', '1.2345678901234568e16', '98765432109876544.0', '10000000000000002.0',
          '1.5e16', '15e15', '1.25e17', '123456789012345680.0', '9007199254740993.0', '4503599627370497.5', '1e15', '123456789012345.6']
IMAGS = ['0j', '1j', '1.5j', '.5j', '1e999j', '1e22j', '100j', '1e5j', '1e-7j', '0.0j', '10J', '1_0j', '5e-324j', '1e-400j', '123456789j']

CONTEXTS = [
    'x={0}', 'x=-{0}', 'x=+{0}', 'x=~{0}', 'x=not {0}', 'x=- -{0}', 'x=-(-{0})', 'x={0}.real', 'x=({0}).real', 'x=(-{0}).real',
    'x={0} .real', 'x={0}if a else {0}', 'x=a if {0}else{0}', 'x=a[{0}:{0}:{0}]', 'x=a[{0}]', 'x={0}in a', 'x=a in{0}',
    'x={0}or a', 'x=a or{0}', 'x={0}and{0}', 'x=[{0}for a in b]', 'x=[a for a in{0}]', 'x=[a for a in b if{0}]', 'x={0}is{0}',
    'x={0}is not{0}', 'x=lambda:{0}', 'x=lambda a={0}:{0}', "x=f'{{{0}}}'", "x=f'{{a:{{{0}}}}}'", "x=f'{{{0}!r}}'", "x=f'{{-{0}}}'",
    'x={0}**{0}', 'x=-{0}**-{0}', 'x=(-{0})**2', 'x=2**-{0}', 'x={0}+{0}j', 'x={0}-{0}', 'x=a-(-{0})', 'x={0}<{0}', 'x={0},',
    'x={{{0}:{0}}}', 'x={{{0}}}', 'x=a({0})', 'x=a(k={0})', 'x=a(*{0})', 'return {0}', 'yield {0}', 'assert {0},{0}', 'del a[{0}]',
    'raise a from{0}', 'for a in{0}:pass', 'while{0}:pass', 'if{0}:pass\nelif{0}:pass', 'with{0}as a:pass', 'x:{0}={0}',
    'match{0}:\n case{0}:pass', 'match a:\n case -{0}:pass', 'match a:\n case{0}|{0}:pass', 'match a:\n case[{0},{0}]:pass',
    'match a:\n case{{{0}:{0}}}:pass', 'match a:\n case _ if{0}:pass', 'match a:\n case C(k={0}):pass', 'x={0}@{0}', 'x=a<{0}>{0}',
    'x={0}//{0}', 'x={0}<<{0}', 'print({0}if{0}else{0})', 'x={0}if{0}else{0}', 'type X={0}', 'x=await{0}', 'import a\nx={0}',
]


def cases():
    for kind, lits in (('int', INTS), ('float', FLOATS), ('imag', IMAGS)):
        for l in lits:
            for c in CONTEXTS:
                src = c.format(l)
                if src.startswith(('return', 'yield', 'x=await')):
                    src = 'async def f():\n ' + src
                yield ('num:%s:%s:%s' % (kind, l if len(l) < 30 else l[:12] + '..len%d' % len(l), c), src)
        # complex pattern literals and negative forms
        for l in lits:
            for m in IMAGS[:6]:
                yield ('num:%s:pat-complex' % kind, 'match a:\n case %s+%s:pass' % (l, m))
                yield ('num:%s:pat-complex-neg' % kind, 'match a:\n case -%s-%s:pass' % (l, m))
