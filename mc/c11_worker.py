"""Subprocess workers for C11.

  history <json>   execute one call history in this (fresh) process; print per-call result digests, argument equality and state digests
  seeds            minify the G_feat corpus under the current PYTHONHASHSEED and print output digests
"""
import copy
import hashlib
import json
import sys
import types

sys.setrecursionlimit(5000)

import python_minifier
import python_minifier.f_string  # noqa: F401  (imported lazily by the printer; pre-imported so that the state digest has a fixed module set)
from python_minifier import RemoveAnnotationsOptions

SRC = {
    'rename': "def handler(event_argument, context_argument):\n    local_value = event_argument\n    zzz = local_value + local_value\n    return zzz + zzz + local_value\nkeep_me = handler(1, 2)\nother_global = keep_me + keep_me\nprint(other_global, other_global)\n",
    'typeparam': "def first[TypeParameter](items: list[TypeParameter]) -> TypeParameter:\n    zzz = items\n    local_value = zzz[0]\n    return local_value or zzz or local_value\nclass Box[OtherParameter]:\n    pass\nprint(first([1]))\n",
    'all': "__all__ = ['exported_name', 'second_export']\ndef exported_name():\n    return 1\ndef second_export():\n    return exported_name() + exported_name()\ndef private_helper():\n    return second_export() + second_export()\nprint(private_helper(), private_helper())\n",
    'ann': "import typing\nvalue: int = 1\nclass K:\n    attribute: int = 2\n    other: str\ndef f(a: int, *b: str, c: float = 1.0) -> typing.List[int]:\n    local: int = a\n    return [local, local]\nprint(f(1), K.attribute, value)\n",
    'fstring': "name = 'world'\nwidth = 10\nprint(f'hello {name!r:>{width}} {\"quoted\"} {name=}')\nprint(f\"{'nested ' f'{name}'}\")\n",
    'hoist': "def many():\n    return ['long literal one', 'long literal one', 'long literal two', 'long literal two', b'bytes literal', b'bytes literal', None, None, None, None, True, True, True, True]\n" + ''.join("def f%d(a%d):\n    b%d = a%d\n    return b%d + b%d + a%d\n" % ((i,) * 7) for i in range(60)) + "print(many())\n",
    'syntaxerror': "def (:\n",
    'midfail': "x = f'{a:{{a:b}}}'\n",
    'fold': "SECONDS = 60 * 60 * 24\nMASK = 0xFF << 8 | 0x0F\nprint(SECONDS, MASK, 1 + 2.0, 5 % 3)\n",
    # the same values with the other numeric type, and the same literal text as bytes: anything memoised by value alone collides
    'hints': "import typing\ndef check(value: int, other: str = 'x') -> bool:\n    local_value: int = value\n    return typing.get_type_hints(check) and check.__annotations__ and local_value\nprint(check(1))\n",
    'deep': "x = " + "+".join(["a"] * 120) + "\n",
    'fold2': "SECONDS = 43200.0 * 2\nMASK = 65295.0 + 0\nprint(SECONDS, MASK, 1 + 2, 5.0 % 3, 0.0 * -1, True + True)\n",
    # exit paths of minify(): the early return that puts the shebang back, with sources the parser rejects or that sit at interpreter-wide limits
    'shebang': "#!/usr/bin/env python\nimport os\nprint(os.sep, 'some literal', 'some literal')\n",
    'shebang+hugeint': "#!/usr/bin/env python\nbig_value = 1" + "0" * 5000 + "\nprint(big_value > 0)\n",
    'hugehex': "MASK = 0x" + "f" * 4000 + " + 0x" + "f" * 4000 + "\nprint(MASK > 0)\n",
    'hoist2': "def many():\n    return [b'long literal one', b'long literal one', b'long literal one', 'bytes literal', 'bytes literal', 'bytes literal', 1, 1, 1, 1, 0, 0, 0, 0, 1.0, 1.0, 1.0, 1.0]\nprint(many())\n",
}


def make_shared():
    return {'L1': ['zzz'], 'G1': ['keep_me'], 'RA': RemoveAnnotationsOptions(remove_variable_annotations=True, remove_return_annotations=False,
                                                                              remove_argument_annotations=True, remove_class_attribute_annotations=True)}


CALLS = {
    'rename+L1': lambda sh: python_minifier.minify(SRC['rename'], preserve_locals=sh['L1']),
    'typeparam+L1': lambda sh: python_minifier.minify(SRC['typeparam'], preserve_locals=sh['L1']),
    'all+G1': lambda sh: python_minifier.minify(SRC['all'], rename_globals=True, preserve_globals=sh['G1']),
    'rename+G1': lambda sh: python_minifier.minify(SRC['rename'], rename_globals=True, preserve_globals=sh['G1']),
    'typeparam+G1': lambda sh: python_minifier.minify(SRC['typeparam'], rename_globals=True, preserve_globals=sh['G1']),
    'ann+RA': lambda sh: python_minifier.minify(SRC['ann'], remove_annotations=sh['RA']),
    'ann-default': lambda sh: python_minifier.minify(SRC['ann']),
    'fstring': lambda sh: python_minifier.minify(SRC['fstring']),
    'hoist': lambda sh: python_minifier.minify(SRC['hoist'], rename_globals=True),
    'fold': lambda sh: python_minifier.minify(SRC['fold']),
    'fold2': lambda sh: python_minifier.minify(SRC['fold2']),
    'hints': lambda sh: python_minifier.minify(SRC['hints']),
    'hints+RA': lambda sh: python_minifier.minify(SRC['hints'], remove_annotations=sh['RA']),
    'deep': lambda sh: python_minifier.minify(SRC['deep']),
    'hoist2': lambda sh: python_minifier.minify(SRC['hoist2'], rename_globals=True),
    'awslambda': lambda sh: python_minifier.awslambda(SRC['rename'], entrypoint='handler'),
    'syntaxerror': lambda sh: python_minifier.minify(SRC['syntaxerror']),
    'midfail': lambda sh: python_minifier.minify(SRC['midfail']),
    'shebang': lambda sh: python_minifier.minify(SRC['shebang']),
    'shebang+hugeint': lambda sh: python_minifier.minify(SRC['shebang+hugeint']),
    'hugehex': lambda sh: python_minifier.minify(SRC['hugehex']),
    'bytes-latin1': lambda sh: python_minifier.minify(b"#!/bin/sh\n# -*- coding: latin-1 -*-\nname = '\xe9\xe8'\nprint(name, name)\n"),
    'rename+str': lambda sh: python_minifier.minify(SRC['rename'], preserve_locals='zzz'),
}


def describe_shared(sh):
    return {'L1': list(sh['L1']), 'G1': list(sh['G1']), 'RA': dict(vars(sh['RA']))}


def state_digest():
    """canonical digest of every mutable object reachable from the module globals, class attributes and function defaults of python_minifier.*"""
    parts = [interpreter_state()]
    for mname in sorted(sys.modules):
        if not (mname == 'python_minifier' or mname.startswith('python_minifier.')):
            continue
        mod = sys.modules[mname]
        if mod is None:
            continue
        for k in sorted(vars(mod)):
            v = vars(mod)[k]
            if k.startswith('__') and k.endswith('__'):
                continue
            parts.append(describe_value('%s.%s' % (mname, k), v, 0))
    return hashlib.sha256(repr(parts).encode('utf-8', 'replace')).hexdigest()[:16], parts


def interpreter_state():
    """process-wide interpreter settings a library call has no business changing"""
    import os
    import threading
    import warnings
    return ('interpreter', sys.getrecursionlimit(), sys.getswitchinterval(), len(sys.path), tuple(sys.path[:3]), os.getcwd(), sorted(os.environ.items())[:0] or len(os.environ),
            len(warnings.filters), threading.stack_size(), sys.gettrace() is None, sys.getprofile() is None, getattr(sys, 'get_int_max_str_digits', lambda: 0)())


def describe_value(path, v, depth):
    if depth > 3:
        return (path, '...')
    if isinstance(v, (list, tuple)):
        return (path, type(v).__name__, [describe_value('', x, depth + 1) for x in v][:200])
    if isinstance(v, (set, frozenset)):
        return (path, 'set', sorted(repr(x) for x in v)[:200])
    if isinstance(v, dict):
        return (path, 'dict', sorted((repr(k), repr(describe_value('', x, depth + 1))) for k, x in v.items())[:200])
    if isinstance(v, types.ModuleType):
        return (path, 'module', v.__name__)
    if isinstance(v, type):
        if v.__module__ and v.__module__.startswith('python_minifier') and depth < 2:
            attrs = []
            for k in sorted(vars(v)):
                a = vars(v)[k]
                if isinstance(a, (list, dict, set)) or (not callable(a) and not k.startswith('__') and not isinstance(a, (property, staticmethod, classmethod))):
                    attrs.append(describe_value(k, a, depth + 1))
            return (path, 'class', attrs)
        return (path, 'class', v.__name__)
    if isinstance(v, types.FunctionType):
        d = []
        for x in (v.__defaults__ or ()):
            d.append(describe_value('default', x, depth + 1))
        for k, x in sorted((v.__kwdefaults__ or {}).items()):
            d.append(describe_value('kwdefault:' + k, x, depth + 1))
        return (path, 'function', d)
    if isinstance(v, (str, bytes, int, float, complex, bool, type(None))):
        return (path, repr(v))
    if hasattr(v, '__dict__') and type(v).__module__ and type(v).__module__.startswith('python_minifier'):
        return (path, 'instance:' + type(v).__name__, sorted((k, repr(x)) for k, x in vars(v).items()))
    return (path, 'object:' + type(v).__name__)


def run_history(history):
    sh = make_shared()
    out = []
    d0, _ = state_digest()
    for name in history:
        before = describe_shared(sh)
        try:
            r = CALLS[name](sh)
            res = ('ok', hashlib.sha256(r.encode('utf-8')).hexdigest()[:16], r if len(r) < 400 else r[:400])
        except BaseException as e:
            res = ('raises', type(e).__name__, '')
        after = describe_shared(sh)
        d, _ = state_digest()
        out.append({'call': name, 'result': res, 'args_before': before, 'args_after': after, 'state': d})
    return {'initial_state': d0, 'steps': out}


def run_seeds():
    sys.path.insert(0, sys.argv[2])
    from mc.gen import feat
    from mc import pm
    out = {}
    for desc, src in feat.programs('quick'):
        if '+' in desc and hash(desc) == 0:
            continue
        if desc.count('+') >= 1 and not desc.endswith(('closure', 'imports', 'fstrings')):
            continue
        for oname, on in (('default', pm.DEFAULT_ON), ('all', pm.ALL_ON)):
            try:
                r = pm.minify(src, on)
                out[desc + '|' + oname] = hashlib.sha256(r.encode('utf-8')).hexdigest()[:16]
            except Exception as e:
                out[desc + '|' + oname] = 'raises:' + type(e).__name__
    # printers: every member of the expression / statement table, the string placements and the f-string tie programs (default options);
    # digests are grouped so that the report stays small - a differing group names its members' index range
    from mc.gen import exprs, strs, fstr
    tier = sys.argv[3] if len(sys.argv) > 3 else 'quick'
    only = set(sys.argv[4].split(',')) if len(sys.argv) > 4 else None
    stride = 8 if tier == 'quick' else 2
    fexprs = (c for i, c in enumerate(c for c in exprs.depth2_cases() if "f'" in c[1] or 'f"' in c[1]) if i % stride == 0)
    for gname, gen, size in (('fexpr', fexprs, 200), ('pattern', exprs.pattern_cases(), 50), ('strs', strs.cases('quick', 0, 2 * stride), 200),
                             ('fstr', fstr.cases(tier), 24)):
        h = hashlib.sha256()
        n = 0
        for label, src in gen:
            key = '%s:%d' % (gname, n // size)
            if only is None or key in only:
                try:
                    r = python_minifier.minify(src)
                except Exception as e:
                    r = 'raises:' + type(e).__name__
                h.update(r.encode('utf-8', 'surrogatepass') + b'\0')
            n += 1
            if n % size == 0:
                if only is None or key in only:
                    out[key] = h.hexdigest()[:16]
                h = hashlib.sha256()
        if n % size:
            key = '%s:%d' % (gname, n // size)
            if only is None or key in only:
                out[key] = h.hexdigest()[:16]
    return out


if __name__ == '__main__':
    if sys.argv[1] == 'history':
        print(json.dumps(run_history(json.loads(sys.argv[2]))))
    elif sys.argv[1] == 'histories':
        # several histories, each in its own process would be ideal; here: one process per history is enforced by the caller
        print(json.dumps(run_history(json.loads(sys.argv[2]))))
    elif sys.argv[1] == 'seeds':
        print(json.dumps(run_seeds()))
