"""C09 — dynamic name access freezes every name in the module.

Space: trigger name {exec, eval, locals, globals, vars} x form {call, bare reference, attribute base} x 25 syntactic positions, and
star imports in 5 positions, inside an enriched program (mc/gen/taint.py); plus every G_scope program of the tier with a trigger appended
to the module; the Python 2 exec statement (5 forms) and the name triggers in 19 statement positions under every other installed
interpreter (mc/gen/taint2.py, portable worker); x full(6) over {rename_locals, rename_globals, hoist_literals, remove_builtin_exception_brackets, convert_posargs_to_args,
remove_literal_statements} + dev(1) on the remaining switches, + preserve lists.
Oracle: with G = {rename_locals, rename_globals, hoist_literals}: minify(P, O) must be textually identical to minify(P, O - G) (these three
switches are the only ones that respell or introduce names, so identical text <=> every identifier unchanged at the same position and every
scope binding exactly the same names); the walk2 alignment explains a difference when there is one.  For option sets within the safe
options the program is also executed: the trigger really looks at the namespaces, so the observation stream must be unchanged.
"""
import ast

from mc import core, pm, scope_engine
from mc.oracle import observe, alpha, scopes

ID = 'C09'
LEVEL = 'exploration'
RULE = ('cases: (trigger name, form, position) x option set, and (G_scope program + module-level trigger) x option set. A case is non-trivial '
        'when the same program with the trigger name replaced by a non-trigger name IS changed by the renaming switches under the same '
        'options (so the freeze is what kept it unchanged); counted once per distinct (program, option set).')
ASSUMPTIONS = [
    'the premise is checked with the independent resolver: the trigger name must resolve to builtin (never shadowed in these programs)',
    'the Python 2 exec statement (and the name triggers under every other installed interpreter) is reached through the portable worker: textual freeze + stdout/exception comparison, no independent resolver there (a program that shadowed a trigger name is not in that alphabet)',
]
G = frozenset(['rename_locals', 'rename_globals', 'hoist_literals'])
GROUP6 = ['rename_locals', 'rename_globals', 'hoist_literals', 'remove_builtin_exception_brackets', 'convert_posargs_to_args', 'remove_literal_statements']
REST = sorted(pm.ALL_ON - set(GROUP6))
NPARTS = 32


def option_sets(tier):
    sets = [s for s in pm.full(GROUP6) if s & G]
    base_rest = frozenset(n for n in REST if n in pm.DEFAULT_ON)
    out = [s | base_rest for s in sets]
    for o in REST:
        out.append((frozenset(GROUP6) | base_rest) ^ {o})
    return pm.uniq(out)


def bound(tier):
    return {'option_sets': len(option_sets(tier)), 'trigger_programs': 5 * 3 * 25 + 5, 'scope_programs': 'G_scope tier %s + module-level trigger' % tier,
            'portable_programs': '11 triggers (5 exec-statement forms) x 19 positions x 14 option sets per installed interpreter'}


def tasks(tier):
    from mc.checks import c02
    return ([('taint', tier, i, 16) for i in range(16)] + [('scope', tier, i, NPARTS) for i in range(NPARTS)] +
            [('interp', v, exe) for v, exe in c02.interpreters(tier)])


def control_source(src):
    """the same program with every trigger name replaced by an ordinary unbound name (so that it is not tainted)"""
    out = src
    for n in ('exec', 'eval', 'locals', 'globals', 'vars'):
        out = out.replace(n + '(', 'zz' + n + '(').replace(n + '.', 'zz' + n + '.').replace('(' + n + ',', '(zz' + n + ',')
    return out.replace('from os.path import *', 'from os.path import join')


def examine(label, src, sets, res, extra_kw=None):
    code = scope_engine.try_compile(src)
    if code is None:
        res.count('not_compilable')
        return
    a = scopes.analyse(ast.parse(src))
    trig = [s for s in a.sites if s.name in ('exec', 'eval', 'locals', 'globals', 'vars')]
    star = 'import *' in src
    if not star and not any(s.binding[0] == 'builtin' for s in trig):      # at least one reference that the interpreter resolves to the builtin
        res.count('premise_not_met')
        return
    res.count('programs')
    ref = observe.run(code)
    ctrl = control_source(src)
    for on in sets:
        res.count('evaluations')
        v, nontrivial = violation_for(src, on, ref, ctrl, extra_kw)
        if nontrivial:
            res.count('distinct_nontrivial')
        for kind, detail in v:
            res.violation(kind + '|' + label, {'label': label, 'source': src, 'options': sorted(on), 'extra': extra_kw}, detail)
    res.sample({'label': label, 'source': src[-300:]}, 2)


def violation_for(src, on, ref, ctrl, extra_kw=None):
    kw = dict(extra_kw or {})
    try:
        out = pm.minify(src, on, **kw)
        base = pm.minify(src, on - G, **kw)
    except Exception as e:
        return [('minify-raises:%s' % type(e).__name__, repr(e))], False
    problems = []
    # the premise is evaluated on what the structural transforms leave: a trigger that only occurred inside a removed annotation / assert /
    # debug block no longer exists in the output, so nothing can look names up dynamically there
    try:
        tb = ast.parse(base)
        ab = scopes.analyse(tb)
        star_still = any(isinstance(n, ast.ImportFrom) and any(al.name == '*' for al in n.names) for n in ast.walk(tb))
        still = star_still or any(s.name in ('exec', 'eval', 'locals', 'globals', 'vars') and s.binding[0] == 'builtin' for s in ab.sites)
    except SyntaxError:
        still = True
    if not still:
        return [], False
    if out != base:
        hdr = 'options %s %s\nexpected (same options without %s):\n%s\ngot:\n%s\n' % (pm.optkey(on), kw or '', sorted(G & on), base, out)
        why = ''
        try:
            r = alpha.check(base, out)
            why = '; '.join('%s: %s' % p for p in r.problems[:3])
            if r.name_map:
                why += ' respelled: %s' % sorted(set(r.name_map.values()))[:5]
            if r.inserted:
                why += ' inserted statements: %d' % r.inserted
            kind = 'name-respelled' if r.name_map else 'name-introduced' if (r.inserted or r.hoisted) else 'changed'
        except Exception as e:
            kind = 'changed'
            why = repr(e)
        problems.append((kind, hdr + why))
    if ref is not None and on <= pm.SAFE and not kw:
        try:
            got = observe.run(compile(out, '<minified>', 'exec', dont_inherit=True))
            d = observe.same(ref, got)
            if d:
                problems.append(('behaviour-differs', 'options %s\nin:\n%s\nout:\n%s\n%s' % (pm.optkey(on), src, out, d)))
        except SyntaxError as e:
            problems.append(('output-does-not-compile', repr(e)))
    # non-triviality: would these switches have changed the untainted control program?
    nontrivial = False
    try:
        nontrivial = pm.minify(ctrl, on, **kw) != pm.minify(ctrl, on - G, **kw)
    except Exception:
        pass
    return problems, nontrivial


def run_task(task):
    res = core.Result()
    if task[0] == 'interp':
        return run_interp(task, res)
    kind, tier, part, nparts = task
    sets = option_sets(tier)
    if kind == 'taint':
        from mc.gen import taint
        for i, (label, src) in enumerate(taint.programs()):
            if i % nparts != part:
                continue
            examine(label, src, sets, res)
            if i % 7 == 0:
                examine(label + '+preserve', src, sets[:8], res, {'preserve_locals': ['local_variable'], 'preserve_globals': ['helper_function']})
    else:
        small = [frozenset(G), frozenset(G) | pm.DEFAULT_ON, frozenset(['hoist_literals']), frozenset(['rename_locals']), frozenset(['rename_globals'])]
        trigs = ["obs(eval('1'))", "obs(sorted(k for k in globals() if len(k)<3 and k!='cm'))", 'from os.path import *'] if tier == 'thorough' else ["obs(sorted(k for k in globals() if len(k)<3 and k!='cm'))"]
        if tier == 'quick':
            plan = [(1, 'full', 'full', lambda i, n: 'mid', (False,)), (2, 'core', 'core', lambda i, n: 'core', (False,))]
        else:
            plan = [(1, 'full', 'full', lambda i, n: 'full', (False,)), (2, 'mid', 'mid', lambda i, n: 'core', (False,))]
        for desc, src in scope_engine.programs(tier, part, nparts, plan):
            for t in trigs:
                examine('scope+trigger:' + desc, src + t + '\n', small, res)
    return res


def run_interp(task, res):
    from mc.checks import c02
    from mc.gen import taint2
    _, ver, exe = task
    out = c02.portable(taint2.cases(), exe, 'taint')
    res.count('evaluations', out['evaluations'])
    res.count('distinct_nontrivial', out['nontrivial'])
    res.count('interp_%s_programs' % ver, out['checked'])
    res.count('interp_%s_not_in_language' % ver, out['skipped'])
    if c02.pyver(ver) == '2.7' and out['checked'] < 150:
        raise core.HarnessError('exec-statement programs do not compile under 2.7 any more (%d checked)' % out['checked'])
    for v in out['violations']:
        res.violation('py%s:%s|%s' % (c02.pyver(ver), v['sig'], v['label']), {'label': v['label'], 'source': v['source'], 'interpreter': exe}, v['detail'])
    return res


def replay(case):
    if 'interpreter' in case:
        from mc.checks import c02
        from mc.gen import taint2
        recs = [c for c in taint2.cases() if c[0] == case['label']]
        out = c02.portable(recs, case['interpreter'], 'taint')
        for v in out['violations']:
            return {'signature': 'py%s:%s|%s' % (c02.pyver(out['python']), v['sig'], v['label']), 'detail': v['detail']}
        return None
    src = case['source']
    code = scope_engine.try_compile(src)
    ref = observe.run(code) if code else None
    v, _ = violation_for(src, frozenset(case['options']), ref, control_source(src), case.get('extra'))
    for kind, detail in v:
        return {'signature': kind + '|' + case['label'], 'detail': detail}
    return None
