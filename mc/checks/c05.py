"""C05 — each option performs only its documented rewrite, only where it is valid.

Space: G_stmt (19 block positions x 1-2 statements from 61 statement forms, dataclass/NamedTuple/TypedDict field classes, shadowing
preambles) and the G_feat fragment programs; option sets: every set within 1 (quick) / 2 (thorough) toggles of all-off and of all-on over the
18 switches, and the complete 2^18 subsets (thorough) / all subsets of the 15 structural switches with at most 3 enabled (quick) on one
program that triggers every transform.
Oracle: (1) classifier, for option sets without renaming and hoisting: canon_O(P) must be strictly equal to canon_O(minify(P, O)), where canon_O
is an independent reference implementation of the documented rewrites of the options in O with their stated side conditions
(mc/oracle/rewrite_rules.py); with constant_folding on, the remaining differences must be closed literal expressions that evaluate to the
identical value.  (2) behaviour, for every option set: the output run under the optimisation level the options presuppose (-OO when literal
statements are removed, -O when asserts/debug blocks are removed, none otherwise) must be observationally equal to the original run under
the same level.
"""
import ast

from mc import core, pm, scope_engine
from mc.oracle import observe, rewrite_rules, strict_ast, foldcmp

ID = 'C05'
LEVEL = 'exploration'
RULE = ('cases: (program, option set). Non-trivial: the output differs from the all-off print of the program (some transform fired), counted once '
        'per distinct (program, output text).')
ASSUMPTIONS = [
    'mc/oracle/rewrite_rules.py is the reviewed reading of docs/source/transforms/*.rst ("documented")',
    'behaviour is compared under the optimisation level the enabled options presuppose, as the property states ("equals what -O would run")',
]
NPARTS = 64
RENAMING = frozenset(['rename_locals', 'rename_globals', 'hoist_literals'])
STRUCT = sorted(pm.ALL_ON - RENAMING)


def option_sets(tier):
    d = 1 if tier == 'quick' else 2
    sets = pm.dev(pm.ALL_OFF, pm.ALL, d) + pm.dev(pm.ALL_ON, pm.ALL, d) + pm.dev(pm.DEFAULT_ON, pm.ALL, 1)
    return pm.uniq(sets)


def crossed_sets(tier):
    if tier == 'thorough':
        return pm.full(pm.ALL)
    out = []
    import itertools
    for k in range(0, 4):
        for c in itertools.combinations(STRUCT, k):
            out.append(frozenset(c))
    return out


def bound(tier):
    return {'option_sets': len(option_sets(tier)), 'crossed_sets': len(crossed_sets(tier)), 'statements_per_block': 2}


def tasks(tier):
    t = [('stmt', tier, i, NPARTS) for i in range(NPARTS)]
    t += [('feat', tier, i, 16) for i in range(16)]
    t += [('crossed', tier, i, 32) for i in range(32)]
    return t


def opt_level(on):
    if 'remove_literal_statements' in on:
        return 2
    if 'remove_asserts' in on or 'remove_debug' in on:
        return 1
    return 0


def violation_for(src, on, refs, tin):
    try:
        out = pm.minify(src, on)
    except Exception as e:
        return [('minify-raises:%s' % type(e).__name__, repr(e))], None
    hdr = 'options %s\nin:\n%s\nout:\n%s\n' % (pm.optkey(on), src, out)
    problems = []
    try:
        tout = ast.parse(out)
    except SyntaxError as e:
        return [('output-unparseable', hdr + repr(e))], out
    if not (on & RENAMING):
        a = rewrite_rules.canon(src, on)
        b = rewrite_rules.canon(out, on)
        d = strict_ast.diff(a, b)
        if d and 'constant_folding' in on:
            pairs = []
            foldcmp.diffs(a, b, pairs)
            d = None
            for x, y in pairs:
                if not (isinstance(x, ast.expr) and foldcmp.closed(x) and foldcmp.closed(y) and foldcmp.evaluate(x) == foldcmp.evaluate(y)):
                    d = 'difference that is not a folded literal expression: %s -> %s' % (ast.dump(x)[:150], ast.dump(y)[:150])
                    break
        if d:
            problems.append(('undocumented-rewrite', hdr + 'canonical forms differ: ' + d + '\ncanon(in):  %s\ncanon(out): %s' % (
                safe_unparse(a), safe_unparse(b))))
    lvl = opt_level(on)
    ref = refs.get(lvl)
    if ref is None:
        try:
            ref = observe.run(compile(src, '<in>', 'exec', dont_inherit=True, optimize=lvl))
        except SyntaxError:
            ref = False
        refs[lvl] = ref
    if ref:
        try:
            got = observe.run(compile(out, '<out>', 'exec', dont_inherit=True, optimize=lvl))
            dd = observe.same(ref, got, compare_ns='rename_globals' not in on)
            if dd:
                problems.append(('behaviour-differs', hdr + '(both run with optimize=%d) %s' % (lvl, dd)))
        except SyntaxError as e:
            problems.append(('output-does-not-compile', hdr + repr(e)))
    return problems, out


def safe_unparse(t):
    try:
        return ast.unparse(ast.fix_missing_locations(t)).replace('\n', ' | ')[:400]
    except Exception as e:
        return '<unparse failed %r>' % e


def examine(label, src, sets, res):
    if scope_engine.try_compile(src) is None:
        res.count('not_compilable')
        return
    res.count('programs')
    tin = ast.parse(src)
    try:
        base = pm.minify(src, pm.ALL_OFF)
    except Exception:
        base = None
    refs = {}
    seen = set()
    for on in sets:
        res.count('evaluations')
        v, out = violation_for(src, on, refs, tin)
        if out is not None and out not in seen:
            seen.add(out)
            if out != base:
                res.count('distinct_nontrivial')
        uniq = {}
        for k, d in v:
            uniq.setdefault(k, d)
        for kind, detail in uniq.items():
            res.violation(kind + '|' + label, {'label': label, 'source': src, 'options': sorted(on)}, detail)
    res.sample({'label': label, 'source': src}, 2)


def run_task(task):
    res = core.Result()
    kind, tier, part, nparts = task
    if kind == 'stmt':
        from mc.gen import stmts
        sets = option_sets(tier)
        for i, (label, src) in enumerate(stmts.programs(tier)):
            if i % nparts == part:
                examine(label, src, sets, res)
    elif kind == 'feat':
        from mc.gen import feat
        sets = option_sets(tier)
        for i, (label, src) in enumerate(feat.programs(tier)):
            if i % nparts == part and ('+' not in label or tier == 'thorough' or i % 5 == 0):
                examine(label, src, sets, res)
    else:
        from mc.gen import feat
        sets = crossed_sets(tier)
        mine = [s for i, s in enumerate(sets) if i % nparts == part]
        for label, src in list(feat.crossed_programs())[:1 if tier == 'quick' else 3]:
            examine(label, src, mine, res)
    return res


def replay(case):
    src = case['source']
    v, _ = violation_for(src, frozenset(case['options']), {}, ast.parse(src))
    for kind, detail in v:
        return {'signature': kind + '|' + case['label'], 'detail': detail}
    return None
