"""C14 — the command line tool never emits more bytes than it was given (unless PYMINIFY_FORCE_BEST_EFFORT is set).

Space: every token string of <=3 (quick) / <=4 (thorough) tokens from a 24-token alphabet (empty, whitespace-only, comment-only, BOM, NUL,
non-ASCII, ...), programs that grow / tie / shrink under minification in every source encoding (UTF-8, BOM, latin-1 / cp1252 / shift_jis /
utf-8 cookies, cookie on line 2) x newline convention x shebang form; x flag sets {none, the flags that can add bytes} x output modes
{stdin->stdout, file->stdout, file->--output, --in-place, stdin->--output} x override {unset, empty, set}.
Oracle: in-process main() with fake streams and a scratch directory.  With api = minify(S, documented kwargs).encode('utf-8'):
unparseable S => nothing is written and the exit status is non-zero; override set => written == api; otherwise len(written) <= len(S),
written == S when api is longer than S, written == api when it is not.  A subprocess pass validates the in-process driver.
"""
import os
import shutil
import tempfile

from mc import core, pm, clidrv
from mc.gen import srcs

ID = 'C14'
LEVEL = 'exploration'
RULE = ('cases: (source bytes, flag set, output mode, override). Non-trivial: the source parses, so something is written and the size rule is '
        'exercised (split in the evidence into grew / tie / shrank); unparseable sources exercise the "nothing written" side. Distinct by the '
        'tuple.')
ASSUMPTIONS = ['in-process main() with fake streams behaves like the executable (validated by a subprocess pass on a subset)']
PREVIOUS = b'# previous content of the output file\n'
MODES = ['stdin-stdout', 'file-stdout', 'file-output', 'in-place', 'stdin-output']
FLAGSETS = [[], ['--rename-globals'], ['--no-remove-annotations', '--no-rename-locals'], ['--remove-literal-statements', '--rename-globals']]
NPARTS = 64

GROW_SHRINK = [
    "x=1", "x = 1\n", "def f():\n    return None\n", "a='a'\nb='a'\n", "import a\nimport b\n", "if x:\n    pass\n", "x:int\n", "def f(a:int):pass",
    "class A(object):pass\n", "'''doc'''\n", "x=0xffffffffff\n", "x=1099511627775\n", "x=1e22\n", "x=1.0e22\n", "print('h\u00e9llo')\n", "x='\u00e9'\n", "\u00e9=1\n",
    "x = '\U0001f600'\n", "x=(1,\n2)\n", "x = [\n 1,\n 2,\n]\n", "def long_name(argument):\n    return argument+argument\n", "raise ValueError()\n",
    "1if 1else 1", "True if 0in x else False", "x=1if 1else'\u00e9\u00e9'", "1if 1else'\u00e9\u00e9\u00e9'", "x='" + '\u00e9' * 40 + "'\n", "print('" + '\u00fc\u00e9' * 30 + "')",
    "x=[1for a in b]", "x=0or 1\n",
    "for i in range(10):\n    print(i)\n", "x=f'{a}'\n", "x=f'{a!r:>10}'", "lambda:0", "0", "pass", "...", "x=1;y=2", "if 1:\n\tpass\nelse:\n\tpass",
]
# deeper than the minifier's recursive visitors can follow under the default recursion limit (the API raises RecursionError), and growing.
# Rendered plainly only (UTF-8, LF, with and without a shebang): every attempt costs a full recursion-limit unwind
DEEP_GROWING = ["x=" + "+".join(["a"] * 300) + "\ny=1if 1else 1\n", "if a:\n pass\n" + "elif a:\n pass\n" * 700 + "y=1if 1else 1\n"]
ENCODINGS = [('utf-8', ''), ('utf-8-sig', ''), ('latin-1', '# -*- coding: latin-1 -*-\n'), ('cp1252', '# coding: cp1252\n'), ('shift_jis', '# coding=shift_jis\n'),
             ('utf-8', '# coding: utf-8\n'), ('latin-1', '\n# coding: latin-1\n')]
NEWLINES = ['\n', '\r\n', '\r']
SHEBANGS = ['', '#!/usr/bin/env python\n', '#!/usr/bin/env python   \n', '#!\n']


def encoded_sources():
    for prog in DEEP_GROWING:
        yield prog.encode('utf-8')
        yield ('#!/usr/bin/env python\n' + prog).encode('utf-8')
    for prog in GROW_SHRINK:
        for enc, cookie in ENCODINGS:
            for nl in NEWLINES:
                for sb in SHEBANGS:
                    text = sb + cookie + prog
                    text = text.replace('\n', nl)
                    try:
                        data = text.encode(enc)
                    except UnicodeEncodeError:
                        continue
                    yield data
                    if not text.endswith(nl):
                        yield (text + nl).encode(enc)


def bound(tier):
    return {'token_string_len': 3 if tier == 'quick' else 4, 'modes': MODES, 'flag_sets': len(FLAGSETS), 'override': ['unset', 'empty', '1']}


def tasks(tier):
    return ([('tokens', tier, i, NPARTS) for i in range(NPARTS)] + [('encoded', i, 16) for i in range(16)] + [('subprocess', i, 8) for i in range(8)] +
            [('multi', i, 4) for i in range(4)])


def api_bytes(src, flags):
    status, on = clidrv.model(flags)
    try:
        return pm.minify(src, on).encode('utf-8')
    except SyntaxError:
        return None
    except Exception as e:
        return e


def expected(src, flags, force):
    """returns ('nothing', None) | ('bytes', b) | ('error', exc)"""
    api = api_bytes(src, flags)
    if api is None:
        return 'nothing', None
    if isinstance(api, Exception):
        return 'error', api
    if force:
        return 'bytes', api
    return 'bytes', (api if len(api) <= len(src) else src)


def run_mode(src, flags, mode, force, scratch, runner=clidrv.run):
    """returns (exit, written bytes or None when nothing was written, stdout bytes)"""
    inp = os.path.join(scratch, 'in.py')
    outp = os.path.join(scratch, 'out.py')
    for p in (inp, outp):
        if os.path.exists(p):
            os.unlink(p)
    if mode.endswith('output'):
        with open(outp, 'wb') as f:
            f.write(PREVIOUS)       # whatever the output file held before the run
    if mode.startswith('file') or mode == 'in-place':
        with open(inp, 'wb') as f:
            f.write(src)
    if mode == 'stdin-stdout':
        o = runner(flags + ['-'], src, force)
        return o.exit, (o.out_bytes if o.out_bytes or o.exit == 0 else None), o
    if mode == 'file-stdout':
        o = runner(flags + [inp], b'', force)
        return o.exit, (o.out_bytes if o.out_bytes or o.exit == 0 else None), o
    if mode == 'file-output':
        o = runner(flags + [inp, '--output', outp], b'', force)
        return o.exit, (open(outp, 'rb').read() if os.path.exists(outp) else None), o
    if mode == 'stdin-output':
        o = runner(flags + ['-', '--output', outp], src, force)
        return o.exit, (open(outp, 'rb').read() if os.path.exists(outp) else None), o
    if mode == 'in-place':
        o = runner(flags + [inp, '--in-place'], b'', force)
        return o.exit, open(inp, 'rb').read(), o
    raise ValueError(mode)


def violation_for(src, flags, mode, force, scratch):
    exit_, written, o = run_mode(src, list(flags), mode, force, scratch)
    kind, want = expected(src, flags, force)
    ctx = 'source %r flags %s mode %s override %r\n%r' % (src[:200], flags, mode, force, o)
    if kind == 'error':
        # minify itself fails on a parseable source (C08's business, e.g. RecursionError on a very deep expression); the size rule still holds
        # for whatever the tool does with such a module: it may fail and write nothing, but never write more than it read
        if written is not None and len(written) > len(src) and not force and written != PREVIOUS:
            return ('output-larger-than-input', ctx + '\nwritten %d bytes for %d (the API raises %r for this source)' % (len(written), len(src), want)), 'api-error'
        return None, 'api-error'
    if kind == 'nothing':
        if exit_ == 0:
            return ('invalid-source-exit-0', ctx), 'invalid'
        if mode == 'in-place':
            if written != src:
                return ('invalid-source-file-modified', ctx + '\nfile now %r' % written[:200]), 'invalid'
        elif mode.endswith('output'):
            if written != PREVIOUS:
                return ('invalid-source-touched-output-file', ctx + '\noutput file now %r' % (written[:200] if written is not None else None)), 'invalid'
        elif written not in (None, b''):
            return ('invalid-source-wrote-output', ctx + '\nwritten %r' % written[:200]), 'invalid'
        return None, 'invalid'
    cls = 'grew' if len(api_bytes(src, flags)) > len(src) else 'tie' if len(api_bytes(src, flags)) == len(src) else 'shrank'
    if exit_ != 0:
        return ('valid-source-failed', ctx), cls
    if written is None:
        return ('nothing-written', ctx), cls
    if not force and len(written) > len(src):
        return ('output-larger-than-input', ctx + '\nwritten %d bytes for %d' % (len(written), len(src))), cls
    if written != want:
        return ('wrong-bytes', ctx + '\nwritten %r\nexpected %r' % (written[:300], want[:300])), cls
    return None, cls


def run_task(task):
    res = core.Result()
    scratch = tempfile.mkdtemp(prefix='verif-c14-', dir=os.environ.get('VERIF_SCRATCH', '/var/tmp'))
    try:
        kind = task[0]
        if kind == 'tokens':
            _, tier, part, nparts = task
            for s in srcs.token_strings(3 if tier == 'quick' else 4, part, nparts):
                src = s.encode('utf-8')
                for fi, flags in enumerate(FLAGSETS[:2]):
                    for mode in MODES:
                        for force in (None, '1') if mode == 'stdin-stdout' else (None,):
                            one(res, src, flags, mode, force, scratch)
                res.sample({'source': repr(src)}, 1)
        elif kind == 'encoded':
            _, part, nparts = task
            for i, src in enumerate(encoded_sources()):
                if i % nparts != part:
                    continue
                for flags in FLAGSETS:
                    for mode in MODES:
                        for force in (None, '', '1'):
                            one(res, src, flags, mode, force, scratch)
        elif kind == 'multi':
            # several modules in one --in-place run, some of them byte-identical: the size rule is per file, whatever was seen before
            _, part, nparts = task
            shrink = b"def long_function_name():\n    return None\n\n\nprint(long_function_name())\n"
            n = 0
            for prog in GROW_SHRINK:
                src = prog.encode('utf-8')
                for flags in FLAGSETS[:2]:
                    a = api_bytes(src, flags)
                    if not isinstance(a, bytes) or len(a) <= len(src):
                        continue
                    for layout in ([src, src], [src, src, src], [shrink, src, src], [src, shrink, src], [src + b'\n', src, src + b'\n']):
                        n += 1
                        if n % nparts != part:
                            continue
                        d = os.path.join(scratch, 'multi')
                        shutil.rmtree(d, ignore_errors=True)
                        os.makedirs(d)
                        for i, data in enumerate(layout):
                            with open(os.path.join(d, 'm%d.py' % i), 'wb') as f:
                                f.write(data)
                        for argv in ([d], [os.path.join(d, 'm%d.py' % i) for i in range(len(layout))]):
                            for i, data in enumerate(layout):
                                with open(os.path.join(d, 'm%d.py' % i), 'wb') as f:
                                    f.write(data)
                            o = clidrv.run(list(flags) + argv + ['--in-place'], b'', None)
                            res.count('evaluations')
                            res.count('distinct_nontrivial')
                            res.count('class_multi')
                            for i, data in enumerate(layout):
                                now = open(os.path.join(d, 'm%d.py' % i), 'rb').read()
                                ad = api_bytes(data, flags)
                                want = ad if isinstance(ad, bytes) and len(ad) <= len(data) else data
                                if len(now) > len(data) or now != want or o.exit != 0:
                                    res.violation('output-larger-than-input:in-place-multi:%s' % ('identical' if layout.count(data) > 1 else 'other'),
                                                  {'kind': 'multi', 'layout': [x.decode('latin-1') for x in layout], 'flags': flags, 'dir': argv == [d]},
                                                  'files %r flags %s: m%d.py held %d bytes, now %d: %r (expected %r)\n%r' % (layout, flags, i, len(data), len(now), now[:120], want[:120], o))
                                    break
        elif kind == 'subprocess':
            _, part, nparts = task
            n = 0
            for i, src in enumerate(encoded_sources()):
                if i % 37:
                    continue
                for mode in MODES:
                    n += 1
                    if n % nparts != part:
                        continue
                    force = (None, '', '1')[n % 3]
                    a = run_mode(src, [], mode, force, scratch, clidrv.run_subprocess)
                    b = run_mode(src, [], mode, force, scratch, clidrv.run)
                    res.count('evaluations')
                    res.count('subprocess_validated')
                    if (a[0] != 0) != (b[0] != 0) or a[1] != b[1]:
                        res.violation('driver-disagrees-with-executable', {'kind': 'subprocess', 'source': src.decode('latin-1'), 'mode': mode, 'force': force},
                                      'real %r %r\nin-process %r %r' % (a[0], a[1], b[0], b[1]))
    finally:
        shutil.rmtree(scratch, ignore_errors=True)
    return res


def one(res, src, flags, mode, force, scratch):
    res.count('evaluations')
    v, cls = violation_for(src, flags, mode, force, scratch)
    res.count('class_' + cls)
    if cls != 'api-error':
        res.count('distinct_nontrivial')
    if v:
        res.violation('%s:%s:%s' % (v[0], mode, cls), {'kind': 'case', 'source': src.decode('latin-1'), 'flags': flags, 'mode': mode, 'force': force}, v[1])


def replay(case):
    scratch = tempfile.mkdtemp(prefix='verif-c14-', dir=os.environ.get('VERIF_SCRATCH', '/var/tmp'))
    try:
        if case.get('kind') == 'multi':
            layout = [x.encode('latin-1') for x in case['layout']]
            d = os.path.join(scratch, 'multi')
            os.makedirs(d)
            for i, data in enumerate(layout):
                with open(os.path.join(d, 'm%d.py' % i), 'wb') as f:
                    f.write(data)
            argv = [d] if case['dir'] else [os.path.join(d, 'm%d.py' % i) for i in range(len(layout))]
            o = clidrv.run(list(case['flags']) + argv + ['--in-place'], b'', None)
            for i, data in enumerate(layout):
                now = open(os.path.join(d, 'm%d.py' % i), 'rb').read()
                ad = api_bytes(data, case['flags'])
                want = ad if isinstance(ad, bytes) and len(ad) <= len(data) else data
                if len(now) > len(data) or now != want or o.exit != 0:
                    return {'signature': 'output-larger-than-input:in-place-multi:%s' % ('identical' if layout.count(data) > 1 else 'other'),
                            'detail': 'm%d.py held %d bytes, now %d' % (i, len(data), len(now))}
            return None
        src = case['source'].encode('latin-1')
        if case['kind'] == 'subprocess':
            a = run_mode(src, [], case['mode'], case['force'], scratch, clidrv.run_subprocess)
            b = run_mode(src, [], case['mode'], case['force'], scratch, clidrv.run)
            if (a[0] != 0) != (b[0] != 0) or a[1] != b[1]:
                return {'signature': 'driver-disagrees-with-executable', 'detail': 'real %r in-process %r' % (a[:2], b[:2])}
            return None
        v, cls = violation_for(src, case['flags'], case['mode'], case['force'], scratch)
        return v and {'signature': '%s:%s:%s' % (v[0], case['mode'], cls), 'detail': v[1]}
    finally:
        shutil.rmtree(scratch, ignore_errors=True)
