"""C07 — constant folding never changes a value, its type, or an error; never makes the expression longer.

Space: G_lit depth 1 (all pairs of 92 signed operands x 13 operators), depth 2 (both associations; 12-operand alphabet in quick, the 23
base operands in thorough), every foldable depth-1 expression in 51 syntactic contexts; options {constant_folding} alone and with
hoisting/renaming on; every installed interpreter through the portable worker (depth 1 and 2).
Oracle: the unfolded and the folded output are parsed; every place where they differ is evaluated on both sides by the interpreter (never by
the folder): results must agree in type, value, sign of zero (real and imaginary), infinities; an original that raises or yields NaN must
have been left unfolded; the folded text must not be longer.  Unfolded expressions are never evaluated, so huge powers are not executed.
"""
import ast
import os

from mc import core, pm
from mc.gen import lits
from mc.oracle import foldcmp

ID = 'C07'
LEVEL = 'exploration'
RULE = ('cases: literal-only arithmetic expressions (depth 1: all operand pairs x operators; depth 2: both associations) and depth-1 expressions in '
        '51 syntactic contexts. Non-trivial: the folder actually replaced something (folded output differs from the unfolded print), counted once '
        'per distinct source.')
ASSUMPTIONS = ['operand alphabet of mc/gen/lits.py; nesting depth <= 2; interpreters installed under /root/.pyenv/versions']
FOLD = frozenset(['constant_folding'])
NPARTS = 64


def interpreters(tier):
    from mc.checks import c02
    return c02.interpreters(tier)


def bound(tier):
    return {'depth': 2, 'depth2_alphabet': 12 if tier == 'quick' else 23, 'contexts': len(lits.CONTEXTS),
            'interpreters': [v for v, _ in interpreters(tier)] + ['3.12 (driver)']}


def tasks(tier):
    t = [('d1', i, 32) for i in range(32)]
    alpha = lits.SMALL if tier == 'quick' else lits.OPERANDS
    n2 = 64 if tier == 'quick' else 256
    t += [('d2', tier, i, n2) for i in range(n2)]
    t += [('ctx', i, 32) for i in range(32)]
    for v, exe in interpreters(tier):
        for i in range(4):
            t.append(('interp', v, exe, tier, i, 4))
    return t


def check_source(src, res, extra=frozenset()):
    res.count('evaluations')
    v = violation_for(src, extra)
    if v == 'unfolded':
        return False
    res.count('distinct_nontrivial')
    if v:
        res.violation(v[0] + '|' + signature_of(src), {'source': src, 'extra': sorted(extra)}, v[1])
    return True


def signature_of(src):
    import re
    # operators and operand classes only
    s = re.sub(r'\d+\.\d*(e-?\d+)?|\.\d+|\d+e-?\d+', 'F', src)
    s = re.sub(r'\d+j|Fj', 'J', s)
    s = re.sub(r'\d+', 'N', s)
    return s[:80]


def violation_for(src, extra=frozenset()):
    try:
        ast.parse(src)
    except SyntaxError:
        return 'unfolded'
    try:
        base = pm.minify(src, extra)
        out = pm.minify(src, FOLD | extra)
    except Exception as e:
        return ('minify-raises:%s' % type(e).__name__, '%r: %r' % (src, e))
    if out == base:
        return 'unfolded'
    if len(out) > len(base):
        return ('folded-longer', '%r: %r -> %r' % (src, base, out))
    tb, to = ast.parse(base), ast.parse(out)
    pairs = []
    foldcmp.diffs(tb, to, pairs)
    if not pairs:
        return ('text-differs-but-trees-equal', '%r -> %r' % (base, out))
    for a, b in pairs:
        if not (isinstance(a, ast.expr) and foldcmp.closed(a) and foldcmp.closed(b)):
            return ('non-literal-difference', '%r -> %r: %s -> %s' % (base, out, ast.dump(a)[:200], ast.dump(b)[:200]))
        va = foldcmp.evaluate(a)
        vb = foldcmp.evaluate(b)
        if 'too-expensive' in (va[0], vb[0]):
            continue        # an evaluation that was refused / timed out on either side decides nothing
        if va[0] == 'raises':
            return ('folded-raising-expression', '%r -> %r: original raises %s, replacement gives %r' % (base, out, va[1], vb))
        if len(va) > 1 and va[1] == 'nan' or (va[0] == 'complex' and ('float', 'nan') in va[1:]):
            return ('folded-nan', '%r -> %r' % (base, out))
        if va != vb:
            return ('value-changed', '%r -> %r: %r != %r' % (base, out, va, vb))
    return None


def run_task(task):
    res = core.Result()
    kind = task[0]
    if kind == 'd1':
        _, part, nparts = task
        for i, e in enumerate(lits.depth1()):
            if i % nparts == part:
                if check_source('x=' + e, res):
                    res.sample('x=' + e, 2)
    elif kind == 'd2':
        _, tier, part, nparts = task
        alpha = lits.SMALL if tier == 'quick' else lits.OPERANDS
        for e in lits.depth2(alpha, part, nparts):
            check_source('x=' + e, res)
    elif kind == 'ctx':
        _, part, nparts = task
        extra_sets = [frozenset()]
        for i, e in enumerate(lits.depth1()):
            if i % nparts != part:
                continue
            src = 'x=' + e
            try:
                if pm.minify(src, FOLD) == pm.minify(src, frozenset()):
                    continue
            except Exception:
                continue
            if i % 3:       # every third folding expression goes through all contexts (the others were covered as plain assignments)
                continue
            for c in lits.CONTEXTS:
                s = c.replace('{E}', e) if '{{' not in c else c.format(E=e)
                if s.startswith(('x=await', 'x=yield')):
                    s = 'async def f():\n ' + s
                for ex in extra_sets:
                    check_source(s, res, ex)
    elif kind == 'interp':
        from mc.checks import c02
        _, ver, exe, tier, part, nparts = task
        cases = []
        for i, e in enumerate(lits.depth1()):
            if i % nparts == part:
                cases.append(('d1', e))
        alpha = lits.SMALL[:8] if tier == 'quick' else lits.SMALL
        for i, e in enumerate(lits.depth2(alpha)):
            if i % nparts == part:
                cases.append(('d2', e))
        out = c02.portable(cases, exe, 'fold')
        res.count('evaluations', out['checked'])
        res.count('distinct_nontrivial', out['folded'])
        res.count('interp_%s_checked' % ver, out['checked'])
        res.count('interp_%s_folded' % ver, out['folded'])
        for v in out['violations']:
            res.violation('py%s:%s|%s' % (c02.pyver(ver), v['sig'], signature_of(v['source'])), {'source': v['source'], 'interpreter': exe}, v['detail'])
    return res


def replay(case):
    if 'interpreter' in case:
        from mc.checks import c02
        out = c02.portable([('r', case['source'][2:])], case['interpreter'], 'fold')
        for v in out['violations']:
            return {'signature': 'py%s:%s|%s' % (c02.pyver(out['python']), v['sig'], signature_of(v['source'])), 'detail': v['detail']}
        return None
    v = violation_for(case['source'], frozenset(case.get('extra', [])))
    if v and v != 'unfolded':
        return {'signature': v[0] + '|' + signature_of(case['source']), 'detail': v[1]}
    return None
