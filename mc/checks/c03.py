"""C03 — renaming preserves which binding every name refers to.

Space: every compilable G_scope program of the tier (runnable or not; plus the annotation-position programs with annotation removal off) x every non-empty subset of {rename_locals, rename_globals,
hoist_literals, convert_posargs_to_args} x {annotation removal off, on}.
Oracle: (1) the output is accepted by compile(); (2) static alpha-equivalence: walk2 aligns the output with the same program minified
without the renaming options, scopes resolves both sides independently, and the induced relation on bindings must be a bijection that is
the identity on builtin/unbound names, with inserted aliases merged into what they alias; (3) for runnable programs, observe() equality.
The resolver is cross-checked against the interpreter's symtable on every program (a disagreement is a harness error, never a pass).
"""
import ast

from mc import core, pm, scope_engine
from mc.oracle import observe, alpha, scopes

ID = 'C03'
LEVEL = 'exploration'
RULE = ('programs: every scope tree of the tier bound (scope kinds x attachment slots x binding-event bundles), compilable, runnable or not; '
        'option sets: all 15 non-empty subsets of the four renaming switches x annotation removal off/on. A case is non-trivial when the '
        'output respells at least one binding, inserts an alias or hoists a literal (measured by the alignment), counted once per distinct '
        '(program, output text).')
ASSUMPTIONS = [
    'scoping rules are those of mc/oracle/scopes.py (cross-checked against symtable on every program, and against execution on runnable ones)',
    'bound: <=2 (quick) / <=3 (thorough) nested scopes under the module; tracked-name alphabet {fnmatch}; helper names end in _',
]
NPARTS = 64
RENAME = ['rename_locals', 'rename_globals', 'hoist_literals', 'convert_posargs_to_args']
ANN = frozenset(['remove_variable_annotations', 'remove_return_annotations', 'remove_argument_annotations'])


def option_sets(tier):
    subs = [s for s in pm.full(RENAME) if s]
    if tier != 'thorough':
        return [(frozenset(), s) for s in subs] + [(ANN, frozenset(RENAME))]
    return [(b, s) for b in (frozenset(), ANN) for s in subs]


def bound(tier):
    return {'scopes_under_module': 2 if tier == 'quick' else 3, 'option_sets': len(option_sets(tier))}


def tasks(tier):
    from mc import subtask
    return [('scope', tier, i, NPARTS) for i in range(NPARTS)] + [('ann', tier, i, NPARTS) for i in range(NPARTS)] + subtask.interp_tasks(tier)


def examine(desc, src, sets, res):
    code = scope_engine.try_compile(src)
    if code is None:
        res.count('not_compilable')
        return
    res.count('programs')
    tin0 = ast.parse(src)
    pr = scopes.crosscheck(scopes.analyse(tin0), src)
    if pr:
        raise core.HarnessError('scopes vs symtable disagree on %r: %s' % (src, pr[:3]))
    observe.DECOY = 'obs(B)' in src
    ref = observe.run(code)
    bases = {}
    seen = set()
    for base, ren in sets:
        res.count('evaluations')
        if base not in bases:
            try:
                bases[base] = pm.minify(src, base)
            except Exception as e:
                res.violation('minify-raises:%s|%s' % (type(e).__name__, desc), {'desc': desc, 'source': src, 'base': sorted(base), 'rename': []}, repr(e))
                bases[base] = None
        if bases[base] is None:
            continue
        v, nontrivial, out = violation_for(src, bases[base], base, ren, ref)
        if out is not None and (base, out) not in seen:
            seen.add((base, out))
            if nontrivial:
                res.count('distinct_nontrivial')
        for kind, detail in v:
            res.violation(kind + '|' + desc, {'desc': desc, 'source': src, 'base': sorted(base), 'rename': sorted(ren)}, detail)
    res.sample({'desc': desc, 'source': src}, 2)


def violation_for(src, base_out, base, ren, ref):
    """returns (list of (kind, detail), nontrivial?, output text)"""
    on = base | ren
    try:
        out = pm.minify(src, on)
    except Exception as e:
        return [('minify-raises:%s' % type(e).__name__, 'minify raised %r with %s' % (e, pm.optkey(on)))], False, None
    hdr = 'options %s\nin:\n%s\nout:\n%s\n' % (pm.optkey(on), src, out)
    try:
        code = compile(out, '<minified>', 'exec', dont_inherit=True)
    except (SyntaxError, ValueError) as e:
        return [('output-does-not-compile', hdr + repr(e))], True, out
    problems = []
    r = alpha.check(base_out, out)
    for kind, msg in r.problems:
        problems.append(('static:' + kind, hdr + msg))
    nontrivial = bool(r.renamed_bindings or r.hoisted or r.inserted)
    if ref is not None and ref['exc'] != 'TIMEOUT':
        got = observe.run(code)
        d = observe.same(ref, got, compare_ns='rename_globals' not in on)
        if d and 'UnboundLocalError' in (ref['exc'], got['exc']) and observe.inlining_quirk(src, out, 'rename_globals' not in on):
            d = None    # CPython 3.12.1 comprehension-inlining quirk in the *original*; identical behaviour without inlining (3.11)
        if d:
            problems.append(('behaviour-differs', hdr + d))
    # one problem per kind is enough
    uniq = {}
    for k, d in problems:
        uniq.setdefault(k, d)
    return sorted(uniq.items()), nontrivial, out


def run_task(task):
    res = core.Result()
    if task[0] == 'interp':
        from mc import subtask
        return subtask.run_interp_task(__name__, task, res)
    kind, tier, part, nparts = task
    sets = option_sets(tier)
    if kind == 'ann':
        # annotation positions: parameters / variables annotated with their own name, scopes attached inside annotations.  Only with annotation
        # removal off (removing an annotation that has an effect is the documented behaviour of that option, not a renaming matter)
        sets = [(b, r) for b, r in sets if not b]
        for desc, src in scope_engine.programs(tier, part, nparts, scope_engine.annotation_plan(tier)):
            examine(desc, src, sets, res)
        return res
    for desc, src in scope_engine.programs(tier, part, nparts):
        examine(desc, src, sets, res)
    return res


def replay(case):
    if 'interpreter' in case:
        from mc import subtask
        return subtask.replay_under(__name__, case)
    src = case['source']
    code = scope_engine.try_compile(src)
    if code is None:
        return None
    base = frozenset(case['base'])
    observe.DECOY = 'obs(B)' in src
    ref = observe.run(code)
    v, _, _ = violation_for(src, pm.minify(src, base), base, frozenset(case['rename']), ref)
    for kind, detail in v:
        return {'signature': kind + '|' + case['desc'], 'detail': detail}
    return None
