"""C06 — hoisted literals are bound once, before use, to an identical value; never where a name would mean something else.

Space: every pair (quick) / pair and triple (thorough) of 40 syntactic positions receiving one literal (7 literal kinds, constants doubled so
that hoisting pays), 5 module heads (plain, docstring, __future__, both, program already using A/_A), look-alike literal pairs
(str/bytes with equal text, True/1/1.0, False/0, None/'None'); x {hoist_literals} x subsets of {rename_locals, rename_globals,
remove_literal_statements}.
Oracle: walk2 isolates the inserted `Name = Constant` statements and the replaced literals; scopes resolves the output independently.
Each alias: exactly one store, no del / rebinding anywhere; sits at the head of a def/module body (after docstring and __future__ imports
only); every replaced literal resolves to an alias holding strictly the same constant (type, value); nothing is replaced in a match
pattern, __slots__, f-string text or an expression statement; docstrings stay first; the output compiles (a misplaced __future__ import
does not); and the program behaves the same.
"""
import ast

from mc import core, pm, scope_engine
from mc.oracle import alpha, observe

ID = 'C06'
LEVEL = 'exploration'
RULE = ('cases: (literal kind, multiset of positions, module head) x option set. Non-trivial: the output actually contains at least one hoisted '
        'literal (measured by the alignment), counted once per distinct (program, output text).')
ASSUMPTIONS = ['positions and literal kinds are those of mc/gen/hoist.py; at most 3 positions (x2 occurrences for constants) per program']
NPARTS = 64
H = 'hoist_literals'
EXTRA = ['rename_locals', 'rename_globals', 'remove_literal_statements', 'constant_folding']
ANN = frozenset(['remove_variable_annotations', 'remove_class_attribute_annotations'])


def option_sets(tier):
    return [frozenset([H]) | s for s in pm.full(EXTRA)]


def bound(tier):
    return {'positions_per_program': 2 if tier == 'quick' else 3, 'option_sets': 16}


def tasks(tier):
    return [('hoist', tier, i, NPARTS) for i in range(NPARTS)]


def forbidden_constant_ids(tree):
    """ids of Constant nodes that sit where a name would mean something else: __slots__ values, expression statements"""
    slots, exprs = set(), set()
    for node in ast.walk(tree):
        if isinstance(node, ast.Assign) and any(isinstance(t, ast.Name) and t.id == '__slots__' for t in node.targets):
            for c in ast.walk(node.value):
                if isinstance(c, ast.Constant):
                    slots.add(id(c))
        if isinstance(node, ast.Expr) and isinstance(node.value, ast.Constant):
            exprs.add(id(node.value))
    class_slots = set()

    def class_statements(stmts):
        """statements that execute in the class namespace: the class body and the blocks of compound statements nested in it"""
        for st in stmts:
            yield st
            if isinstance(st, (ast.FunctionDef, ast.AsyncFunctionDef, ast.ClassDef)):
                continue
            for f in ('body', 'orelse', 'finalbody'):
                yield from class_statements(getattr(st, f, None) or [])
            for h in getattr(st, 'handlers', None) or []:
                yield from class_statements(h.body)
            for c in getattr(st, 'cases', None) or []:
                yield from class_statements(c.body)
    for node in ast.walk(tree):
        if isinstance(node, ast.ClassDef):
            for st in class_statements(node.body):
                value = None
                if isinstance(st, ast.Assign) and any(isinstance(t, ast.Name) and t.id == '__slots__' for t in st.targets):
                    value = st.value
                elif isinstance(st, ast.AnnAssign) and isinstance(st.target, ast.Name) and st.target.id == '__slots__' and st.value is not None:
                    value = st.value
                if value is not None:
                    for c in ast.walk(value):
                        if isinstance(c, ast.Constant):
                            class_slots.add(id(c))
    return class_slots, exprs


def violation_for(src, on, ref):
    base_on = on - {H, 'rename_locals', 'rename_globals'}
    try:
        base = pm.minify(src, base_on)
        out = pm.minify(src, on)
    except Exception as e:
        return [('minify-raises:%s' % type(e).__name__, repr(e))], False, None
    hdr = 'options %s\nin:\n%s\nout:\n%s\n' % (pm.optkey(on), base, out)
    problems = []
    try:
        code = compile(out, '<minified>', 'exec', dont_inherit=True)
    except SyntaxError as e:
        return [('output-does-not-compile', hdr + repr(e))], True, out
    tin, tout = ast.parse(base), ast.parse(out)
    r = alpha.check(base, out, tin, tout)
    for k, m in r.problems:
        problems.append((k, hdr + m))
    if not r.problems:
        slots, exprs = forbidden_constant_ids(tin)
        for c, n in r.alignment.hoists:
            if id(c) in slots:
                problems.append(('hoisted-in-class-slots', hdr + 'literal %r in __slots__ replaced by %r' % (c.value, n.id)))
            if id(c) in exprs:
                problems.append(('hoisted-expression-statement', hdr + 'literal statement %r replaced by %r' % (c.value, n.id)))
        # placement: walk2 only accepts inserted statements at the head (after docstrings / __future__ imports) of module/function bodies,
        # anything else has already been reported as an unexplained difference.  Docstring position:
        for a, b in zip(ast.walk(tin), ast.walk(tout)):
            pass
        problems += [(k, hdr + m) for k, m in docstring_problems(tin, tout)]
    if ref is not None:
        if base_on:
            # options outside the hoisting group (remove_literal_statements drops docstrings) have their own documented effect:
            # the reference is the same program under the same options without hoisting / renaming
            ref = observe.run(compile(base, '<base>', 'exec', dont_inherit=True))
        got = observe.run(code)
        d = observe.same(ref, got, compare_ns='rename_globals' not in on)
        if d:
            problems.append(('behaviour-differs', hdr + d))
    uniq = {}
    for k, d in problems:
        uniq.setdefault(k, d)
    return sorted(uniq.items()), bool(r.hoisted), out


def docstring_problems(tin, tout):
    out = []

    def bodies(t):
        for node in ast.walk(t):
            if isinstance(node, (ast.Module, ast.FunctionDef, ast.AsyncFunctionDef, ast.ClassDef)):
                yield node
    for a, b in zip(bodies(tin), bodies(tout)):
        da = ast.get_docstring(a, clean=False)
        db = ast.get_docstring(b, clean=False)
        if da != db:
            out.append(('docstring-moved', 'docstring of %s %r -> %r' % (getattr(a, 'name', '<module>'), da, db)))
        # __future__ imports: only docstrings / other __future__ imports may precede them (compile enforces it for the module)
    return out


def run_task(task):
    res = core.Result()
    from mc.gen import hoist
    _, tier, part, nparts = task
    sets = option_sets(tier)
    for i, (label, src) in enumerate(hoist.programs(tier)):
        if i % nparts != part:
            continue
        code = scope_engine.try_compile(src)
        if code is None:
            res.count('not_compilable')
            continue
        res.count('programs')
        ref = observe.run(code)
        seen = set()
        psets = sets
        if 'annassign' in label:
            # annotated assignments are rebuilt by the annotation-removing transform before literals are counted: cross with it
            psets = sets + [s | ANN for s in sets]
        for on in psets:
            res.count('evaluations')
            if 'remove_literal_statements' in on:
                # the reference behaviour is unchanged by removing literal statements (they have no effect) except for docstrings read back:
                pass
            v, nontrivial, out = violation_for(src, on, ref)
            if out is not None and out not in seen:
                seen.add(out)
                if nontrivial:
                    res.count('distinct_nontrivial')
            for kind, detail in v:
                res.violation(kind + '|' + label, {'label': label, 'source': src, 'options': sorted(on)}, detail)
        res.sample({'label': label, 'source': src}, 2)
    return res


def replay(case):
    src = case['source']
    code = scope_engine.try_compile(src)
    ref = observe.run(code) if code else None
    v, _, _ = violation_for(src, frozenset(case['options']), ref)
    for kind, detail in v:
        return {'signature': kind + '|' + case['label'], 'detail': detail}
    return None
