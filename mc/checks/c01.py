"""C01 — the minified module behaves like the original under every subset of the documented-safe options.

Space: every runnable G_scope program of the tier x option sets dev(1) (quick) / dev(2) (thorough) around all-default and around all-off
within the 13 default-on switches; G_feat kitchen-sink programs x the same + full(13) on the programs that trigger every transform.
Oracle: observe(run(minify(P,O))) == observe(run(P)) (obs stream, terminating exception type, normalised public namespace) and the
output compiles.
"""
from mc import core, pm, scope_engine
from mc.oracle import observe

ID = 'C01'
LEVEL = 'exploration'
RULE = ('programs: every scope tree of the tier bound (scope kinds x attachment slots x binding-event bundles of the tracked name) emitted as a '
        'self-observing program, plus the G_feat fragment programs; option sets: every set within d toggles of all-default and of all-off over '
        'the 13 default-on switches. A case (program, option set) is non-trivial when the minified text differs from the all-off print of the '
        'same program (the options did something) and both versions were executed and compared.')
ASSUMPTIONS = [
    'generated programs are straight-line: each scope is entered once, so one execution is the behaviour',
    'excluded by the documentation itself: side effects inside annotations, keyword calls colliding with positional-only parameters, '
    'reflective reads of renamed locals / annotations / line numbers',
    'bound: <=2 nested scopes under the module (quick), <=3 (thorough); names alphabet {fnmatch, bisect, helper names}',
]
NPARTS = 64
SAFE = sorted(pm.SAFE)


def option_sets(tier):
    d = 2 if tier == 'thorough' else 1
    sets = pm.dev(pm.DEFAULT_ON, SAFE, d) + pm.dev(pm.ALL_OFF, SAFE, d)
    return pm.uniq(sets)


def bound(tier):
    return {'scopes_under_module': 2 if tier == 'quick' else 3, 'option_sets': len(option_sets(tier)),
            'option_deviation': 1 if tier == 'quick' else 2}


def tasks(tier):
    t = [('scope', tier, i, NPARTS) for i in range(NPARTS)]
    t += [('feat', tier, i, 16) for i in range(16)]
    from mc import subtask
    return t + subtask.interp_tasks(tier)


def check_program(desc, src, sets, res, compare_ns=True):
    code = scope_engine.try_compile(src)
    if code is None:
        res.count('not_compilable')
        return
    observe.DECOY = 'obs(B)' in src
    ref = observe.run(code)
    if ref['exc'] == 'TIMEOUT':
        raise core.HarnessError('generated program does not terminate: %r' % src)
    res.count('programs')
    try:
        base = pm.minify(src, pm.ALL_OFF)
    except Exception:
        base = None
    seen_out = {}
    for on in sets:
        res.count('evaluations')
        n_before = len(seen_out)
        v = violation_for(src, on, ref, seen_out, compare_ns)
        if len(seen_out) > n_before and (base is None or len(seen_out) > 1 or on):
            # a new distinct output text for this program
            res.count('distinct_outputs')
            if seen_out and list(seen_out)[-1] != base:
                res.count('distinct_nontrivial')
        if v:
            res.violation(v[0] + '|' + generalise(desc), {'desc': desc, 'source': src, 'options': sorted(on)}, v[1])
    res.sample({'desc': desc, 'source': src, 'observed': repr(ref['stream'])[:200], 'exc': ref['exc']}, 2)


def generalise(desc):
    return desc


def violation_for(src, on, ref, seen_out=None, compare_ns=True):
    try:
        out = pm.minify(src, on)
    except Exception as e:
        return ('minify-raises:%s' % type(e).__name__, 'minify raised %r with %s' % (e, pm.optkey(on)))
    if seen_out is not None:
        if out in seen_out:
            r = seen_out[out]
            if r is None:
                return None
            return (r[0], r[1] + '\n(options %s)' % pm.optkey(on))
    try:
        code = compile(out, '<minified>', 'exec', dont_inherit=True)
    except (SyntaxError, ValueError) as e:
        r = ('output-does-not-compile', 'options %s\nin:\n%s\nout:\n%s\n%r' % (pm.optkey(on), src, out, e))
        if seen_out is not None:
            seen_out[out] = r
        return r
    got = observe.run(code)
    d = observe.same(ref, got, compare_ns)
    r = None
    if d and 'UnboundLocalError' in (ref['exc'], got['exc']) and observe.inlining_quirk(src, out, compare_ns):
        d = None        # the original trips over CPython 3.12.1's comprehension inlining; without inlining (3.11) both behave the same
    if d:
        kind = 'behaviour-differs'
        if ref['exc'] != got['exc']:
            kind = 'exception-differs:%s->%s' % (ref['exc'], got['exc'])
        r = (kind, 'options %s\nin:\n%s\nout:\n%s\n%s' % (pm.optkey(on), src, out, d))
    if seen_out is not None:
        seen_out[out] = r
    return r


def run_task(task):
    res = core.Result()
    kind = task[0]
    if kind == 'interp':
        from mc import subtask
        return subtask.run_interp_task(__name__, task, res)
    if kind == 'scope':
        _, tier, part, nparts = task
        sets = option_sets(tier)
        for desc, src in scope_engine.programs(tier, part, nparts):
            check_program(desc, src, sets, res)
    elif kind == 'feat':
        from mc.gen import feat
        _, tier, part, nparts = task
        sets = option_sets(tier)
        for i, (desc, src) in enumerate(feat.programs(tier)):
            if i % nparts != part:
                continue
            check_program(desc, src, sets, res)
        if tier == 'thorough' or True:
            full = pm.full(SAFE) if tier == 'thorough' else pm.dev(pm.DEFAULT_ON, SAFE, 3)
            for i, (desc, src) in enumerate(feat.crossed_programs()):
                if i % nparts != part:
                    continue
                check_program(desc, src, full, res)
    return res


def replay(case):
    if 'interpreter' in case:
        from mc import subtask
        return subtask.replay_under(__name__, case)
    src = case['source']
    code = scope_engine.try_compile(src)
    if code is None:
        return None
    observe.DECOY = 'obs(B)' in src
    ref = observe.run(code)
    v = violation_for(src, frozenset(case['options']), ref)
    if v:
        return {'signature': v[0] + '|' + generalise(case['desc']), 'detail': v[1]}
    return None
