"""C02 — printed source re-parses to exactly the same tree (strict on constant type / value / sign).

Sub-spaces (all enumerated completely):
  expr2   every (context, slot, child, paren-variant) of the expression/statement grammar (mc.gen.exprs.depth2_cases)
  expr3   (thorough) (context, slot, child, slot2, grandchild) for the precedence-sensitive kinds
  pattern match patterns, nested one level
  nums    every numeric spelling class x every spacing/paren-sensitive context
  strs    G_str: all strings/bytes over the quoting character classes up to the tier's length, in every literal placement
  tokens  the token-spacing machine: every lexeme-class pair the real printers emitted during the runs above, re-driven through the
          real TokenPrinter with every lexeme variant of both classes and re-tokenised with the stdlib tokenizer
  interp  the same sources re-checked under every other installed interpreter by mc/portable_worker.py
"""
import ast
import io
import os
import re
import tokenize

from mc import core, pm
from mc.oracle import strict_ast
from mc.gen import exprs, strs, nums

ID = 'C02'
LEVEL = 'model_checking'
RULE = ('cases are the complete (context, slot, child[, grandchild], parenthesisation) table of the expression/statement/pattern grammar, '
        'every numeric spelling class x context, and every string over 14 character classes up to the stated length x every literal '
        'placement; a case is counted once per distinct parsed tree (ast.dump) and is non-trivial when the interpreter parses it, i.e. it '
        'was actually printed by python_minifier.unparse AND by minify(all transforms off) and both re-parsed trees were compared strictly. '
        'states = lexeme classes of the token-spacing machine, transitions = (class,class,lexeme,lexeme) emissions replayed through the real '
        'TokenPrinter and re-tokenised; traces_validated_against_impl = full printer outputs round-tripped.')
ASSUMPTIONS = [
    'the interpreter\'s own ast.parse is the reference for "the tree of a source"',
    'trees are parser-reachable only (hand-built ASTs the parser can never produce are outside the property)',
    'bounds: expression nesting depth 2 (quick) / 3 (thorough, precedence-sensitive kinds); strings to length 3-4 (quick) / 4-5 (thorough)',
    'interpreters: those installed under /root/.pyenv/versions (3.3-3.5 are not installed)',
]

NPARTS = 48


def bound(tier):
    return {'expr_depth': 2 if tier == 'quick' else 3, 'string_len': '3 (all classes) / 4 (core classes)' if tier == 'quick' else '4 / 5',
            'interpreters': [p for p, _ in interpreters(tier)] + ['3.12 (driver)']}


def interpreters(tier):
    base = '/root/.pyenv/versions'
    out = []
    if not os.path.isdir(base):
        return out
    for v in sorted(os.listdir(base)):
        exe = os.path.join(base, v, 'bin', 'python')
        if os.path.exists(exe) and not v.startswith('3.12'):
            out.append((v, exe))
    return out      # every installed interpreter in both tiers: version guards in the printers are per minor version


def tasks(tier):
    t = [('expr2', i, NPARTS) for i in range(NPARTS)]
    t += [('pattern',), ('nums',)]
    t += [('strs', tier, i, NPARTS) for i in range(NPARTS)]
    if tier == 'thorough':
        t += [('expr3', i, 256) for i in range(256)]
    for v, exe in interpreters(tier):
        for i in range(4):
            t.append(('interp', v, exe, tier, i, 4))
    return t


# ---- recording of lexeme-class pairs actually emitted by the printers -------------------------------------------------

_pairs = None
_last = [None]


def lex_class(method, arg):
    if method == 'identifier':
        return 'ident'
    if method == 'keyword':
        return 'softkw' if arg in ('_', 'case', 'match', 'type') else 'kw:' + arg
    if method == 'integer':
        return 'int'
    if method == 'floatnumber':
        return 'float'
    if method == 'imagnumber':
        return 'imag'
    if method == 'stringliteral':
        return 'str'
    if method == 'bytesliteral':
        return 'bytes'
    if method == 'fstring':
        return 'fstring'
    if method in ('delimiter', 'operator'):
        return method[:2] + ':' + arg
    return method


def install_recorder():
    global _pairs
    if _pairs is not None:
        return
    _pairs = set()
    from python_minifier import token_printer
    TP = token_printer.TokenPrinter

    def wrap(name):
        orig = getattr(TP, name)

        def w(self, *a):
            if not (name == 'delimiter' and a and a[0] == ' '):
                cls = lex_class(name, a[0] if a else None)
                prev = getattr(self, '_verif_last', None)
                if prev is not None:
                    _pairs.add((prev, cls))
                self._verif_last = cls
            return orig(self, *a)
        w.__name__ = name
        setattr(TP, name, w)
    for name in ('identifier', 'keyword', 'stringliteral', 'bytesliteral', 'fstring', 'delimiter', 'operator', 'integer', 'imagnumber',
                 'floatnumber', 'newline', 'end_statement'):
        wrap(name)


# ---- the oracle for one source ---------------------------------------------------------------------------------------

def shape(label):
    label = re.sub(r'/p\d+s?$', '', label)
    label = re.sub(r'atom:[^\]/]*', 'atom', label)
    return label[:120]


def check_source(label, src, res, seen=None):
    """returns True when the case was parsed and checked"""
    res.count('generated')
    try:
        tree = ast.parse(src)
    except (SyntaxError, ValueError, RecursionError, MemoryError):
        res.count('not_parseable')
        return False
    if seen is not None:
        try:
            key = core.h64(ast.dump(tree))
        except ValueError:      # ints beyond the 4300-digit str() limit cannot be dumped
            key = core.h64(src)
        if key in seen:
            res.count('duplicate_tree')
            return False
        seen.add(key)
    res.count('evaluations')
    res.count('distinct_nontrivial')
    res.count('traces_validated_against_impl')
    v = violation_for(src, tree)
    if v:
        sig, detail = v
        label = attribute(label, sig)
        res.violation(sig + '|' + shape(label), {'label': label, 'source': src if len(src) < 3000 else src[:200] + '...<len %d>' % len(src),
                                                 'source_full': src if len(src) >= 3000 else None}, detail)
    return True


_KIDS = None


def attribute(label, sig):
    """a depth-3 failure (context <- middle <- inner) whose (middle <- inner) part already fails the same way in a neutral context is
    attributed to that depth-2 shape, so that one defect has one signature whatever surrounds it"""
    global _KIDS
    m = re.match(r'^(\w+)\[(\d+)\]<-(\w+)\[(\d+)\]<-([^/]+)/p\d+$', label)
    if not m:
        return label
    _ctx, _slot, mid, slot2, inner = m.groups()
    if _KIDS is None:
        _KIDS = dict(exprs.child_texts())
    if mid not in exprs.EXPR_D or inner not in _KIDS:
        return label
    for variant in exprs.variants(_KIDS[inner])[:2]:
        src2 = 'async def f():\n x=' + exprs.fill(exprs.EXPR_D[mid], {int(slot2): variant})
        try:
            t2 = ast.parse(src2)
        except SyntaxError:
            continue
        v2 = violation_for(src2, t2)
        if v2 and v2[0] == sig:
            return '%s[%s]<-%s/p0' % (mid, slot2, inner)
    return label


def violation_for(src, tree):
    import python_minifier
    # (1) the unparser alone
    try:
        out1 = python_minifier.unparse(ast.parse(src))
    except Exception as e:
        inner = getattr(e, 'exception', None)
        return ('unparse-raises:%s%s' % (type(e).__name__, (':' + type(inner).__name__) if inner is not None else ''),
                'unparse raised %r (%s)\nminified=%r' % (e, inner, getattr(e, 'minified', None)))
    try:
        t1 = ast.parse(out1)
    except SyntaxError as e:
        return ('unparse-output-unparseable', 'output %r: %s' % (out1, e))
    d = strict_ast.diff(tree, t1)
    if d:
        return ('unparse-tree-differs:' + re.sub(r'\[\d+\]', '[]', d.split(':')[0]), 'in=%r\nout=%r\n%s' % (src[:500], out1[:500], d))
    # (2) minify with every transform disabled
    try:
        out2 = pm.minify(src, pm.ALL_OFF)
    except Exception as e:
        return ('minify-alloff-raises:%s' % type(e).__name__, 'minify(all off) raised %r' % (e,))
    if out2 != out1:
        try:
            t2 = ast.parse(out2)
        except SyntaxError as e:
            return ('minify-alloff-output-unparseable', 'output %r: %s' % (out2, e))
        d = strict_ast.diff(tree, t2)
        if d:
            return ('minify-alloff-tree-differs:' + re.sub(r'\[\d+\]', '[]', d.split(':')[0]), 'in=%r\nout=%r\n%s' % (src[:500], out2[:500], d))
    return None


def replay(case):
    if 'interpreter' in case:
        out = portable([(case['label'], case['source'])], case['interpreter'], 'roundtrip')
        for v in out['violations']:
            return {'signature': 'py%s:%s|%s' % (pyver(out['python']), v['sig'], shape(v['label'])), 'detail': v['detail']}
        return None
    if 'first' in case:
        v = token_pair_violation(case['class_a'], case['class_b'], tuple(case['first']), tuple(case['second']))
        return v and {'signature': 'token-machine:%s->%s' % (case['class_a'], case['class_b']), 'detail': v}
    src = case.get('source_full') or case['source']
    try:
        tree = ast.parse(src)
    except SyntaxError:
        return None
    v = violation_for(src, tree)
    if v:
        return {'signature': v[0] + '|' + shape(case['label']), 'detail': v[1]}
    return None


def pyver(v):
    return '.'.join(v.split('.')[:2])


def portable(cases, exe, cmd):
    import json
    import subprocess
    import tempfile
    scratch = os.environ.get('VERIF_SCRATCH', '/var/tmp')
    fd, path = tempfile.mkstemp(prefix='verif-pw-', suffix='.jsonl', dir=scratch)
    try:
        with os.fdopen(fd, 'w') as f:
            for rec in cases:
                f.write(json.dumps(list(rec)) + '\n')
        env = dict(os.environ)
        env['PYTHONPATH'] = os.path.join(pm.REPO, 'src')
        env['PYTHONHASHSEED'] = '0'
        env['PYTHONWARNINGS'] = 'ignore'
        p = subprocess.run([exe, os.path.join(core.HERE, 'mc', 'portable_worker.py'), cmd, path], env=env,
                           stdout=subprocess.PIPE, stderr=subprocess.PIPE)
        if p.returncode != 0:
            raise core.HarnessError('portable worker failed under %s: %s' % (exe, p.stderr.decode('utf-8', 'replace')[-2000:]))
        return json.loads(p.stdout.decode('utf-8'))
    finally:
        os.unlink(path)


def run_task(task):
    res = core.Result()
    kind = task[0]
    if kind == 'interp':
        return run_interp(task, res)
    install_recorder()
    seen = set()
    if kind == 'expr2':
        _, part, nparts = task
        for i, (label, src) in enumerate(exprs.depth2_cases()):
            if core.h64(src) % nparts != part:       # route by content so duplicates meet in one worker
                continue
            if check_source(label, src, res, seen):
                res.sample({'label': label, 'source': src}, 2)
    elif kind == 'expr3':
        _, part, nparts = task
        for label, src in exprs.depth3_cases(part, nparts):
            if check_source(label, src, res, seen):
                res.sample({'label': label, 'source': src}, 1)
    elif kind == 'pattern':
        for label, src in exprs.pattern_cases():
            check_source(label, src, res, seen)
    elif kind == 'nums':
        for label, src in nums.cases():
            if check_source(label, src, res, seen):
                res.sample({'label': label, 'source': src[:80]}, 1)
    elif kind == 'strs':
        _, tier, part, nparts = task
        for label, src in strs.cases(tier, part, nparts):
            if check_source(label, src, res, seen):
                res.sample({'label': label, 'source': src}, 1)
    res.sets['pairs'] = set(_pairs)
    return res


# ---- other interpreters ----------------------------------------------------------------------------------------------

def all_sources(tier, part, nparts):
    """the expr2 / pattern / nums / (reduced) strs sources as (label, src), sharded"""
    n = 0
    for gen in (exprs.depth2_cases(), exprs.pattern_cases(), nums.cases(), strs.cases('quick', 0, 1 if tier == 'thorough' else 8)):
        for label, src in gen:
            n += 1
            if n % nparts == part:
                yield label, src


def run_interp(task, res):
    _, ver, exe, tier, part, nparts = task
    out = portable(((l, s_) for l, s_ in all_sources(tier, part, nparts) if len(s_) <= 20000), exe, 'roundtrip')
    res.count('evaluations', out['checked'])
    res.count('distinct_nontrivial', out['checked'])
    res.count('traces_validated_against_impl', out['checked'])
    res.count('interp_%s_checked' % ver, out['checked'])
    res.count('interp_%s_not_in_language' % ver, out['skipped'])
    for v in out['violations']:
        res.violation('py%s:%s|%s' % (pyver(ver), v['sig'], shape(v['label'])),
                      {'label': v['label'], 'source': v['source'], 'interpreter': exe}, v['detail'])
    return res


# ---- token machine ---------------------------------------------------------------------------------------------------

LEXEMES = {
    'ident': [('identifier', x) for x in ('a', 'b1', '_', 'e', 'j', 'x0', 'f', 'rb', 'if_', '\xe9')],
    'softkw': [('keyword', x) for x in ('_', 'case', 'match', 'type')],
    'int': [('integer', x) for x in (0, 1, 10, 255, 10 ** 6, 2 ** 40, 16 ** 6 - 1)],
    'float': [('floatnumber', x) for x in (1.0, 0.5, 1e5, 1e-7, 1e22, float('inf'), 1.5, 100.0)],
    'imag': [('imagnumber', x) for x in (1j, 0.5j, 1e22j, complex(0, float('inf')))],
    'str': [('stringliteral', x) for x in ('s', '', "'", 'a\nb')],
    'bytes': [('bytesliteral', x) for x in (b's', b'')],
    'fstring': [('fstring', x) for x in ("f'{a}'", 'f"{a}"', "f''")],
    'newline': [('newline', None)],
    'end_statement': [('end_statement', None)],
}
# emissions that are joined on purpose by the printers: ParamSpec `**` is emitted as two `*`, Ellipsis as three `.`
JOINED_BY_DESIGN = {('op:*', 'op:*'), ('de:.', 'de:.')}


def lexemes_of(cls):
    if cls in LEXEMES:
        return LEXEMES[cls]
    if cls.startswith('kw:'):
        return [('keyword', cls[3:])]
    if cls.startswith('de:'):
        return [('delimiter', cls[3:])]
    if cls.startswith('op:'):
        return [('operator', cls[3:])]
    raise core.HarnessError('unknown lexeme class %r' % cls)


def emitted_text(tp, before):
    return str(tp)[len(before):]


def toks(text):
    out = []
    try:
        for t in tokenize.generate_tokens(io.StringIO(text).readline):
            if t.type in (tokenize.NEWLINE, tokenize.NL, tokenize.INDENT, tokenize.DEDENT, tokenize.ENDMARKER, tokenize.COMMENT):
                continue
            out.append(t.string)
    except (tokenize.TokenError, SyntaxError, IndentationError):
        pass        # unbalanced bracket at EOF: the tokens before it were already produced
    return out


def token_pair_violation(a, b, first, second):
    from python_minifier.token_printer import TokenPrinter
    ma, xa = first
    mb, xb = second
    tp = TokenPrinter()
    tp.indent = 1      # so that end_statement emits ';'
    tp.identifier('q')
    tp.delimiter('=')
    s0 = str(tp)
    getattr(tp, ma)(*([xa] if xa is not None else []))
    s1 = str(tp)
    getattr(tp, mb)(*([xb] if xb is not None else []))
    s2 = str(tp)
    la = s1[len(s0):].strip(' ')
    lb = s2[len(s1):].strip(' ')
    if ma in ('newline', 'end_statement') or mb in ('newline', 'end_statement'):
        return None
    text = s2[len(s0):]
    got = toks(text)
    want = toks(la) + toks(lb)
    if got != want:
        return 'TokenPrinter emitted %r for lexemes %r then %r; tokenizer sees %r, expected %r' % (text, la, lb, got, want)
    return None


def finish(total, tier):
    """Drive the real TokenPrinter over every observed class pair x every lexeme variant."""
    pairs = sorted(total.sets.pop('pairs', set()))
    states = set()
    ntrans = 0
    for a, b in pairs:
        states.add(a)
        states.add(b)
        if (a, b) in JOINED_BY_DESIGN or (a.startswith('op:') and b == 'de:='):     # augmented assignment emits <op> then '='
            continue
        for first in lexemes_of(a):
            for second in lexemes_of(b):
                ntrans += 1
                v = token_pair_violation(a, b, first, second)
                if v:
                    total.violation('token-machine:%s->%s' % (a, b), {'class_a': a, 'class_b': b, 'first': list(first), 'second': list(second)}, v)
    total.counters['states'] = len(states)
    total.counters['transitions'] = ntrans
    total.counters['class_pairs_observed'] = len(pairs)
    total.samples.append({'token_machine_pairs': pairs[:12]})
