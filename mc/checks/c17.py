"""C17 — turning a size optimisation on never makes the output longer (real-world modules).

Space: a pinned corpus (corpus/SHA256SUMS): every module of python_minifier at the pinned commit and the first 149 top-level modules of the
CPython 3.12.1 standard library between 2 and 120 KiB, plus 140 small real modules (150 B - 2 KiB: package __init__/__main__ files and tiny modules, where a cost model that is off by a couple of bytes flips the outcome).  For every module x every size option o in {combine_imports, remove_pass,
remove annotations (the three default kinds), remove_object_base, remove_builtin_exception_brackets, remove_explicit_return_none,
convert_posargs_to_args, hoist_literals, rename_locals, rename_globals, constant_folding} x base in {all off, default minus o}:
len(minify(S, base + o)) <= len(minify(S, base)) in characters and in UTF-8 bytes.  The finite space is enumerated completely.
"""
import os

from mc import core, pm

ID = 'C17'
LEVEL = 'exploration'
RULE = ('cases: (corpus module, size option, base option set); complete enumeration of the finite space. Non-trivial: the option changed the output '
        'of that module under that base (the two minified texts differ), counted once per (module, option, base).')
ASSUMPTIONS = ['the corpus is fixed bytes (checksums verified by setup and by each run)', 'modules the minifier cannot process at all belong to C08 and are only counted here']
ANN3 = frozenset(['remove_variable_annotations', 'remove_return_annotations', 'remove_argument_annotations'])
SIZE_OPTIONS = [('combine_imports', frozenset(['combine_imports'])), ('remove_pass', frozenset(['remove_pass'])), ('remove_annotations', ANN3),
                ('remove_object_base', frozenset(['remove_object_base'])), ('remove_builtin_exception_brackets', frozenset(['remove_builtin_exception_brackets'])),
                ('remove_explicit_return_none', frozenset(['remove_explicit_return_none'])), ('convert_posargs_to_args', frozenset(['convert_posargs_to_args'])),
                ('hoist_literals', frozenset(['hoist_literals'])), ('rename_locals', frozenset(['rename_locals'])), ('rename_globals', frozenset(['rename_globals'])),
                ('constant_folding', frozenset(['constant_folding']))]
CORPUS = os.path.join(core.HERE, 'corpus')


def modules(tier):
    out = []
    with open(os.path.join(CORPUS, 'SHA256SUMS')) as f:
        for line in f:
            h, name = line.split()
            out.append((name, h))
    # the whole corpus takes well under a minute on 16 cores, so both tiers enumerate all of it
    return out


def bound(tier):
    return {'modules': len(modules(tier)), 'size_options': len(SIZE_OPTIONS), 'bases': ['all off', 'default minus option']}


def tasks(tier):
    return [('module', name, h) for name, h in modules(tier)]


def run_task(task):
    import hashlib
    res = core.Result()
    _, name, h = task
    with open(os.path.join(CORPUS, name), 'rb') as f:
        data = f.read()
    if hashlib.sha256(data).hexdigest() != h:
        raise core.HarnessError('corpus file %s does not match its checksum' % name)
    cache = {}

    def out(on):
        if on not in cache:
            try:
                cache[on] = pm.minify(data, on)
            except Exception as e:
                cache[on] = e
        return cache[on]
    for oname, oset in SIZE_OPTIONS:
        for bname, base in (('all-off', frozenset()), ('default-minus', pm.DEFAULT_ON - oset)):
            res.count('evaluations')
            a, b = out(base), out(base | oset)
            if isinstance(a, Exception) or isinstance(b, Exception):
                res.count('module_not_processable')
                continue
            if a != b:
                res.count('distinct_nontrivial')
            if len(b) > len(a) or len(b.encode('utf-8')) > len(a.encode('utf-8')):
                res.violation('longer:%s:%s:%s' % (name, oname, bname), {'module': name, 'option': oname, 'base': bname},
                              '%s: enabling %s on base %s: %d -> %d characters (%d -> %d bytes)' % (name, oname, bname, len(a), len(b), len(a.encode('utf-8')), len(b.encode('utf-8'))))
    res.sample({'module': name, 'bytes': len(data)}, 1)
    return res


def replay(case):
    name = case['module']
    with open(os.path.join(CORPUS, name), 'rb') as f:
        data = f.read()
    oset = dict(SIZE_OPTIONS)[case['option']]
    base = frozenset() if case['base'] == 'all-off' else pm.DEFAULT_ON - oset
    a, b = pm.minify(data, base), pm.minify(data, base | oset)
    if len(b) > len(a) or len(b.encode('utf-8')) > len(a.encode('utf-8')):
        return {'signature': 'longer:%s:%s:%s' % (name, case['option'], case['base']), 'detail': '%d -> %d characters' % (len(a), len(b))}
    return None
