"""C12 — minifying never runs code taken from the input.

Space: G_str (every string/bytes over the quoting character classes up to the tier's length) in all 28 literal placements; G_lit operands and
depth-1 arithmetic (what reaches the folder's evaluator); ~70 hand-written payloads (quote / backslash / brace break-outs for every quote
style, \\N{...}, line continuations, NUL, form feed, debug '=' forms, __import__ calls) in every placement; non-literal operands next to
literals.  Options: default, all-on, all-off.
Oracle: a sys.addaudithook recorder scoped to each minify call: every code object executed must be closed (no names, no locals, no free
variables, no nested code) - i.e. a literal expression; no import of anything outside python_minifier, no open / os.* / subprocess.* /
socket.* / ctypes.* event at all (imports are pre-warmed).  Every payload also plants a sentinel that would flip a flag if it ran.
"""
import builtins
import sys

from mc import core, pm
from mc.gen import strs, lits
from mc.oracle import audit

ID = 'C12'
LEVEL = 'exploration'
RULE = ('cases: (source, option set) with source from G_str placements, literal arithmetic, payload x placement. Non-trivial: the minify call executed '
        'at least one code object (an evaluation of a literal candidate really happened and was judged), counted once per distinct (source, options).')
ASSUMPTIONS = ['audit hooks see every exec/compile/import/open of the interpreter (CPython >= 3.8)',
               'imports are pre-warmed by one minify call per option set, so a later import event is attributable to the input']
NPARTS = 48
SENTINEL = []

PAYLOADS = [
    "'+__import__('os').system('echo pwned')+'", '"+__import__("os").system("echo pwned")+"', "\\'+__import__('os').getcwd()+\\'", "'''+sentinel()+'''",
    '"""+sentinel()+"""', "'\\\n+sentinel()+'", "\\", "\\\\", "\\'", '\\"', "'", '"', "'''", '"""', "''''", "'\"'\"", "{sentinel()}", "{{sentinel()}}", "{", "}", "}{",
    "{'+sentinel()+'}", "\n", "\r", "\r\n", "\0", "\x0c", "\\N{BULLET}", "\\x41", "\\u0041", "\\101", "\\\n", "a\\\nb", "#", "'#", "';sentinel();'", '";sentinel();"',
    "\n sentinel()\n", "')\nsentinel()\n('", "%s", "{0}", "${x}", "`sentinel()`", "=", "x=", " = ", "a=}", "!r", ":>{sentinel()}", ":{sentinel()!r}",
    "'\"\\'\\\"", "\\\\'", "\\\\\\'", "\\\\\"", "'\\", "\"\\", "\udc80'", "\udc80\"+sentinel()+\"", "\U0001f600'", "é'", "'*9", "b'", "rb'", "f'", "f'{sentinel()}'", "u'",
    "__import__('os')", "eval('1')", "exec('1')", "lambda: sentinel()", "(sentinel())", "[sentinel() for _ in (1,)]", "1 if sentinel() else 2",
]


# break-outs that end with a comment, so that whatever follows the injected text cannot make the candidate a syntax error
for _q in ('"', "'", '"""', "'''"):
    for _pre in ('', '\\', '\\\\', 'x\\\\\\', '\n', '{', '}'):
        PAYLOADS.append(_pre + _q + '+sentinel()#')
        PAYLOADS.append(_pre + _q + '+sentinel(1)+b' + _q)
        PAYLOADS.append(_pre + _q + ';sentinel()#')
        PAYLOADS.append('\udc80' + _pre + _q + '+sentinel()+' + _q + '{y}')


def sentinel(*args):
    SENTINEL.append(1)
    return ''


def sets():
    return [pm.DEFAULT_ON, pm.ALL_ON, pm.ALL_OFF]


def bound(tier):
    return {'string_len': '3/4' if tier == 'quick' else '4/5', 'payloads': len(PAYLOADS), 'placements': len(strs.STR_PLACEMENTS) + len(strs.BYTES_PLACEMENTS)}


def tasks(tier):
    return [('strs', tier, i, NPARTS) for i in range(NPARTS)] + [('payload', i, 8) for i in range(8)] + [('lits', i, 16) for i in range(16)]


def prewarm():
    for on in sets():
        pm.minify("import a\nx=f'{a!r:>{1}}{b\"x\"}{\"y\"}'+'s'*2\ny=1+2\nmatch x:\n case 1:pass\ntype T=int\n\xe9='\\N{BULLET}'\n", on)
    import unicodedata  # noqa: F401
    builtins.sentinel = sentinel


def check(label, src, res, option_sets):
    for on in option_sets:
        res.count('evaluations')
        v, executed = violation_for(src, on)
        if executed:
            res.count('distinct_nontrivial')
        if v:
            res.violation(v[0] + '|' + label.split(':')[1] if ':' in label else v[0], {'label': label, 'source': src, 'options': sorted(on)}, v[1])


def violation_for(src, on):
    del SENTINEL[:]
    with audit.Recorder() as rec:
        try:
            pm.minify(src, on)
        except Exception:
            pass        # whether it succeeds is C08's business; what ran while trying is ours
    problems = audit.judge(rec.events, allowed_imports=('unicodedata',))      # the parser's own lazy import for \\N{...} / non-ASCII identifiers
    executed = sum(1 for e, _ in rec.events if e == 'exec')
    if SENTINEL:
        problems.insert(0, ('sentinel-executed', 'input content was executed'))
    if problems:
        return (problems[0][0], 'options %s\nsource %r\n%s' % (pm.optkey(on), src, problems[0][1])), executed
    return None, executed


def run_task(task):
    res = core.Result()
    prewarm()
    kind = task[0]
    if kind == 'strs':
        _, tier, part, nparts = task
        for label, src in strs.cases(tier, part, nparts):
            check(label, src, res, sets()[:2] if tier == 'quick' else sets())
            res.sample({'label': label, 'source': src}, 1)
    elif kind == 'payload':
        _, part, nparts = task
        i = 0
        for p in PAYLOADS:
            for name, fn in strs.STR_PLACEMENTS:
                i += 1
                if i % nparts != part:
                    continue
                check('payload:%s:%r' % (name, p), fn(p), res, sets())
                # raw (unescaped) insertion as well: the payload becomes program text next to literals
                check('payload-raw:%s:%r' % (name, p), 'x=' + repr('a') + '+' + repr(p) + '\n' + "y=f'{a}" + p.replace('\n', ' ') + "'", res, sets())
            try:
                b = p.encode('utf-8', 'surrogatepass')
            except Exception:
                continue
            for name, fn in strs.BYTES_PLACEMENTS:
                i += 1
                if i % nparts == part:
                    check('payload-bytes:%s:%r' % (name, p), fn(b), res, sets())
    elif kind == 'lits':
        _, part, nparts = task
        for i, e in enumerate(lits.depth1()):
            if i % nparts == part and i % 4 == 0:
                check('lit:arith', 'x=' + e, res, sets()[:1])
        # non-literal operands next to literals: nothing with a name may ever be evaluated
        for i, e in enumerate(['1+sentinel()', 'sentinel()+1', "'a'*sentinel()", '1 if sentinel() else 2', '(1+2)*sentinel()', 'sentinel()**2', '-sentinel()',
                               '1+(2,sentinel())[0]', "1+int('1')", '1+len("a")', '1+[1][0]', '1+{1:2}[1]', "1+(lambda:1)()", '1+x', '1+x.y', 'True+sentinel()',
                               "f'{sentinel()}'", "f'{1+1}'+'a'", "b'a'+bytes(sentinel())"]):
            if i % nparts == part:
                check('lit:nonliteral', 'x=' + e, res, sets())
        # systematic: every unary/binary shape of depth <= 2 over {literal, call, attribute, name, subscript} leaves with at least one non-literal leaf
        leaves = ['1', '2.5', 'sentinel()', 'sentinel.__name__', 'sentinel', '(sentinel(),1)[1]', "print('x')", 'len((1,2))']
        unary = ['', '-', '+', '~', 'not ']
        operands = [u + l for u in unary for l in leaves]
        n = 0
        for a in operands:
            for b in operands:
                if a.lstrip('-+~not ') in ('1', '2.5') and b.lstrip('-+~not ') in ('1', '2.5'):
                    continue
                for op in lits.BINOPS:
                    n += 1
                    if n % nparts != part:
                        continue
                    e = '%s%s%s' % (a, op, b)
                    check('lit:shape', 'x=' + e, res, sets()[:1])
                    if op == '+':
                        for tmpl in ('x={e}<3', 'x=1<{e}', 'x=0<1<{e}', 'x=0<{e}<9', 'x=1=={e}', 'x={e} is 1', 'x=1 in ({e},)', 'x=1 and {e}', 'x={e} or 1', 'x=not {e}',
                                     'x=1 if {e} else 2', 'x={e} if 1 else 2', 'x=(1,2)[{e}]', 'x=({e},)[0]', "x='%d'%({e})", 'x=[1,2][{e}:]', 'x={{1:2}}[{e}]', "x=f'{{{e}}}'",
                                     "x=f'{{1:{{{e}}}}}'", 'x=1 .__add__({e})', 'x=(1).real+{e}', 'x=-({e})**2', 'x=2**{e}', 'x=divmod(1,{e})'):
                            check('lit:context', tmpl.replace('{e}', '(' + e + ')') if '{{' not in tmpl else tmpl.format(e='(' + e + ')'), res, sets()[:1])
                    if op in ('+', '*', '-'):
                        check('lit:shape', 'x=(%s)%s3' % (e, op), res, sets()[:1])
                        check('lit:shape', 'x=3%s(%s)' % (op, e), res, sets()[:1])
                        check('lit:shape', 'x=-(%s)' % e, res, sets()[:1])
    return res


def replay(case):
    prewarm()
    v, _ = violation_for(case['source'], frozenset(case['options']))
    if v:
        label = case['label']
        return {'signature': v[0] + '|' + label.split(':')[1] if ':' in label else v[0], 'detail': v[1]}
    return None
