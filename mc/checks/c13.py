"""C13 — the command line tool writes exactly what the API would return.

(a) all 2^19 subsets of the boolean flags: the real parse_args + do_minify are run in-process with python_minifier.__main__.minify replaced by
    a recorder; the recorded keyword values must equal the documented flag table (mc/clidrv.py model) for that subset; invalid subsets must
    exit non-zero before the recorder (or any write) is reached.
(b) end-to-end bytes through the real main() with fake streams: every subset within 2 flags of the empty set (quick) / all 2^19 (thorough) x 3
    discriminating sources: stdout bytes == api(model kwargs).encode() subject to the size rule.
(c) preserve-list spellings: every way to split <=3 names over repeated flags and commas, with spaces and empty segments.
(d) validation against the real executable (subprocess): dev(2) vectors, spellings, invalid combinations, --output / stdin modes.
(e) every documented invalid path / output combination (directory or several paths without --in-place, stdin mixed with paths or with
    --in-place, --in-place with --output, contradictory annotation flags, no path): non-zero exit, nothing on stdout, no file created or modified,
    in-process and through the real executable.
(f) several modules in one --in-place run (directory with a sub-directory) with preserve lists and every single flag (and every flag next to
    --rename-globals): each module must equal api(documented kwargs) of its own source - options must not depend on the position in the run.
"""
import itertools
import os
import shutil
import tempfile

from mc import core, pm, clidrv

ID = 'C13'
LEVEL = 'model_checking'
RULE = ('states = flag subsets explored against the documented flag->option table (reference model); transitions = CLI invocations whose recorded '
        'minify() keywords / emitted bytes were compared with the model; traces_validated_against_impl = invocations repeated through the real '
        '`python -m python_minifier` subprocess and compared byte for byte with the in-process driver.')
ASSUMPTIONS = ['the flag table in mc/clidrv.py is the reading of the documentation', 'in-process main() with fake streams behaves like the executable (validated by (d))']

SOURCES = [
    # every one of the 19 options changes the output of this module in its own way
    b'''#!/usr/bin/env python
"""docstring"""
import os
import sys
from typing import NamedTuple
def long_function_name(argument_one: int, argument_two: str = 'default value', /, *args: int, keyword_only: bool = None) -> int:
    local_variable: int = argument_one
    other_local: str
    pass
    'literal statement'
    assert argument_one, 'message'
    if __debug__:
        print('debug')
    if argument_two is None:
        raise ValueError()
    result = [len(argument_two), len(argument_two), 'default value', 'default value', 60 * 60]
    return None
class Thing(object):
    attribute: int = 1
    def method(self):
        return None
module_global = long_function_name(1, 'default value')
print(module_global, Thing.attribute, module_global)
''',
    b"import a\nimport b\nx=1+2\nclass C(object):pass\ndef f(p,/):\n  pass\n  return None\n",
    b"def g(value_name:int)->int:\n  assert value_name\n  if __debug__:print(1)\n  raise TypeError()\n'x'\ny:int=3\nclass D:\n  z:int=4\n",
    # the size rule is about BYTES: in latin-1 this module is shorter than its minified form encoded as UTF-8, although the minified text has
    # fewer characters than the source has bytes (the untouched original must come out)
    b"# -*- coding: latin-1 -*-\nx='" + b'\xe9' * 30 + b"'\n",
    # ... and a UTF-8 module that only shrinks by a hair, so that every flag decides on which side of the rule it falls
    "def f(a):\n return a if 0 in a else'\u00e9\u00e9\u00e9'\n".encode('utf-8'),
]


def bound(tier):
    return {'flag_subsets_kwargs': 2 ** 19, 'flag_subsets_bytes': 191 if tier == 'quick' else 2 ** 19, 'sources': len(SOURCES), 'preserve_names': 3}


def tasks(tier):
    t = [('kwargs', i, 64) for i in range(64)]
    if tier == 'quick':
        t += [('bytes', 'dev2', i, 8) for i in range(8)]
    else:
        t += [('bytes', 'all', i, 128) for i in range(128)]
    t += [('spellings', i, 4) for i in range(4)]
    t += [('subprocess', i, 16) for i in range(16)]
    t += [('validity',)]
    t += [('multifile', i, 4) for i in range(4)]
    return t


class Recorder(object):
    def __init__(self):
        self.calls = []

    def __call__(self, source, **kw):
        self.calls.append(kw)
        return 'x'


def kwargs_violation(flags):
    rec = Recorder()
    real = clidrv.M.minify
    clidrv.M.minify = rec
    try:
        o = clidrv.run(flags + ['-'], stdin=b'x=1\n', force_env='1')
    finally:
        clidrv.M.minify = real
    status, on = clidrv.model(flags)
    if status == 'invalid':
        if o.exit == 0 or rec.calls or o.out_bytes:
            return ('invalid-combination-accepted', 'flags %s: exit=%r calls=%d wrote=%r' % (flags, o.exit, len(rec.calls), o.out_bytes))
        return None
    if o.exit != 0 or len(rec.calls) != 1:
        return ('valid-combination-rejected', 'flags %s: %r' % (flags, o))
    kw = rec.calls[0]
    want = pm.kwargs(on)
    for name, _ in pm.PLAIN:
        if kw.get(name) is not want[name]:
            return ('option-%s-wrong' % name, 'flags %s: minify called with %s=%r, documented meaning %r' % (flags, name, kw.get(name), want[name]))
    ra = kw.get('remove_annotations')
    for name, _ in pm.ANN:
        got = getattr(ra, name, None) if not isinstance(ra, bool) else ra
        if got is not getattr(want['remove_annotations'], name):
            return ('option-%s-wrong' % name, 'flags %s: remove_annotations.%s=%r, documented %r' % (flags, name, got, getattr(want['remove_annotations'], name)))
    if kw.get('preserve_locals') not in (None, []) or kw.get('preserve_globals') not in (None, []):
        return ('preserve-list-invented', 'flags %s: %r %r' % (flags, kw.get('preserve_locals'), kw.get('preserve_globals')))
    extra = set(kw) - set(want) - {'filename', 'preserve_locals', 'preserve_globals'}
    if extra:
        return ('unknown-keyword', repr(extra))
    return None


def expected_bytes(src, on, **kw):
    out = pm.minify(src, on, **kw).encode('utf-8')
    return out if len(out) <= len(src) else src


def bytes_violation(flags, src, extra_args=(), extra_kw=None):
    o = clidrv.run(list(flags) + list(extra_args) + ['-'], stdin=src)
    status, on = clidrv.model(flags)
    if status == 'invalid':
        if o.exit == 0 or o.out_bytes:
            return ('invalid-combination-accepted', 'flags %s: %r' % (flags, o))
        return None
    want = expected_bytes(src, on, **(extra_kw or {}))
    if o.exit != 0:
        return ('cli-failed', 'flags %s %s: %r' % (flags, extra_args, o))
    if o.out_bytes != want:
        return ('bytes-differ', 'flags %s %s\ncli: %r\napi: %r' % (flags, extra_args, o.out_bytes[:600], want[:600]))
    return None


def spellings(names):
    """every way to write the list `names` as repeated flag values with commas, spaces and empty segments"""
    out = set()
    n = len(names)
    # partitions of the sequence into consecutive groups (each group = one flag occurrence)
    for cuts in itertools.product([0, 1], repeat=max(0, n - 1)):
        groups, cur = [], [names[0]] if names else []
        for i, c in enumerate(cuts):
            if c:
                groups.append(cur)
                cur = [names[i + 1]]
            else:
                cur.append(names[i + 1])
        if cur:
            groups.append(cur)
        for style in (',', ', ', ' ,', ',,'):
            for lead in ('', ',', ' '):
                for trail in ('', ',', ' '):
                    out.add(tuple(lead + style.join(g) + trail for g in groups))
    return sorted(out)


PRESERVE_SRC = b'''def function_one(argument_name):
    first_local = argument_name
    second_local = first_local + 1
    third_local = second_local + first_local
    return first_local + second_local + third_local
global_one = function_one(1)
global_two = global_one + global_one
global_three = global_two + global_one + global_two
print(global_one, global_two, global_three)
'''


def run_task(task):
    res = core.Result()
    kind = task[0]
    if kind == 'kwargs':
        _, part, nparts = task
        for i in range(part, 2 ** 19, nparts):
            flags = clidrv.flags_from_index(i)
            res.count('evaluations')
            res.count('states')
            res.count('transitions')
            res.count('distinct_nontrivial')
            v = kwargs_violation(flags)
            if v:
                res.violation(v[0], {'kind': 'kwargs', 'flags': flags}, v[1])
            if i < 3:
                res.sample({'flags': flags, 'model': sorted(clidrv.model(flags)[1] or [])}, 3)
    elif kind == 'bytes':
        _, mode, part, nparts = task
        if mode == 'dev2':
            idx = [sum(1 << b for b in c) for k in range(3) for c in itertools.combinations(range(19), k)]
        else:
            idx = range(2 ** 19)
        for n, i in enumerate(idx):
            if n % nparts != part:
                continue
            flags = clidrv.flags_from_index(i)
            for s, src in enumerate(SOURCES):
                res.count('evaluations')
                res.count('transitions')
                res.count('distinct_nontrivial')
                v = bytes_violation(flags, src)
                if v:
                    res.violation(v[0] + ':' + '+'.join(sorted(flags))[:120], {'kind': 'bytes', 'flags': flags, 'source': s}, v[1])
    elif kind == 'spellings':
        _, part, nparts = task
        locals_ = ['first_local', 'second_local', 'third_local']
        globals_ = ['global_one', 'global_two', 'global_three']
        n = 0
        for k in (1, 2, 3):
            for which, names, flag, kwname, base in (('locals', locals_[:k], '--preserve-locals', 'preserve_locals', []),
                                                     ('globals', globals_[:k], '--preserve-globals', 'preserve_globals', ['--rename-globals'])):
                for sp in spellings(names):
                    n += 1
                    if n % nparts != part:
                        continue
                    args = []
                    for val in sp:
                        args += [flag, val]
                    res.count('evaluations')
                    res.count('transitions')
                    res.count('distinct_nontrivial')
                    v = bytes_violation(base, PRESERVE_SRC, args, {kwname: list(names)})
                    if v:
                        res.violation(v[0] + ':spelling:' + which, {'kind': 'spelling', 'flags': base, 'args': args, 'names': names, 'kw': kwname}, v[1])
                    res.sample({'spelling': args}, 1)
    elif kind == 'multifile':
        _, part, nparts = task
        scratch = tempfile.mkdtemp(prefix='verif-c13m-', dir=os.environ.get('VERIF_SCRATCH', '/var/tmp'))
        try:
            vectors = [[]] + [[f] for f in clidrv.ALL_FLAGS] + [['--rename-globals', f] for f in clidrv.ALL_FLAGS if f != '--rename-globals']
            for i, flags in enumerate(vectors):
                if i % nparts != part:
                    continue
                for rname, runner in (('inprocess', clidrv.run),) + ((('subprocess', clidrv.run_subprocess),) if i % 6 == 0 else ()):
                    res.count('evaluations')
                    res.count('transitions', len(MULTI_SOURCES))
                    res.count('distinct_nontrivial')
                    if rname == 'subprocess':
                        res.count('traces_validated_against_impl')
                    v = multifile_violation(flags, scratch, runner)
                    if v:
                        res.violation(v[0], {'kind': 'multifile', 'flags': flags, 'runner': rname}, v[1])
        finally:
            shutil.rmtree(scratch, ignore_errors=True)
    elif kind == 'validity':
        scratch = tempfile.mkdtemp(prefix='verif-c13v-', dir=os.environ.get('VERIF_SCRATCH', '/var/tmp'))
        try:
            for i, (argv, why) in enumerate(validity_cases(scratch)):
                for rname, runner in (('inprocess', clidrv.run), ('subprocess', clidrv.run_subprocess)):
                    res.count('evaluations')
                    res.count('transitions')
                    res.count('distinct_nontrivial')
                    if rname == 'subprocess':
                        res.count('traces_validated_against_impl')
                    v = validity_violation(argv, why, scratch, runner)
                    if v:
                        res.violation(v[0], {'kind': 'validity', 'index': i, 'runner': rname}, v[1])
        finally:
            shutil.rmtree(scratch, ignore_errors=True)
    elif kind == 'subprocess':
        _, part, nparts = task
        scratch = tempfile.mkdtemp(prefix='verif-c13-', dir=os.environ.get('VERIF_SCRATCH', '/var/tmp'))
        try:
            vectors = [clidrv.flags_from_index(sum(1 << b for b in c)) for k in range(3) for c in itertools.combinations(range(19), k)]
            n = 0
            for flags in vectors:
                n += 1
                if n % nparts != part:
                    continue
                src = SOURCES[n % len(SOURCES)]
                mode = n % 3
                res.count('evaluations')
                res.count('traces_validated_against_impl')
                res.count('distinct_nontrivial')
                v = subprocess_violation(flags, src, mode, scratch)
                if v:
                    res.violation(v[0], {'kind': 'subprocess', 'flags': flags, 'source': n % len(SOURCES), 'mode': mode}, v[1])
        finally:
            shutil.rmtree(scratch, ignore_errors=True)
    return res


def validity_cases(root):
    """(argv, why) for every documented invalid path/output combination, over a real directory with two modules and a file"""
    d = os.path.join(root, 'pkg')
    f1, f2 = os.path.join(d, 'a_mod.py'), os.path.join(d, 'b_mod.py')
    single = os.path.join(root, 'single.py')
    outp = os.path.join(root, 'result.out')
    return [
        ([d], 'directory without --in-place'),
        ([d, '--output', outp], 'directory with --output'),
        ([f1, f2], 'two files without --in-place'),
        ([f1, f2, '--output', outp], 'two files with --output'),
        ([single, d], 'file and directory without --in-place'),
        (['-', single], 'stdin together with a path'),
        ([single, '-'], 'a path together with stdin'),
        (['-', '--in-place'], 'stdin with --in-place'),
        ([single, '-', '--in-place'], 'stdin after a path with --in-place'),
        ([f1, f2, '-', '--in-place'], 'stdin after two paths with --in-place'),
        (['-', single, '--in-place'], 'stdin before a path with --in-place'),
        ([f1, '-', f2, '--in-place'], 'stdin between two paths with --in-place'),
        ([single, '--in-place', '--output', outp], '--in-place together with --output'),
        ([single, '--remove-class-attribute-annotations', '--no-remove-annotations'], 'class attribute annotations with --no-remove-annotations'),
        ([d, '--in-place', '--remove-class-attribute-annotations', '--no-remove-annotations'], 'invalid annotation flags on a directory'),
        ([], 'no path at all'),
    ]


def validity_violation(argv, why, root, runner):
    import shutil as _sh
    for name in os.listdir(root):
        p = os.path.join(root, name)
        _sh.rmtree(p) if os.path.isdir(p) else os.unlink(p)
    os.makedirs(os.path.join(root, 'pkg'))
    files = {}
    for rel in ('pkg/a_mod.py', 'pkg/b_mod.py', 'single.py'):
        with open(os.path.join(root, rel), 'wb') as f:
            f.write(SOURCES[1])
        files[rel] = SOURCES[1]
    o = runner(argv, stdin=SOURCES[1])
    problems = []
    if o.exit == 0:
        problems.append('exit status 0')
    if o.out_bytes:
        problems.append('wrote %d bytes to stdout' % len(o.out_bytes))
    if os.path.exists(os.path.join(root, 'result.out')):
        problems.append('created the --output file')
    for rel, data in files.items():
        with open(os.path.join(root, rel), 'rb') as f:
            if f.read() != data:
                problems.append('modified %s' % rel)
    extra = sorted(set(os.listdir(root)) - {'pkg', 'single.py', 'result.out'}) + sorted(set(os.listdir(os.path.join(root, 'pkg'))) - {'a_mod.py', 'b_mod.py'})
    if extra:
        problems.append('created %s' % extra)
    if problems:
        return ('invalid-invocation-not-rejected-cleanly:' + why.replace(' ', '-'), 'argv %s (%s): %s\n%r' % (argv, why, '; '.join(problems), o))
    return None


MULTI_SOURCES = [PRESERVE_SRC, PRESERVE_SRC.replace(b'first_local', b'first_local').replace(b'function_one', b'function_two'), SOURCES[0], PRESERVE_SRC + b'extra_global = global_one\nprint(extra_global, extra_global)\n']


def multifile_violation(flags, scratch, runner):
    """every module of one --in-place run over a directory must get the same options: the i-th file equals api(kwargs)(its own source)"""
    import shutil as _sh
    d = os.path.join(scratch, 'multi')
    if os.path.exists(d):
        _sh.rmtree(d)
    os.makedirs(os.path.join(d, 'sub'))
    paths = []
    for i, src in enumerate(MULTI_SOURCES):
        p = os.path.join(d, 'sub' if i == 2 else '', 'm%d_mod.py' % i)
        with open(p, 'wb') as f:
            f.write(src)
        paths.append(p)
    args = list(flags) + ['--preserve-locals', 'first_local, second_local', '--preserve-globals', 'global_one', '--preserve-globals', 'global_two,', d, '--in-place']
    o = runner(args, stdin=b'')
    status, on = clidrv.model(flags)
    if status == 'invalid':
        return None
    if o.exit != 0:
        return ('multifile-run-failed', 'args %s: %r' % (args, o))
    for i, (p, src) in enumerate(zip(paths, MULTI_SOURCES)):
        want = expected_bytes(src, on, preserve_locals=['first_local', 'second_local'], preserve_globals=['global_one', 'global_two'])
        with open(p, 'rb') as f:
            got = f.read()
        if got != want:
            return ('multifile-module-%d-differs' % i, 'args %s\nfile #%d of the run %s\ncli: %r\napi: %r' % (args, i, os.path.basename(p), got[:500], want[:500]))
    return None


def subprocess_violation(flags, src, mode, scratch):
    """mode 0: stdin->stdout, 1: file->stdout, 2: file->--output"""
    path = os.path.join(scratch, 'in.py')
    outp = os.path.join(scratch, 'out.py')
    with open(path, 'wb') as f:
        f.write(src)
    if os.path.exists(outp):
        os.unlink(outp)
    if mode == 0:
        args, stdin = list(flags) + ['-'], src
    elif mode == 1:
        args, stdin = list(flags) + [path], b''
    else:
        args, stdin = list(flags) + [path, '--output', outp], b''
    real = clidrv.run_subprocess(args, stdin)
    real_written = open(outp, 'rb').read() if os.path.exists(outp) else None
    if os.path.exists(outp):
        os.unlink(outp)
    mine = clidrv.run(args, stdin)
    mine_written = open(outp, 'rb').read() if os.path.exists(outp) else None
    if (real.exit != 0) != (mine.exit != 0) or real.out_bytes != (mine.out_bytes + mine.out_text.encode()) or real_written != mine_written:
        return ('driver-disagrees-with-executable', 'args %s\nreal: %r %r\nin-process: %r %r' % (args, real, real_written, mine, mine_written))
    status, on = clidrv.model(flags)
    if status == 'invalid':
        if real.exit == 0 or real.out_bytes or real_written is not None:
            return ('invalid-combination-accepted', 'args %s: %r written=%r' % (args, real, real_written))
        return None
    want = expected_bytes(src, on)
    got = real_written if mode == 2 else real.out_bytes
    if mode == 2:
        # in --output mode the path is listed on stdout
        pass
    if real.exit != 0 or got != want:
        return ('bytes-differ-subprocess', 'args %s\nexe: %r %r\napi: %r' % (args, real, got and got[:300], want[:300]))
    return None


def replay(case):
    k = case['kind']
    if k == 'kwargs':
        v = kwargs_violation(case['flags'])
        return v and {'signature': v[0], 'detail': v[1]}
    if k == 'bytes':
        v = bytes_violation(case['flags'], SOURCES[case['source']])
        return v and {'signature': v[0] + ':' + '+'.join(sorted(case['flags']))[:120], 'detail': v[1]}
    if k == 'spelling':
        v = bytes_violation(case['flags'], PRESERVE_SRC, case['args'], {case['kw']: list(case['names'])})
        return v and {'signature': v[0] + ':spelling:' + ('locals' if 'locals' in case['kw'] else 'globals'), 'detail': v[1]}
    if k == 'multifile':
        scratch = tempfile.mkdtemp(prefix='verif-c13m-', dir=os.environ.get('VERIF_SCRATCH', '/var/tmp'))
        try:
            v = multifile_violation(case['flags'], scratch, clidrv.run if case['runner'] == 'inprocess' else clidrv.run_subprocess)
        finally:
            shutil.rmtree(scratch, ignore_errors=True)
        return v and {'signature': v[0], 'detail': v[1]}
    if k == 'validity':
        scratch = tempfile.mkdtemp(prefix='verif-c13v-', dir=os.environ.get('VERIF_SCRATCH', '/var/tmp'))
        try:
            argv, why = validity_cases(scratch)[case['index']]
            v = validity_violation(argv, why, scratch, clidrv.run if case['runner'] == 'inprocess' else clidrv.run_subprocess)
        finally:
            shutil.rmtree(scratch, ignore_errors=True)
        return v and {'signature': v[0], 'detail': v[1]}
    if k == 'subprocess':
        scratch = tempfile.mkdtemp(prefix='verif-c13-', dir=os.environ.get('VERIF_SCRATCH', '/var/tmp'))
        try:
            v = subprocess_violation(case['flags'], SOURCES[case['source']], case['mode'], scratch)
        finally:
            shutil.rmtree(scratch, ignore_errors=True)
        return v and {'signature': v[0], 'detail': v[1]}
    return None


def finish(total, tier):
    total.counters['states'] = total.counters.get('states', 0)
    total.counters.setdefault('traces_validated_against_impl', 0)
