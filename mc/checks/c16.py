"""C16 — shebang, source encoding and line endings are handled faithfully.

Space: 32 programs whose meaning lives in their constants (non-ASCII text, escapes, bytes, non-ASCII identifiers, f-strings, multi-line strings
containing every newline convention) x source encoding {UTF-8, UTF-8 BOM, cookie latin-1 / cp1252 / shift_jis / utf-8 on line 1 or 2}
x newline {LF, CRLF, CR, mixed, no final newline} x shebang {none, plain, trailing blanks, non-ASCII bytes valid in the declared encoding,
'#!' alone, on line 2, after a BOM} x input type {bytes, str} x preserve_shebang {on, off} x {all transforms off, default};
the same through the command line (file and stdin).
Oracle: (1) all transforms off: the result parses to a tree strictly identical to the interpreter's own parse of the encoded source; default:
the result behaves like the original; (2) first-line rule on universal-newline line content: if the decoded source's first line starts with
'#!' and preservation is on, the output's first line has exactly that content and the remainder is the minified module, otherwise the output
does not start with '#!'; (3) minify(bytes) == minify(decoded text); (4) command-line bytes decode as UTF-8 and satisfy (1)-(2).
Sources the interpreter itself rejects (cookie contradicting a BOM, undecodable bytes) must raise the same exception class as ast.parse.
"""
import ast
import codecs
import io
import tokenize

from mc import core, pm, clidrv
from mc.oracle import strict_ast, observe

ID = 'C16'
LEVEL = 'exploration'
RULE = ('cases: (program, encoding, newline, shebang, input type, preserve_shebang, option base). Non-trivial: the interpreter accepts the encoded '
        'source (so the faithful-result side is exercised); rejected combinations exercise the same-exception side. Distinct by the tuple.')
ASSUMPTIONS = ['the interpreter\'s own ast.parse / compile of the encoded bytes is the reference meaning of a source']
NPARTS = 32

PROGRAMS = [
    "x = 'plain'\nprint(x)\n",
    "x = 'h\u00e9llo w\u00f6rld'\nprint(x)\n",
    "x = '\u00e9'\ny = b'\\xe9'\nprint(x, y)\n",
    "\u00e9t\u00e9 = 1\nprint(\u00e9t\u00e9)\n",
    "x = 'a\\nb\\rc\\r\\nd'\nprint(repr(x))\n",
    "x = '''line1\nline2\nline3'''\nprint(repr(x))\n",
    "x = \"\"\"a\n\nb\"\"\"\nprint(repr(x))\n",
    "x = f'{1}\u00e9{2!r}'\nprint(x)\n",
    "x = '\\u00e9\\xe9\\N{LATIN SMALL LETTER E WITH ACUTE}'\nprint(x)\n",
    "x = b'bytes \\xff\\x00'\nprint(x)\n",
    "def f():\n    '''doc\u00e9'''\n    return f.__doc__\nprint(f())\n",
    "# comment \u00e9\nx = 1 # trailing \u00e9\nprint(x)\n",
    "x = ('a'\n     'b')\nprint(x)\n",
    "if True:\n    x = 1\nelse:\n    x = 2\nprint(x)\n",
    "x = [\n    1,\n    2,\n]\nprint(x)\n",
    "x = 'tab\\there'\nprint(x)\n",
    "class C:\n    a = '\u00fc'\nprint(C.a)\n",
    "x = '\u00a3\u00a5'\nprint(len(x))\n",
    "x = 1\\\n  + 2\nprint(x)\n",
    "print('#! not a shebang')\n",
    "#!not first line\nprint(1)\n".replace('#!not first line\n', '\n#!second line\n'),
    "x='a' ; y='b'\nprint(x+y)\n",
    "s = '''\n#!/bin/sh in string\n'''\nprint(repr(s))\n",
    "print(1)",
    "",
    "\n\n\n",
    "# only a comment\n",
    "pass\n",
    "x = '\\\\'\nprint(x)\n",
    "x = r'\\d+\u00e9'\nprint(x)\n",
    "x = b'ascii only'\nprint(x)\n",
    "x = '\\x00\\x7f\\x80'\nprint(repr(x))\n",
]
ENCODINGS = [('utf-8', '', False), ('utf-8', '', True), ('latin-1', '# -*- coding: latin-1 -*-', False), ('cp1252', '# coding: cp1252', False),
             ('shift_jis', '# coding=shift_jis', False), ('utf-8', '# coding: utf-8', False), ('utf-8', '# coding: utf-8', True),
             ('latin-1', '# coding: latin-1', True),        # contradicts its BOM: the interpreter rejects it
             ('utf-8', '# coding: no-such-codec', False),   # unknown codec: rejected
             ('latin-1', '# coding: utf-8', False),         # bytes that are not valid in the declared encoding: rejected when non-ASCII is present
             # a cookie the interpreter ignores because it comes too late: on line 3 when a shebang precedes these lines (and on line 2 - where it
             # counts - when none does); the same with an unknown codec name
             ('utf-8', '#\n# coding: latin-1', False), ('utf-8', '#\n# coding: no-such-codec', False), ('utf-8', '\n\n# coding: latin-1', False)]
NEWLINES = ['\n', '\r\n', '\r', 'mixed', 'nofinal']
SHEBANGS = [None, '#!/usr/bin/env python', '#!/usr/bin/env python  \t', '#!/usr/bin/\u00e9nv python', '#!', '#! /bin/sh -x',
            # characters that str.splitlines() treats as line boundaries but the interpreter does not
            '#!/bin/sh\x0cformfeed', '#!/bin/sh\x0bvtab', '#!/bin/sh\x1cfs\x1dgs\x1ers', '#!/bin/sh\x85nel', '#!/bin/sh\u2028ls\u2029ps',
            # a shebang line that is itself the PEP 263 coding line (rendered without a separate cookie line, in the encoding it declares)
            '#!/usr/bin/python # -*- coding: latin-1 -*-', '#!python coding=utf-8']
SHEBANG_CODING = {'#!/usr/bin/python # -*- coding: latin-1 -*-': 'latin-1', '#!python coding=utf-8': 'utf-8'}


def render(prog, enc, cookie, bom, nl, shebang):
    """returns (bytes, text) of the encoded source, or None when not encodable"""
    lines = []
    if shebang in SHEBANG_CODING:
        if cookie or bom or enc != 'utf-8':
            return None         # only rendered once per (program, newline): the shebang line decides the encoding
        enc = SHEBANG_CODING[shebang]
    if shebang is not None:
        lines.append(shebang)
    if cookie:
        lines.append(cookie)
    text = ''.join(l + '\n' for l in lines) + prog
    if nl == 'mixed':
        parts = text.split('\n')
        seps = ['\r\n', '\n', '\r']
        text = ''.join(p + (seps[i % 3] if i < len(parts) - 1 else '') for i, p in enumerate(parts))
    elif nl == 'nofinal':
        text = text.rstrip('\n')
    else:
        text = text.replace('\n', nl)
    try:
        data = text.encode(enc)
    except UnicodeEncodeError:
        return None
    if bom:
        data = codecs.BOM_UTF8 + data
    return data, text


def decode_like_interpreter(data, errors='strict'):
    """PEP 263 (written here independently: tokenize.detect_encoding is stricter than the real parser about the first line)"""
    import re
    if data.startswith(codecs.BOM_UTF8):
        return data[3:].decode('utf-8', errors)
    enc = 'utf-8'
    lines = re.split(b'\r\n|\r|\n', data)[:2]
    for n, line in enumerate(lines):
        m = re.match(br'^[ \t\f]*#.*?coding[:=][ \t]*([-\w.]+)', line)
        if m:
            enc = m.group(1).decode('ascii')
            break
        if not re.match(br'^[ \t\f]*(?:#.*)?$', line):
            break
    return data.decode(enc, errors)


def first_line_content(text):
    """first line without its terminator, universal newlines"""
    for i, c in enumerate(text):
        if c in '\r\n':
            return text[:i], text[i + 2:] if text[i:i + 2] == '\r\n' else text[i + 1:]
    return text, ''


def violation_for(data, text, as_bytes, preserve, base_on, via_cli=None):
    on = set(base_on)
    (on.add if preserve else on.discard)('preserve_shebang')
    on = frozenset(on)
    src = data if as_bytes else None
    # reference: the interpreter's own reading of the bytes
    try:
        ref_tree = ast.parse(data)
        ref_exc = None
    except (SyntaxError, ValueError) as e:
        ref_tree = None
        ref_exc = type(e)
    if not as_bytes:
        if ref_exc is not None:
            return None, 'rejected'
        try:
            src = decode_like_interpreter(data)
        except Exception:
            return None, 'rejected'
        if src.startswith('\ufeff'):
            src = src[1:]
    ctx = 'source %r (%s) preserve_shebang=%s options=%s%s' % (data[:160], 'bytes' if as_bytes else 'str', preserve, 'all-off' if not base_on else 'default',
                                                             ' via ' + via_cli if via_cli else '')
    if via_cli:
        flags = [] if preserve else ['--no-preserve-shebang']
        if not base_on:
            flags += [f for f, kw, val in clidrv.PLAIN_FLAGS if (kw in pm.DEFAULT_ON) != (kw in on) and kw != 'preserve_shebang'] + ['--no-remove-annotations']
        if via_cli == 'file':
            import os
            import tempfile
            fd, path = tempfile.mkstemp(prefix='verif-c16-', suffix='.py', dir=os.environ.get('VERIF_SCRATCH', '/var/tmp'))
            try:
                with os.fdopen(fd, 'wb') as f:
                    f.write(data)
                o = clidrv.run(flags + [path], stdin=b'', force_env='1')
            finally:
                os.unlink(path)
        else:
            o = clidrv.run(flags + ['-'], stdin=data, force_env='1')
        if ref_exc is not None:
            if o.exit == 0:
                return ('rejected-source-accepted', ctx + '\n%r' % o), 'rejected'
            return None, 'rejected'
        if o.exit != 0:
            return ('cli-failed:%s' % o.exc, ctx + '\n%r' % o), 'accepted'
        try:
            out = o.out_bytes.decode('utf-8')
        except UnicodeDecodeError as e:
            return ('cli-output-not-utf8', ctx + '\n%r' % e), 'accepted'
    else:
        try:
            out = pm.minify(src, on)
        except Exception as e:
            if ref_exc is not None and isinstance(e, ref_exc):
                return None, 'rejected'
            if ref_exc is not None:
                return ('wrong-exception:%s' % type(e).__name__, ctx + '\nast.parse raises %s, minify raised %r' % (ref_exc.__name__, e)), 'rejected'
            return ('raises:%s' % type(e).__name__, ctx + '\n%r' % e), 'accepted'
        if ref_exc is not None:
            return ('rejected-source-accepted', ctx), 'rejected'
    # (2) first-line rule
    try:
        decoded = decode_like_interpreter(data)
    except Exception:
        # bytes that are not valid in the declared encoding (the interpreter does not validate comment lines, so such a source can still be
        # accepted): no text can reproduce them exactly, the rule is stated on the replacement-character decoding of the first line
        try:
            decoded = decode_like_interpreter(data, 'replace')
        except Exception:
            decoded = text
    if decoded.startswith('\ufeff'):
        decoded = decoded[1:]
    first, _ = first_line_content(decoded)
    ofirst, orest = first_line_content(out)
    if first.startswith('#!') and preserve:
        if ofirst != first:
            return ('shebang-not-reproduced', ctx + '\nfirst line of source %r\nfirst line of output %r\noutput %r' % (first, ofirst, out[:200])), 'accepted'
        body = orest
    else:
        if out.startswith('#!'):
            return ('shebang-present', ctx + '\noutput %r' % out[:200]), 'accepted'
        body = out
    # (1) same program: the result *encoded as UTF-8* is what the interpreter will read (so a coding cookie that survives in the output counts)
    try:
        out_bytes = out.encode('utf-8')
    except UnicodeEncodeError:
        out_bytes = out         # lone surrogates in a literal: not encodable at all, compare the text
    try:
        tout = ast.parse(out_bytes)
    except (SyntaxError, ValueError) as e:
        return ('output-unparseable', ctx + '\n%r\n%r' % (out[:300], e)), 'accepted'
    if not base_on:
        d = strict_ast.diff(ref_tree, tout)
        if d:
            return ('tree-differs', ctx + '\noutput %r\n%s' % (out[:300], d)), 'accepted'
        if first.startswith('#!') and preserve:
            # the remainder after the shebang line must be the whole minified module on its own
            try:
                d2 = strict_ast.diff(ref_tree, ast.parse(body))
            except (SyntaxError, ValueError) as e:
                d2 = repr(e)
            if d2:
                return ('shebang-swallowed-code', ctx + '\noutput %r\n%s' % (out[:300], d2)), 'accepted'
    else:
        a = observe.run(compile(data, '<src>', 'exec', dont_inherit=True))
        b = observe.run(compile(out_bytes, '<out>', 'exec', dont_inherit=True))
        dd = observe.same(a, b)
        if dd:
            return ('behaviour-differs', ctx + '\noutput %r\n%s' % (out[:300], dd)), 'accepted'
    # (3) bytes and text agree
    if as_bytes and not via_cli:
        try:
            try:
                t = decode_like_interpreter(data)
            except (UnicodeDecodeError, LookupError):
                return None, 'accepted'     # no text form of these bytes exists (undecodable bytes in a comment line): nothing to compare with
            if t.startswith('\ufeff'):
                t = t[1:]
            try:
                ast.parse(t)
            except (SyntaxError, ValueError):
                return None, 'accepted'     # the interpreter itself rejects this text (e.g. a non-UTF-8 cookie in a str with non-ASCII characters)
            out_t = pm.minify(t, on)
            if out_t != out:
                return ('bytes-and-text-differ', ctx + '\nbytes -> %r\ntext  -> %r' % (out[:300], out_t[:300])), 'accepted'
        except Exception as e:
            return ('text-raises:%s' % type(e).__name__, ctx + '\n%r' % e), 'accepted'
    return None, 'accepted'


def bound(tier):
    return {'programs': len(PROGRAMS), 'encodings': len(ENCODINGS), 'newlines': NEWLINES, 'shebangs': len(SHEBANGS)}


def tasks(tier):
    return [('api', tier, i, NPARTS) for i in range(NPARTS)] + [('cli', tier, i, 16) for i in range(16)]


def cases():
    for pi, prog in enumerate(PROGRAMS):
        for ei, (enc, cookie, bom) in enumerate(ENCODINGS):
            for nl in NEWLINES:
                for si, sb in enumerate(SHEBANGS):
                    r = render(prog, enc, cookie, bom, nl, sb)
                    if r is None:
                        continue
                    yield (pi, ei, nl, si), r[0], r[1]


def run_task(task):
    res = core.Result()
    kind, tier, part, nparts = task
    bases = [frozenset(), pm.DEFAULT_ON]
    for i, (key, data, text) in enumerate(cases()):
        if i % nparts != part:
            continue
        if kind == 'api':
            for as_bytes in (True, False):
                for preserve in (True, False):
                    for base in bases:
                        one(res, key, data, text, as_bytes, preserve, base, None)
        else:
            if tier == 'quick' and i % 3:
                continue
            for preserve in (True, False):
                for base in bases:
                    one(res, key, data, text, True, preserve, base, 'stdin')
                    if base:
                        one(res, key, data, text, True, preserve, base, 'file')
        res.sample({'source': repr(data[:120])}, 1)
    return res


def one(res, key, data, text, as_bytes, preserve, base, via):
    res.count('evaluations')
    v, cls = violation_for(data, text, as_bytes, preserve, base, via)
    res.count('class_' + cls)
    res.count('distinct_nontrivial')
    if v:
        sig = signature(v[0], key, as_bytes, via)
        res.violation(sig, {'data': data.decode('latin-1'), 'text': text, 'as_bytes': as_bytes, 'preserve': preserve, 'default': bool(base), 'via': via, 'key': list(key)}, v[1])


def signature(kind, key, as_bytes, via):
    pi, ei, nl, si = key
    if SHEBANGS[si] in SHEBANG_CODING:
        # one signature per discrepancy kind: newline convention, input type and route do not matter for this shape
        return '%s|shebang-line-is-coding-line:%s' % (kind, SHEBANG_CODING[SHEBANGS[si]])
    return '%s|enc=%s nl=%s shebang=%s %s%s' % (kind, ENCODINGS[ei][0] + ('+bom' if ENCODINGS[ei][2] else '') + ('+cookie' if ENCODINGS[ei][1] else ''), repr(nl),
                                              si, 'bytes' if as_bytes else 'str', ' cli' if via else '')


def replay(case):
    data = case['data'].encode('latin-1')
    v, cls = violation_for(data, case['text'], case['as_bytes'], case['preserve'], pm.DEFAULT_ON if case['default'] else frozenset(), case['via'])
    if v:
        return {'signature': signature(v[0], case['key'], case['as_bytes'], case['via']), 'detail': v[1]}
    return None
