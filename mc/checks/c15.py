"""C15 — in-place minification touches only Python files and never corrupts one.

Explicit fault/tree state machine: state = (file tree contents, paths listed so far, exit status).  All trees of <=3 (quick) / <=4 (thorough)
entries from 14 file kinds (shrinking / growing / empty .py, .pyw, syntax error, undecodable, unreadable [injected open error], read-only
[injected error on open for writing], non-Python names with Python content, sub-directory, symlink to a file, symlink to a directory,
symlink loop) x argument lists (directory, every target file, same file twice, directory twice, file + directory) x {--in-place; --output
and stdout for single files} x flag sets x both directory listing orders (os.walk is run over a harness-sorted and a reverse-sorted listing).
Reference model (inplace_model below): visit order, per-file outcome in {minified, kept, failure}, stop at first failure with non-zero exit.
Oracle: every file's post-state equals the model's (and is in {pre, api(pre)}; for aliased paths also api(api(pre))); non-target files and
files after the failing one are byte-identical; the failing file is byte-identical and is the last path listed; exit status != 0 iff a
failure occurred; no file is created other than --output.  Environment answers are part of the alphabet: open() for reading / writing may be
refused (unreadable / readonly kinds) and a write() may fail after the open succeeded (writefail kind, ENOSPC) - the truncate-then-write window
of the unchanged tool is a recorded finding.  A module in a declared non-UTF-8 encoding (latin1 kind) must come out as UTF-8.  The model is compared with the real run on every case and a subset is
repeated through the real executable.
"""
import itertools
import os
import shutil
import tempfile

from mc import core, pm, clidrv

ID = 'C15'
LEVEL = 'model_checking'
RULE = ('states = distinct (tree, argv, mode, flags, listing order) configurations; transitions = file visits predicted by the reference model and '
        'compared with the real post-state; traces_validated_against_impl = configurations whose complete outcome (every file, listing, exit status) '
        'matched the model, plus those repeated through the real executable. Non-trivial: at least one file was rewritten or a failure stopped the run.')
ASSUMPTIONS = ['faults are injected by shadowing open() in python_minifier.__main__ (running as root makes real permission bits ineffective)',
               'crash between truncation and write of one file is outside the property (it speaks of unreadable / undecodable / unparseable files)']

SHRINK = b"def long_function_name():\n    return None\n\n\nprint(long_function_name())\n"
GROW = b"1if 1else 1"
# a module in a declared non-UTF-8 encoding with non-ASCII constants: the complete minified module is its UTF-8 form without the cookie
LATIN1 = b"# -*- coding: latin-1 -*-\ndef long_function_name():\n    return '\xe9\xe8 \xfc'\n\n\nprint(long_function_name())\n"
KINDS = [
    ('shrink.py', SHRINK), ('grow.py', GROW), ('empty.py', b''), ('win.pyw', SHRINK), ('syntaxerr.py', b'def (:\n'), ('undecodable.py', b'\xff\xfe\x00bad = 1\n'),
    ('unreadable.py', SHRINK), ('readonly.py', SHRINK), ('notes.txt', SHRINK), ('backup.py.bak', SHRINK), ('nosuffix', SHRINK),
    ('stub.pyi', SHRINK), ('cython.pyx', SHRINK), ('UPPER.PY', SHRINK), ('py', SHRINK),
    ('latin1.py', LATIN1),
    ('writefail.py', SHRINK),       # opens for writing (and is truncated), then the write itself fails: ENOSPC injected
    ('subdir', 'DIR'), ('link.py', 'LINK-FILE'), ('linkdir', 'LINK-DIR'), ('loop', 'LINK-LOOP'), ('dangling.py', 'LINK-DANGLING'),
]
OUTSIDE = 'outside'      # sibling directory holding link targets; never passed as an argument


def api(data, flags):
    status, on = clidrv.model(flags)
    try:
        out = pm.minify(data, on).encode('utf-8')
    except Exception:
        return None
    return out


def build_tree(root, entries):
    """entries: list of kind indices.  Returns dict relpath -> bytes for every regular file created (link targets included)."""
    os.makedirs(os.path.join(root, 'tree'))
    os.makedirs(os.path.join(root, OUTSIDE))
    with open(os.path.join(root, OUTSIDE, 'target.py'), 'wb') as f:
        f.write(SHRINK)
    os.makedirs(os.path.join(root, OUTSIDE, 'pkg'))
    with open(os.path.join(root, OUTSIDE, 'pkg', 'inner.py'), 'wb') as f:
        f.write(SHRINK)
    for n, k in enumerate(entries):
        name, content = KINDS[k]
        name = '%s%d_%s' % ('abcd'[n], n, name)
        p = os.path.join(root, 'tree', name)
        if content == 'DIR':
            os.makedirs(p)
            with open(os.path.join(p, 'inner.py'), 'wb') as f:
                f.write(SHRINK)
            with open(os.path.join(p, 'data.json'), 'wb') as f:
                f.write(b'{"x": 1}')
        elif content == 'LINK-FILE':
            os.symlink(os.path.join('..', OUTSIDE, 'target.py'), p)
        elif content == 'LINK-DIR':
            os.symlink(os.path.join('..', OUTSIDE, 'pkg'), p)
        elif content == 'LINK-LOOP':
            os.symlink('.', p)
        elif content == 'LINK-DANGLING':
            os.symlink('no-such-target.py', p)
        else:
            with open(p, 'wb') as f:
                f.write(content)


def snapshot(root):
    """relpath -> bytes for every regular file (not following symlinks), plus the set of symlinks"""
    files, links = {}, {}
    for d, dirs, fs in os.walk(root):
        for n in list(dirs):
            p = os.path.join(d, n)
            if os.path.islink(p):
                links[os.path.relpath(p, root)] = os.readlink(p)
        for n in fs:
            p = os.path.join(d, n)
            if os.path.islink(p):
                links[os.path.relpath(p, root)] = os.readlink(p)
            else:
                with open(p, 'rb') as f:
                    files[os.path.relpath(p, root)] = f.read()
    return files, links


class Env(object):
    """owns the nondeterminism/faults of one run: open() faults and directory listing order"""

    def __init__(self, reverse):
        self.reverse = reverse
        self.real_walk = os.walk

    def open(self, path, mode='r', *a, **kw):
        base = os.path.basename(str(path))
        if 'unreadable' in base and 'r' in mode:
            raise PermissionError(13, 'Permission denied (injected)', str(path))
        if 'readonly' in base and ('w' in mode or 'a' in mode or '+' in mode):
            raise PermissionError(13, 'Permission denied (injected)', str(path))
        f = open(path, mode, *a, **kw)
        if 'writefail' in base and ('w' in mode or 'a' in mode or '+' in mode):
            return FailingWriter(f, str(path))
        return f

    def walk(self, top, topdown=True, onerror=None, followlinks=False):
        for root, dirs, files in self.real_walk(top, topdown=topdown, onerror=onerror, followlinks=followlinks):
            dirs.sort(reverse=self.reverse)
            files.sort(reverse=self.reverse)
            yield root, dirs, files


class FailingWriter(object):
    """a real file opened for writing whose write() answers ENOSPC (the environment's answer is part of the alphabet)"""

    def __init__(self, f, path):
        self._f = f
        self._path = path

    def write(self, data):
        raise OSError(28, 'No space left on device (injected)', self._path)

    def __enter__(self):
        return self

    def __exit__(self, *exc):
        self._f.close()
        return False

    def __getattr__(self, name):
        return getattr(self._f, name)


class OsShim(object):
    def __init__(self, env):
        self._env = env

    def __getattr__(self, name):
        return getattr(os, name)

    def walk(self, *a, **kw):
        return self._env.walk(*a, **kw)


def inplace_model(root, args, flags, reverse, pre_files):
    """reference model: returns (visits [(path, outcome)], expect_fail bool).  Paths as given to / produced by the tool."""
    visits = []
    state = dict(pre_files)         # realpath-relative -> bytes, updated as files are rewritten

    def rel(p):
        return os.path.relpath(os.path.realpath(p), root)

    def candidates():
        for arg in args:
            if os.path.isdir(arg):
                seen_depth = 0
                for d, dirs, files in os.walk(arg, followlinks=True):
                    dirs.sort(reverse=reverse)
                    files.sort(reverse=reverse)
                    if d.count(os.sep) - arg.count(os.sep) > 45:
                        return
                    for n in files:
                        if n.endswith(('.py', '.pyw')):
                            yield os.path.join(d, n)
            else:
                yield arg
    for path in candidates():
        base = os.path.basename(path)
        if 'unreadable' in base:
            visits.append((path, 'failure'))
            return visits, True, state
        try:
            data = state[rel(path)]
        except KeyError:
            visits.append((path, 'failure'))
            return visits, True, state
        out = api(data, flags)
        if out is None:
            visits.append((path, 'failure'))
            return visits, True, state
        if len(out) > len(data):
            visits.append((path, 'kept'))
            continue
        if 'readonly' in base or 'writefail' in base:
            visits.append((path, 'failure'))
            return visits, True, state
        state[rel(path)] = out
        visits.append((path, 'minified'))
    return visits, False, state


def run_case(entries, argform, flags, reverse, scratch, runner='inprocess'):
    root = tempfile.mkdtemp(prefix='case-', dir=scratch)
    try:
        build_tree(root, entries)
        tree = os.path.join(root, 'tree')
        names = sorted(os.listdir(tree))
        targets = [os.path.join(tree, n) for n in names if n.endswith(('.py', '.pyw')) and not os.path.isdir(os.path.join(tree, n))]
        if argform == 'dir':
            args = [tree]
        elif argform == 'files':
            args = targets
        elif argform == 'file-twice':
            args = targets[:1] * 2
        elif argform == 'dir-twice':
            args = [tree, tree]
        elif argform == 'file+dir':
            args = targets[:1] + [tree]
        elif argform == 'through-linkdir':
            # `<symlinked directory>/../target.py` names a file next to the link's TARGET (outside/target.py), not the tree's own files - and a
            # shrink.py style sibling with the same name inside the tree must not be touched instead
            links = [os.path.join(tree, n) for n in names if os.path.islink(os.path.join(tree, n)) and os.path.isdir(os.path.join(tree, n)) and 'loop' not in n]
            args = [os.path.join(l, '..', 'target.py') for l in links]
            if args:
                with open(os.path.join(tree, 'target.py'), 'wb') as f:
                    f.write(SHRINK)
        elif argform == 'missing-first':
            args = [os.path.join(tree, 'no_such_module.py')] + targets
        elif argform == 'missing-last':
            args = targets + [os.path.join(tree, 'no_such_module.py')]
        else:
            raise ValueError(argform)
        if not args:
            return None
        pre_files, pre_links = snapshot(root)
        visits, expect_fail, post_model = inplace_model(root, args, flags, reverse, pre_files)
        has_loop = any(KINDS[k][1] == 'LINK-LOOP' for k in entries)
        env = Env(reverse)
        if runner == 'inprocess':
            clidrv.M.open = env.open
            clidrv.M.os = OsShim(env)
            try:
                o = clidrv.run(list(flags) + args + ['--in-place'])
            finally:
                del clidrv.M.open
                clidrv.M.os = os
        else:
            o = clidrv.run_subprocess(list(flags) + args + ['--in-place'])
        post_files, post_links = snapshot(root)
        problems = []
        ctx = 'entries %s args %s flags %s reverse=%s\nmodel visits %s\n%r' % ([KINDS[k][0] for k in entries], [os.path.relpath(a, root) for a in args], flags, reverse,
                                                                              [(os.path.relpath(p, root), oc) for p, oc in visits], o)
        if set(post_files) != set(pre_files):
            problems.append(('files-created-or-deleted', ctx + '\n%s' % sorted(set(post_files) ^ set(pre_files))))
        if post_links != pre_links:
            problems.append(('symlink-changed', ctx))
        for rel_, data in pre_files.items():
            now = post_files.get(rel_)
            if now is None:
                continue
            allowed = [data]
            a1 = api(data, flags)
            if a1 is not None and len(a1) <= len(data):
                allowed.append(a1)
                a2 = api(a1, flags)
                if a2 is not None and len(a2) <= len(a1):
                    allowed.append(a2)
            is_target_name = rel_.endswith(('.py', '.pyw'))
            if now != data and not is_target_name:
                problems.append(('non-python-file-modified', ctx + '\n%s: %r -> %r' % (rel_, data[:80], now[:80])))
            elif now not in allowed and 'writefail' in rel_:
                problems.append(('file-corrupted-by-failed-write', ctx + '\n%s: %r -> %r' % (rel_, data[:80], now[:80])))
            elif now not in allowed:
                problems.append(('file-corrupted', ctx + '\n%s: %r -> %r' % (rel_, data[:80], now[:80])))
            elif not has_loop and runner == 'inprocess' and now != post_model.get(rel_, data):     # the listing order of the real executable is not owned
                kind = 'file-after-failure-modified' if expect_fail and now != data else 'outcome-differs-from-model'
                problems.append((kind, ctx + '\n%s: %r, model %r' % (rel_, now[:80], post_model.get(rel_, data)[:80])))
        if runner == 'inprocess' and not has_loop:
            listed = [l for l in o.out_text.split('\n') if l]
            want = [p for p, _ in visits]
            if listed != want:
                problems.append(('listing-differs-from-model', ctx + '\nlisted %s' % [os.path.relpath(p, root) for p in listed]))
        if expect_fail and o.exit == 0:
            problems.append(('failure-exit-0', ctx))        # whether a failing file is among the candidates does not depend on the order
        if not expect_fail and o.exit != 0 and not has_loop:
            problems.append(('unexpected-failure', ctx))
        nontrivial = any(oc in ('minified', 'failure') for _, oc in visits)
        return problems, nontrivial, len(visits)
    finally:
        shutil.rmtree(root, ignore_errors=True)


ARGFORMS = ['dir', 'files', 'file-twice', 'dir-twice', 'file+dir', 'missing-first', 'missing-last', 'through-linkdir']
FLAGSETS = [[], ['--no-remove-explicit-return-none', '--no-rename-locals', '--no-hoist-literals']]


def trees(maxn):
    loop = [i for i, k in enumerate(KINDS) if k[1] == 'LINK-LOOP'][0]
    wf = [i for i, k in enumerate(KINDS) if k[0] == 'writefail.py'][0]
    for n in range(1, maxn + 1):
        for combo in itertools.product(range(len(KINDS)), repeat=n):
            if combo.count(loop) > 1:
                continue        # two self-referencing directory symlinks make os.walk(followlinks=True) visit 2^40 directories
            if n == maxn and n > 2 and wf in combo:
                continue        # the failing-write kind is crossed with every other kind in trees of up to maxn-1 entries
            yield combo


def bound(tier):
    return {'entries_per_tree': 3 if tier == 'quick' else 4, 'kinds': len(KINDS), 'argforms': ARGFORMS, 'listing_orders': 2, 'flag_sets': len(FLAGSETS)}


def tasks(tier):
    n = 64 if tier == 'quick' else 256
    return [('trees', tier, i, n) for i in range(n)] + [('single', i, 4) for i in range(4)] + [('subprocess', i, 8) for i in range(8)]


def run_task(task):
    res = core.Result()
    scratch = tempfile.mkdtemp(prefix='verif-c15-', dir=os.environ.get('VERIF_SCRATCH', '/var/tmp'))
    try:
        kind = task[0]
        if kind == 'trees':
            _, tier, part, nparts = task
            for i, entries in enumerate(trees(3 if tier == 'quick' else 4)):
                if i % nparts != part:
                    continue
                for argform in ARGFORMS:
                    if len(entries) == 3 and argform in ('file-twice', 'dir-twice', 'missing-last') and tier == 'quick':
                        continue
                    for fi, flags in enumerate(FLAGSETS):
                        if fi and len(entries) > 2:
                            continue
                        for reverse in (False, True):
                            case(res, entries, argform, flags, reverse, scratch)
        elif kind == 'single':
            _, part, nparts = task
            n = 0
            for k in range(len(KINDS)):
                for mode in ('stdout', 'output', 'output-is-input', 'output-is-input-relative', 'output-preexisting'):
                    n += 1
                    if n % nparts == part:
                        single_file_case(res, k, mode, scratch)
        elif kind == 'subprocess':
            _, part, nparts = task
            for i, entries in enumerate(trees(2)):
                if i % nparts != part:
                    continue
                if any(KINDS[k][0].startswith(('unreadable', 'readonly', 'writefail')) for k in entries):
                    continue        # injected faults exist only in-process
                r = run_case(entries, 'dir', [], False, scratch, runner='subprocess')
                if r is None:
                    continue
                res.count('evaluations')
                res.count('traces_validated_against_impl')
                for kind_, detail in r[0]:
                    res.violation('subprocess:' + kind_, {'entries': list(entries), 'argform': 'dir', 'flags': [], 'reverse': False, 'runner': 'subprocess'}, detail)
    finally:
        shutil.rmtree(scratch, ignore_errors=True)
    return res


def case(res, entries, argform, flags, reverse, scratch):
    r = run_case(entries, argform, flags, reverse, scratch)
    if r is None:
        return
    problems, nontrivial, nvisits = r
    res.count('evaluations')
    res.count('states')
    res.count('transitions', nvisits)
    if nontrivial:
        res.count('distinct_nontrivial')
    if not problems:
        res.count('traces_validated_against_impl')
    seen = set()
    for kind, detail in problems:
        if kind in seen:
            continue
        seen.add(kind)
        failing = sorted(set(KINDS[k][0] for k in entries if KINDS[k][0].split('.')[0] in ('syntaxerr', 'undecodable', 'unreadable', 'readonly', 'loop', 'dangling', 'writefail')))
        sig = '%s:%s:%s' % (kind, argform, '+'.join(failing) or 'no-fault')
        if kind == 'file-corrupted-by-failed-write':
            sig = kind      # one signature: which other files are around and how the file was named on the command line does not matter
        res.violation(sig, {'entries': list(entries), 'argform': argform, 'flags': flags, 'reverse': reverse}, detail)
    res.sample({'entries': [KINDS[k][0] for k in entries], 'argform': argform, 'reverse': reverse}, 2)


def single_file_case(res, k, mode, scratch):
    """a single path without --in-place: only stdout / --output may be written, the source never"""
    name, content = KINDS[k]
    if not isinstance(content, bytes):
        return
    root = tempfile.mkdtemp(prefix='single-', dir=scratch)
    try:
        p = os.path.join(root, name)
        with open(p, 'wb') as f:
            f.write(content)
        outp = os.path.join(root, 'result.out')
        if mode == 'output-is-input':
            outp = p
        elif mode == 'output-is-input-relative':
            outp = os.path.join(root, '.', os.path.basename(p))
        elif mode == 'output-preexisting':
            with open(outp, 'wb') as f:
                f.write(b'# previous output\n')
        args = [p] if mode == 'stdout' else [p, '--output', outp]
        env = Env(False)
        clidrv.M.open = env.open
        try:
            o = clidrv.run(args)
        finally:
            del clidrv.M.open
        res.count('evaluations')
        res.count('states')
        res.count('transitions')
        res.count('distinct_nontrivial')
        with open(p, 'rb') as f:
            now = f.read()
        ctx = 'file %s mode %s: %r' % (name, mode, o)
        if mode.startswith('output-is-input'):
            a = api(content, [])
            fails = 'unreadable' in name or 'readonly' in name or 'writefail' in name or a is None
            want = content if fails or len(a) > len(content) else a
            if now != want:
                res.violation('output-onto-input-corrupts:' + name, {'single': k, 'mode': mode}, ctx + '\nfile now %r, expected %r' % (now[:100], want[:100]))
            elif (o.exit != 0) != bool(fails):
                res.violation('output-onto-input-exit-status:' + name, {'single': k, 'mode': mode}, ctx)
            else:
                res.count('traces_validated_against_impl')
            return
        if now != content:
            res.violation('source-modified-without-in-place:' + name, {'single': k, 'mode': mode}, ctx)
        others = sorted(set(os.listdir(root)) - {name, 'result.out'})
        if others:
            res.violation('files-created:' + name, {'single': k, 'mode': mode}, ctx + ' %s' % others)
        a = api(content, [])
        fails = 'unreadable' in name or a is None
        if mode == 'output-preexisting' and fails:
            with open(outp, 'rb') as f:
                if f.read() != b'# previous output\n' or o.exit == 0:
                    res.violation('failure-touched-existing-output:' + name, {'single': k, 'mode': mode}, ctx)
        elif fails and (o.exit == 0 or os.path.exists(outp) or o.out_bytes):
            res.violation('failure-wrote-output:' + name, {'single': k, 'mode': mode}, ctx)
        if not fails:
            want = a if len(a) <= len(content) else content
            got = open(outp, 'rb').read() if mode.startswith('output') and os.path.exists(outp) else o.out_bytes
            if o.exit != 0 or got != want:
                res.violation('wrong-output:' + name, {'single': k, 'mode': mode}, ctx + '\nwant %r got %r' % (want[:100], got[:100]))
            else:
                res.count('traces_validated_against_impl')
    finally:
        shutil.rmtree(root, ignore_errors=True)


def replay(case_):
    scratch = tempfile.mkdtemp(prefix='verif-c15-', dir=os.environ.get('VERIF_SCRATCH', '/var/tmp'))
    try:
        if 'single' in case_:
            res = core.Result()
            single_file_case(res, case_['single'], case_['mode'], scratch)
            for v in res.violations:
                return {'signature': v['signature'], 'detail': v['detail']}
            return None
        r = run_case(tuple(case_['entries']), case_['argform'], case_['flags'], case_['reverse'], scratch, runner=case_.get('runner', 'inprocess'))
        if r and r[0]:
            kind, detail = r[0][0]
            entries = case_['entries']
            failing = sorted(set(KINDS[k][0] for k in entries if KINDS[k][0].split('.')[0] in ('syntaxerr', 'undecodable', 'unreadable', 'readonly', 'loop', 'dangling', 'writefail')))
            pre = 'subprocess:' if case_.get('runner') == 'subprocess' else ''
            sig = pre + kind if pre else '%s:%s:%s' % (kind, case_['argform'], '+'.join(failing) or 'no-fault')
            return {'signature': sig, 'detail': detail}
        return None
    finally:
        shutil.rmtree(scratch, ignore_errors=True)
