"""C04 — externally visible names are never changed.

Space: G_scope programs x (15 non-empty subsets of the renaming switches) x base in {nothing, all annotation kinds + literal statements};
G_feat programs x full(7) over {rename_locals, rename_globals, hoist_literals, convert_posargs_to_args, annotations, class-attribute
annotations, remove_literal_statements}.
Oracle (mc/oracle/iface.py over the walk2 alignment and independent scope analyses): attribute names, keyword-argument names, imported
module/member names, class-pattern keywords, names bound in class bodies, keyword-callable parameters (except the documented self/cls
position), dunder names and names the module never binds are spelled identically at the same position; with rename_globals off the set of
module-level bound names is the input's set plus names that start with an underscore and do not occur in the input.
"""
import ast

from mc import core, pm, scope_engine
from mc.oracle import alpha, iface

ID = 'C04'
LEVEL = 'exploration'
RULE = ('programs: G_scope trees of the tier and all G_feat fragment programs; option sets as in the module docstring. A case is non-trivial '
        'when the alignment contains at least one respelled binding, inserted alias or hoisted literal, counted once per distinct '
        '(program, output).')
ASSUMPTIONS = [
    'interface roles are read off the input tree by mc/oracle/iface.py; the documented exception (first parameter of an undecorated or '
    '@classmethod method) is the only parameter in keyword-callable position that may change',
    'the comparison is differential: the output is aligned with the same program minified without the renaming switches',
]
NPARTS = 64
RENAME = ['rename_locals', 'rename_globals', 'hoist_literals', 'convert_posargs_to_args']
ANN3 = frozenset(['remove_variable_annotations', 'remove_return_annotations', 'remove_argument_annotations'])
BASE_FULL = [frozenset(), ANN3, ANN3 | {'remove_class_attribute_annotations'}, frozenset(['remove_literal_statements']),
             ANN3 | {'remove_literal_statements'}, ANN3 | {'remove_class_attribute_annotations', 'remove_literal_statements'},
             frozenset(['remove_class_attribute_annotations']), frozenset(['remove_class_attribute_annotations', 'remove_literal_statements'])]
REST = sorted(pm.ALL_ON - set(RENAME) - ANN3 - {'remove_class_attribute_annotations', 'remove_literal_statements'})


def option_sets(kind, tier):
    subs = [s for s in pm.full(RENAME) if s]
    if kind == 'scope':
        bases = [frozenset(), ANN3 | {'remove_class_attribute_annotations', 'remove_literal_statements'}]
        if tier == 'quick':
            subs = [s for s in subs if len(s) in (1, 4)] + [frozenset(['rename_locals', 'rename_globals']), frozenset(['rename_globals', 'hoist_literals'])]
        return [(b, s) for b in bases for s in subs]
    sets = [(b, s) for b in BASE_FULL for s in subs]
    # dev(1) over the remaining switches around default-with-everything-renaming
    for o in REST:
        sets.append((frozenset(pm.DEFAULT_ON ^ {o}) - set(RENAME), frozenset(RENAME)))
    return sets


def bound(tier):
    return {'scopes_under_module': 2 if tier == 'quick' else 3, 'scope_option_sets': len(option_sets('scope', tier)),
            'feat_option_sets': len(option_sets('feat', tier))}


def tasks(tier):
    return [('scope', tier, i, NPARTS) for i in range(NPARTS)] + [('feat', tier, i, 16) for i in range(16)]


def examine(desc, src, sets, res):
    if scope_engine.try_compile(src) is None:
        res.count('not_compilable')
        return
    res.count('programs')
    bases = {}
    seen = set()
    for base, ren in sets:
        res.count('evaluations')
        if base not in bases:
            try:
                bases[base] = pm.minify(src, base)
            except Exception:
                bases[base] = None
        if bases[base] is None:
            continue
        v, nontrivial, out = violation_for(src, bases[base], base, ren)
        if out is not None and (base, out) not in seen:
            seen.add((base, out))
            if nontrivial:
                res.count('distinct_nontrivial')
        for kind, detail in v:
            res.violation(kind + '|' + desc[:150], {'desc': desc, 'source': src, 'base': sorted(base), 'rename': sorted(ren)}, detail)
    res.sample({'desc': desc, 'source': src[:300]}, 2)


def violation_for(src, base_out, base, ren):
    on = base | ren
    try:
        out = pm.minify(src, on)
    except Exception as e:
        return [], False, None      # C08's business
    if out == base_out:
        return [], False, out
    hdr = 'options %s\nin (minified without renaming switches):\n%s\nout:\n%s\n' % (pm.optkey(on), base_out, out)
    try:
        tin = ast.parse(base_out)
        tout = ast.parse(out)
    except SyntaxError:
        return [], False, out
    r = alpha.check(base_out, out, tin, tout)
    problems = []
    for kind, msg in r.problems:
        if kind == 'unexplained-difference':
            problems.append(('unexplained-difference', hdr + msg))
    for kind, msg in iface.check(r, tin, 'rename_globals' in on):
        problems.append((kind, hdr + msg))
    uniq = {}
    for k, d in problems:
        uniq.setdefault(k, d)
    return sorted(uniq.items()), bool(r.renamed_bindings or r.hoisted or r.inserted), out


def run_task(task):
    res = core.Result()
    kind, tier, part, nparts = task
    if kind == 'scope':
        sets = option_sets('scope', tier)
        for desc, src in scope_engine.programs(tier, part, nparts):
            examine(desc, src, sets, res)
    else:
        from mc.gen import feat
        sets = option_sets('feat', tier)
        for i, (desc, src) in enumerate(feat.programs(tier)):
            if i % nparts == part:
                examine(desc, src, sets, res)
    return res


def replay(case):
    src = case['source']
    base = frozenset(case['base'])
    v, _, _ = violation_for(src, pm.minify(src, base), base, frozenset(case['rename']))
    for kind, detail in v:
        return {'signature': kind + '|' + case['desc'][:150], 'detail': detail}
    return None
