"""C08 — every compilable module is minified without error into a compilable module; unparseable input gives SyntaxError only.

Space: the union of the program enumerators (expression/statement/pattern table, numbers incl. 4300-digit boundaries, string placements,
scope trees, fragment programs, hoisting placements, taint programs, literal arithmetic) x option sets (default, all-on, all-off,
all-on minus rename_globals, default + literal statements; dev(1) around all three bases on the small programs; full over the rename/hoist
group), plus all token strings of <=3 (quick) / <=4 (thorough) tokens from a 27-token alphabet for the invalid side; every installed
interpreter through the portable worker.
Oracle: compile(S) succeeds => minify(S, O) returns a str and compile(result) succeeds (any exception is a violation).  ast.parse(S) raises =>
minify raises an exception of the same class (SyntaxError or subclass; ValueError where the interpreter itself raises that for NUL bytes).
Sources that parse but do not compile are outside the implication and only counted.
"""
import ast
import os

from mc import core, pm, scope_engine
from mc.gen import exprs, nums, strs, lits, srcs

ID = 'C08'
LEVEL = 'exploration'
RULE = ('cases: (source, option set) from the union of all program enumerators plus all short token strings. Non-trivial: the source compiles (so the '
        'implication has a true premise) or fails to parse (the SyntaxError side); sources that parse but do not compile are counted separately. '
        'distinct by (source text, option set).')
ASSUMPTIONS = ['compile() of the running interpreter decides "compilable"', 'bounds of the individual enumerators (see C02, C01, C06, C07, C09)']
NPARTS = 48

RENAME_GROUP = ['rename_locals', 'rename_globals', 'hoist_literals', 'convert_posargs_to_args']


def sets_small():
    return pm.uniq([pm.DEFAULT_ON, pm.ALL_ON, pm.ALL_OFF, pm.ALL_ON - {'rename_globals'}, pm.DEFAULT_ON | {'remove_literal_statements'}])


def sets_wide():
    out = pm.dev(pm.DEFAULT_ON, pm.ALL, 1) + pm.dev(pm.ALL_ON, pm.ALL, 1) + pm.dev(pm.ALL_OFF, pm.ALL, 1)
    out += [s | (pm.DEFAULT_ON - set(RENAME_GROUP)) for s in pm.full(RENAME_GROUP)]
    return pm.uniq(out)


def bound(tier):
    from mc.checks import c02
    return {'token_string_len': 3 if tier == 'quick' else 4, 'small_sets': len(sets_small()), 'wide_sets': len(sets_wide()),
            'interpreters': [v for v, _ in c02.interpreters(tier)] + ['3.12 (driver)']}


def tasks(tier):
    from mc.checks import c02
    t = [('expr', i, NPARTS) for i in range(NPARTS)]
    t += [('misc', i, 16) for i in range(16)]
    t += [('deep', i, 12) for i in range(12)]
    t += [('strs', tier, i, NPARTS) for i in range(NPARTS)]
    t += [('scope', tier, i, NPARTS) for i in range(NPARTS)]
    t += [('feat', tier, i, 16) for i in range(16)]
    ntok = 16 if tier == 'quick' else 128
    t += [('tokens', tier, i, ntok) for i in range(ntok)]
    for v, exe in c02.interpreters(tier):
        for i in range(4):
            t.append(('interp', v, exe, tier, i, 4))
    return t


def check(label, src, sets, res, seen=None):
    if seen is not None:
        k = core.h64(src)
        if k in seen:
            return
        seen.add(k)
    res.count('sources')
    try:
        ast.parse(src)
        parses = True
        exc_class = None
    except (SyntaxError, ValueError) as e:
        parses = False
        exc_class = type(e)
    except (RecursionError, MemoryError):
        res.count('parser_gave_up')
        return
    if not parses:
        res.count('evaluations')
        res.count('distinct_nontrivial')
        res.count('unparseable')
        v = invalid_violation(src, exc_class)
        if v:
            res.violation(v[0] + '|' + shape(label, src), {'label': label, 'source': src, 'options': None}, v[1])
        return
    try:
        compile(src, '<in>', 'exec', dont_inherit=True)
    except Exception:
        res.count('parses_but_does_not_compile')
        return
    for on in sets:
        res.count('evaluations')
        res.count('distinct_nontrivial')
        v = valid_violation(src, on)
        if v:
            res.violation(v[0] + '|' + shape(label, src), {'label': label, 'source': src if len(src) < 5000 else src[:300], 'source_full': src if len(src) >= 5000 else None,
                                                            'options': sorted(on)}, v[1])


def shape(label, src):
    import re
    label = re.sub(r'/p\d+s?$', '', label)
    label = re.sub(r'atom:[^\]/]*', 'atom', label)
    return label[:100]


def invalid_violation(src, exc_class):
    import python_minifier
    try:
        python_minifier.minify(src)
    except exc_class:
        return None
    except Exception as e:
        if isinstance(e, SyntaxError) and issubclass(exc_class, SyntaxError):
            return None
        return ('invalid-source-raises:%s' % type(e).__name__, '%r: ast.parse raises %s but minify raised %r' % (src, exc_class.__name__, e))
    return ('invalid-source-accepted', '%r: ast.parse raises %s but minify returned' % (src, exc_class.__name__))


def valid_violation(src, on):
    try:
        out = pm.minify(src, on)
    except Exception as e:
        inner = getattr(e, 'exception', None)
        return ('raises:%s' % type(e).__name__, 'options %s\nsource %r\nraised %r %r' % (pm.optkey(on), src[:500], e, inner))
    if not isinstance(out, str):
        return ('returns-non-str', repr(type(out)))
    try:
        compile(out, '<out>', 'exec', dont_inherit=True)
    except Exception as e:
        return ('output-does-not-compile:%s' % type(e).__name__, 'options %s\nsource %r\nout %r\n%r' % (pm.optkey(on), src[:500], out[:500], e))
    return None


def run_task(task):
    res = core.Result()
    kind = task[0]
    seen = set()
    small, wide = sets_small(), sets_wide()
    if kind == 'expr':
        _, part, nparts = task
        for label, src in exprs.depth2_cases():
            if core.h64(src) % nparts == part:
                check(label, src, small, res, seen)
    elif kind == 'misc':
        _, part, nparts = task
        from mc.gen import hoist, taint
        i = 0
        for gen, sets in ((exprs.pattern_cases(), wide), (((l, s_) for l, s_ in nums.cases() if '<<' not in s_), small), (hoist.programs('quick'), small[:3]), (taint.programs(), wide)):
            for rec in gen:
                i += 1
                if i % nparts == part:
                    check(rec[0], rec[1], sets, res, seen)
        for j, e in enumerate(lits.depth1()):
            if j % nparts == part and j % 5 == 0:
                check('lit', 'x=' + e, small[:3], res, seen)
    elif kind == 'deep':
        _, part, nparts = task
        run_deep(part, nparts, res)
    elif kind == 'strs':
        _, tier, part, nparts = task
        for label, src in strs.cases('quick', part, nparts):
            check(label, src, small[:3], res, seen)
    elif kind == 'scope':
        _, tier, part, nparts = task
        plan = [(1, 'full', 'full', lambda i, n: 'full', (False,)), (2, 'mid', 'mid', lambda i, n: 'core', (False,))]
        if tier == 'thorough':
            plan = None
        for desc, src in scope_engine.programs(tier, part, nparts, plan):
            check(desc, src, small, res, None)
    elif kind == 'feat':
        _, tier, part, nparts = task
        from mc.gen import feat
        for i, (desc, src) in enumerate(feat.programs(tier)):
            if i % nparts == part:
                check(desc, src, wide if '+' not in desc else small, res, None)
    elif kind == 'tokens':
        _, tier, part, nparts = task
        for s in srcs.token_strings(3 if tier == 'quick' else 4, part, nparts):
            check('tokens', s, small[:2], res, None)
            res.sample({'token_string': s}, 1)
    elif kind == 'interp':
        from mc.checks import c02
        _, ver, exe, tier, part, nparts = task
        cases = []
        n = 0
        opts_default = {}
        allon = dict((k, True) for k in ('remove_literal_statements', 'rename_globals', 'remove_asserts', 'remove_debug'))
        allon['remove_annotations'] = True
        for gen in (exprs.depth2_cases(), exprs.pattern_cases(), ((l, s_) for l, s_ in nums.cases() if '<<' not in s_ and '**' not in s_), strs.cases('quick', 0, 8)):       # old interpreters' own compile() folds N**N without limits
            for label, src in gen:
                n += 1
                if n % nparts == part and len(src) < 20000:
                    cases.append((label, src, opts_default if n % 2 else allon))
        from mc.gen import feat
        for i, (desc, src) in enumerate(feat.programs('quick')):
            if '+' not in desc and i % nparts == part:
                cases.append((desc, src, opts_default))
                cases.append((desc, src, allon))
        for i, s in enumerate(srcs.token_strings(3)):
            if i % nparts == part:
                cases.append(('tokens', s, opts_default))
        out = c02.portable(cases, exe, 'compile')
        res.count('evaluations', out['checked'] + out['invalid'])
        res.count('distinct_nontrivial', out['checked'] + out['invalid'])
        res.count('interp_%s_compilable' % ver, out['checked'])
        res.count('interp_%s_unparseable' % ver, out['invalid'])
        for v in out['violations']:
            res.violation('py%s:%s|%s' % (c02.pyver(ver), v['sig'], shape(v['label'], v['source'])),
                          {'label': v['label'], 'source': v['source'], 'interpreter': exe, 'options': None}, v['detail'])
    return res


# ---- depth ladders ---------------------------------------------------------------------------------------------------------------
DEEP_SETS = [('all-off', pm.ALL_OFF), ('default', pm.DEFAULT_ON), ('all-on', pm.ALL_ON)]


def in_fresh_thread(fn):
    """run fn() on a new thread: the Python stack starts empty there (so the depth at which RecursionError appears does not depend on how deep
    the harness happens to be) and the C stack is large enough for the interpreter's own recursion"""
    import threading
    box = []

    def body():
        try:
            box.append(('ok', fn()))
        except BaseException as e:      # noqa
            box.append(('raises', e))
    old = threading.stack_size(512 * 1024 * 1024)
    try:
        t = threading.Thread(target=body)
        t.start()
        t.join()
    finally:
        threading.stack_size(old)
    return box[0]


def deep_outcome(src, on):
    """None if the implication holds for (src, on); 'skip' if the interpreter itself does not compile src; else (kind, detail)"""
    def compiles():
        compile(src, '<in>', 'exec', dont_inherit=True)
    st, r = in_fresh_thread(compiles)
    if st != 'ok':
        return 'skip'
    st, r = in_fresh_thread(lambda: pm.minify(src, on))
    if st != 'ok':
        return ('raises:%s' % type(r).__name__, 'options %s: minify raised %r for a source of %d characters that compile() accepts' % (pm.optkey(on), r, len(src)))
    out = r
    st, r = in_fresh_thread(lambda: compile(out, '<out>', 'exec', dont_inherit=True))
    if st != 'ok':
        return ('output-does-not-compile:%s' % type(r).__name__, 'options %s: %r' % (pm.optkey(on), r))
    return None


def run_deep(part, nparts, res):
    from mc.gen import deep
    for i, (name, make) in enumerate(deep.SHAPES):
        if i % nparts != part:
            continue
        for oname, on in DEEP_SETS:
            for n in deep.RUNGS:
                src = make(n)
                v = deep_outcome(src, on)
                if v == 'skip':
                    res.count('deep_interpreter_limit')
                    continue
                res.count('evaluations')
                res.count('distinct_nontrivial')
                res.count('deep_cases')
                if v is not None:
                    # only the first failing rung of a ladder is reported (and run): everything above it fails for the same reason
                    res.violation('%s|deep:%s:first-failing-depth=%d:%s' % (v[0], name, n, oname),
                                  {'label': 'deep:' + name, 'deep': [name, n, oname], 'source': src[:200], 'options': sorted(on)}, v[1])
                    break
        res.sample({'deep_shape': name, 'rungs': deep.RUNGS}, 2)


def replay(case):
    if case.get('deep'):
        from mc.gen import deep
        name, n, oname = case['deep']
        make = dict(deep.SHAPES)[name]
        on = dict(DEEP_SETS)[oname]
        for m in deep.RUNGS:        # the signature names the FIRST failing rung
            v = deep_outcome(make(m), on)
            if v not in (None, 'skip'):
                return {'signature': '%s|deep:%s:first-failing-depth=%d:%s' % (v[0], name, m, oname), 'detail': v[1]}
        return None
    src = case.get('source_full') or case['source']
    if 'interpreter' in case:
        from mc.checks import c02
        outs = []
        for opts in ({}, {'remove_literal_statements': True, 'rename_globals': True, 'remove_asserts': True, 'remove_debug': True, 'remove_annotations': True}):
            out = c02.portable([(case['label'], src, opts)], case['interpreter'], 'compile')
            for v in out['violations']:
                return {'signature': 'py%s:%s|%s' % (c02.pyver(out['python']), v['sig'], shape(v['label'], v['source'])), 'detail': v['detail']}
        return None
    if case['options'] is None:
        try:
            ast.parse(src)
            return None
        except (SyntaxError, ValueError) as e:
            v = invalid_violation(src, type(e))
    else:
        v = valid_violation(src, frozenset(case['options']))
    if v:
        return {'signature': v[0] + '|' + shape(case['label'], src), 'detail': v[1]}
    return None
