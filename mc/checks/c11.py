"""C11 — output depends only on source, options and interpreter version.

Four owned sources of nondeterminism, each enumerated exhaustively within its bound:
 1 histories  explicit-state BFS over call sequences (19-call alphabet chosen to collide on everything shareable: reused preserve lists, a
              type-parameter program, an __all__ program, shared and default option objects, f-strings, name-exhausting programs, awslambda,
              calls that raise).  Every history runs in its own fresh process; state = digest of every mutable object reachable from
              python_minifier's module globals, class attributes and function defaults + the caller-owned argument objects.  Invariants on
              every transition: result == the result of that call alone in a fresh process; argument objects == their pre-call copies.
 2 schedules  2-3 threads each running one minify() of a colliding program under a cooperative scheduler (line / call trace events inside
              python_minifier are the scheduling points): 0 preemptions (all orders), every single preemption at line granularity, every pair
              at call granularity (thorough), three threads at bound 1 (thorough).  Each thread's result must equal its fresh result.
 3 set order  `set` is shadowed in the modules that build string sets with a subclass whose iteration order is chosen by the explorer
              (all permutations for <=3 elements; identity, reverse and rotations above); output must be byte-identical.
 4 hash seed  the fragment corpus minified in fresh processes under PYTHONHASHSEED 0..15 (quick) / 0..63 + random (thorough).
"""
import hashlib
import itertools
import json
import os
import subprocess
import sys

from mc import core, pm

ID = 'C11'
LEVEL = 'model_checking'
RULE = ('states = distinct (state digest, argument objects) values reached by call histories; transitions = calls executed inside histories + '
        'scheduled executions + set-order permutations + seed runs, each compared with the fresh-process reference; '
        'traces_validated_against_impl = executions whose every observation matched. Non-trivial: histories of length >= 2 whose calls share an '
        'argument object or follow a raising call, schedules with a real preemption, permutations other than the identity, seeds other than 0.')
ASSUMPTIONS = ['the GIL: scheduling points are line / call events (quick) and additionally every bytecode instruction of the smallest program (thorough)', 'hash seeds are a bounded enumeration, backed by explicit control of set iteration order']
WORKER = os.path.join(core.HERE, 'mc', 'c11_worker.py')
CALL_NAMES = ['rename+L1', 'typeparam+L1', 'all+G1', 'rename+G1', 'typeparam+G1', 'ann+RA', 'ann-default', 'hints', 'hints+RA', 'fstring', 'hoist', 'hoist2', 'fold',
              'fold2', 'deep', 'awslambda', 'syntaxerror', 'midfail', 'rename+str', 'shebang', 'shebang+hugeint', 'hugehex', 'bytes-latin1']


def env(seed='0'):
    e = dict(os.environ)
    e['PYTHONPATH'] = os.path.join(pm.REPO, 'src')
    e['PYTHONHASHSEED'] = str(seed)
    e['PYTHONWARNINGS'] = 'ignore'
    return e


def run_history(history):
    p = subprocess.run([sys.executable, WORKER, 'history', json.dumps(list(history))], env=env(), stdout=subprocess.PIPE, stderr=subprocess.PIPE)
    if p.returncode != 0:
        raise core.HarnessError('history worker failed: %s' % p.stderr.decode()[-1500:])
    return json.loads(p.stdout.decode())


def bound(tier):
    return {'history_depth': 3 if tier == 'quick' else 4, 'calls': len(CALL_NAMES), 'preemption_bound': 1 if tier == 'quick' else 2,
            'threads': 2 if tier == 'quick' else 3, 'seeds': 16 if tier == 'quick' else 65}


def tasks(tier):
    depth = 3 if tier == 'quick' else 4
    t = [('fresh',)]
    nh = 64 if tier == 'quick' else 256
    t += [('histories', depth, i, nh) for i in range(nh)]
    t += [('setorder', i, 16) for i in range(16)]
    ns = 16 if tier == 'quick' else 64
    t += [('seeds', s, tier) for s in range(ns)] + ([('seeds', 'random', tier)] if tier == 'thorough' else [])
    t += [('sched', tier, i, 32) for i in range(32)]
    return t


def fresh_reference():
    ref = {}
    for name in CALL_NAMES:
        r = run_history([name])
        ref[name] = r['steps'][0]['result'][:2]
    return ref


_ref_cache = {}


def reference():
    if 'r' not in _ref_cache:
        path = os.path.join(os.environ.get('VERIF_SCRATCH', '/var/tmp'), 'verif-c11-ref-%d.json' % os.getppid())
        try:
            with open(path) as f:
                _ref_cache['r'] = json.load(f)
        except (IOError, ValueError):
            r = fresh_reference()
            tmp = path + '.%d' % os.getpid()
            with open(tmp, 'w') as f:
                json.dump(r, f)
            os.replace(tmp, path)
            _ref_cache['r'] = r
    return _ref_cache['r']


def check_history(history, res):
    ref = reference()
    r = run_history(history)
    ok = True
    res.count('evaluations')
    shared_reuse = len(history) >= 2
    if shared_reuse:
        res.count('distinct_nontrivial')
    for i, step in enumerate(r['steps']):
        res.count('transitions')
        res.add('states', (step['state'], json.dumps(step['args_after'], sort_keys=True)))
        name = step['call']
        if step['args_before'] != step['args_after']:
            ok = False
            changed = [k for k in step['args_before'] if step['args_before'][k] != step['args_after'][k]]
            res.violation('argument-mutated:%s:%s' % (name, '+'.join(changed)), {'history': list(history[:i + 1])},
                          'history %s: call %s changed caller-owned %s: %r -> %r' % (list(history[:i + 1]), name, changed,
                                                                                   {k: step['args_before'][k] for k in changed}, {k: step['args_after'][k] for k in changed}))
        if list(step['result'][:2]) != list(ref[name]):
            ok = False
            res.violation('result-depends-on-history:%s' % name, {'history': list(history[:i + 1])},
                          'history %s: call %s returned %r, alone in a fresh process it returns %r' % (list(history[:i + 1]), name, step['result'], ref[name]))
        if step['state'] != r['initial_state']:
            ok = False
            res.violation('module-state-changed:%s' % name, {'history': list(history[:i + 1])},
                          'history %s: the digest of python_minifier module-level state changed after call %s' % (list(history[:i + 1]), name))
    if ok:
        res.count('traces_validated_against_impl')
    res.sample({'history': list(history)}, 2)


# ---- set iteration order ------------------------------------------------------------------------------------------------------------------------

class ChoiceSet(set):
    """a set whose iteration order is a permutation chosen by the explorer"""
    choice = 0

    def __iter__(self):
        items = sorted(set.__iter__(self), key=repr)
        n = len(items)
        c = ChoiceSet.choice
        if n <= 1 or c == 0:
            return iter(items)
        if n <= 3:
            perms = list(itertools.permutations(items))
            return iter(perms[c % len(perms)])
        if c == 1:
            return iter(items[::-1])
        k = c % n
        return iter(items[k:] + items[:k])


SETORDER_PROGRAMS = [
    "value = f'{b\"bytes\"!r} {len(b\"it's\")} {b\"\"} {b\"a\" + b\"b\"}'\nprint(value)\n",
    "def setup():\n    global first_conn, second_conn, third_conn\n    first_conn = 1\n    second_conn = 2\n    third_conn = 3\ndef use():\n    return first_conn + second_conn + third_conn\nprint(setup(), use())\n",
    "def reset():\n    global hits_count, miss_count\n    hits_count = miss_count = 0\ndef lookup(cache, key):\n    global hits_count, miss_count\n    if key in cache:\n        hits_count += 1\n        return cache[key]\n    miss_count += 1\nreset()\nprint(lookup({}, 1), hits_count, miss_count)\n",
    "def outer():\n    def inner():\n        nonlocal aa_value, bb_value, cc_value\n        aa_value, bb_value, cc_value = cc_value, aa_value, bb_value\n    aa_value, bb_value, cc_value = 1, 2, 3\n    inner()\n    return aa_value, bb_value, cc_value\nprint(outer())\n",
    "def outer():\n    first_value = 1\n    second_value = 2\n    third_value = 3\n    def inner():\n        nonlocal first_value, second_value, third_value\n        first_value += second_value + third_value\n        return first_value + second_value + third_value\n    return inner()\nprint(outer())\n",
    "alpha_value = 1\nbeta_value = 2\ngamma_value = 3\ndef change():\n    global alpha_value, beta_value, gamma_value\n    alpha_value = beta_value + gamma_value\n    beta_value = alpha_value + gamma_value\n    return alpha_value + beta_value + gamma_value\nprint(change(), alpha_value, beta_value)\n",
    "def generic[FirstParam, SecondParam, *ThirdParam, **FourthParam](argument: FirstParam) -> SecondParam:\n    local_value = argument\n    return local_value or local_value\nclass Holder[KeyParam, ValueParam]:\n    pass\ntype Alias[ItemParam] = list[ItemParam]\nprint(generic(1))\n",
    "__all__ = ['public_one', 'public_two', 'public_three']\ndef public_one(): return 1\ndef public_two(): return public_one() + public_one()\ndef public_three(): return public_two() + public_two()\ndef hidden_helper(): return public_three() + public_three()\nprint(hidden_helper(), hidden_helper())\n",
    "class Scoped:\n    first_attr = 1\n    second_attr = first_attr + 1\n    third_attr = [first_attr for _ in range(second_attr)]\n    def method(self, argument_name):\n        local_name = argument_name\n        return local_name + local_name\nprint(Scoped().method(2), Scoped.third_attr)\n",
]


def setorder_cases():
    from mc.gen import feat, fstr
    for i, src in enumerate(SETORDER_PROGRAMS):
        yield 'setorder:%d' % i, src
    for label, src in fstr.cases('quick'):
        if ':-:-:' in label:        # conversions and the debug flag do not add candidates; the value / spec / outer quote product does
            yield label, src
    for desc, src in feat.programs('quick'):
        if '+' not in desc:
            yield desc, src


def check_setorder(part, nparts, res):
    import importlib
    mapper = importlib.import_module('python_minifier.rename.mapper')
    renamer = importlib.import_module('python_minifier.rename.renamer')
    bind_names = importlib.import_module('python_minifier.rename.bind_names')
    rutil = importlib.import_module('python_minifier.rename.util')
    ast_compare = importlib.import_module('python_minifier.ast_compare')
    resolve_names = importlib.import_module('python_minifier.rename.resolve_names')
    import python_minifier.f_string  # noqa: F401
    mods = [m for n, m in sorted(sys.modules.items()) if m is not None and (n == 'python_minifier' or n.startswith('python_minifier.'))]
    for i, (label, src) in enumerate(setorder_cases()):
        if i % nparts != part:
            continue
        kws = ({}, {'rename_globals': True}, {'rename_globals': True, 'preserve_globals': ['alpha_value', 'public_one'], 'preserve_locals': ['first_value', 'local_value']})
        if label.startswith('fstr:'):
            kws = kws[:1]
        for kw in kws:
            try:
                base = __import__('python_minifier').minify(src, **kw)
            except Exception as e:
                base = 'raises:' + type(e).__name__
            for m in mods:
                m.set = ChoiceSet
            try:
                for choice in range(0, 8):
                    ChoiceSet.choice = choice
                    res.count('evaluations')
                    res.count('transitions')
                    if choice:
                        res.count('distinct_nontrivial')
                    try:
                        out = __import__('python_minifier').minify(src, **kw)
                    except Exception as e:
                        out = 'raises:' + type(e).__name__
                    if out != base:
                        res.violation('output-depends-on-set-order|' + label, {'setorder': label, 'source': src, 'kw': kw, 'choice': choice},
                                      'iteration order #%d of string sets changes the output\nbase: %s\ngot:  %s' % (choice, base[:400], out[:400]))
                    else:
                        res.count('traces_validated_against_impl')
            finally:
                ChoiceSet.choice = 0
                for m in mods:
                    if 'set' in vars(m):
                        del m.set


# ---- thread schedules ------------------------------------------------------------------------------------------------------------------------------

def interpreter_state():
    import threading
    import warnings
    return (sys.getrecursionlimit(), sys.getswitchinterval(), len(sys.path), os.getcwd(), len(os.environ), len(warnings.filters), threading.stack_size(),
            getattr(sys, 'get_int_max_str_digits', lambda: 0)())


THREAD_PROGRAMS = [
    ("def alpha(first_argument):\n    text = 'shared literal text'\n    other = 'shared literal text'\n    return f'{first_argument!r} {text} {other}' + 'shared literal text' + str(60 * 60)\nprint(alpha(1))\n", {}),
    ("def beta(value_name, second_name):\n    result_name = value_name + second_name\n    return [result_name, result_name, b'other bytes value', b'other bytes value', None, None, None, None]\nprint(beta(1, 2), 1 + 2)\n", {'rename_globals': True}),
    ("deep_value = " + " + ".join(["term_name"] * 150) + "\nprint(deep_value)\n", {}),
    ("class Gamma:\n    def method(self, argument_name):\n        local_name = argument_name\n        return local_name * 24 * 60\nprint(Gamma().method(2), 'third literal', 'third literal')\n", {'remove_literal_statements': True}),
    # the smallest program that still hoists, renames, folds and prints an f-string: the one explored at bytecode granularity (thorough tier)
    ("def f(argument_name):\n    return [argument_name, 'literal text', 'literal text', f'{argument_name!r}', 2 * 3]\n", {}),
]
TINY = 4


def thread_bodies(indices):
    import python_minifier

    def make(i):
        src, kw = THREAD_PROGRAMS[i]
        return lambda: python_minifier.minify(src, **kw)
    return [make(i) for i in indices]


def check_schedules(tier, part, nparts, res):
    from mc import sched
    import python_minifier
    import python_minifier.f_string  # noqa: F401
    # warm every lazy import and cache so that no real lock (import lock) is ever held at a scheduling point
    expected = []
    for src, kw in THREAD_PROGRAMS:
        expected.append(python_minifier.minify(src, **kw))
        python_minifier.minify(src, **kw)
    plans = []
    pairs = [(0, 1), (1, 0)] if tier == 'quick' else [p for p in itertools.permutations(range(4), 2) if p[0] != 2]      # the deep program (2) is never the one preempted at every line
    for a, b in pairs:
        plans.append(('line', (a, b)))
    n = 0
    for gran, idxs in plans:
        bodies = thread_bodies(idxs)
        # bound 0 + measure the number of scheduling points of each thread when it runs first
        results, points = sched.Run(bodies, [], gran).execute()
        verify(results, idxs, expected, res, {'gran': gran, 'threads': list(idxs), 'schedule': []}, False)
        npoints = points[0]
        for k in range(1, npoints + 1):
            n += 1
            if n % nparts != part:
                continue
            schedule = [(0, k), (1, None)]
            case = {'gran': gran, 'threads': list(idxs), 'schedule': schedule}
            out = run_schedule(idxs, schedule, gran)
            if out[0] == 'diverged' or out[2][0] != npoints:
                # the preempted thread took a different path (or never finished) because another thread ran in between: replay the very same
                # schedule; the same observation twice is interference between the threads, a different one is a harness problem
                again = run_schedule(idxs, schedule, gran)
                if again[0] != out[0] or (out[0] == 'ok' and again[2] != out[2]):
                    raise core.HarnessError('nondeterministic replay of schedule %r: %r then %r' % (schedule, out[:1] + out[2:], again[:1] + again[2:]))
                res.count('evaluations')
                res.count('transitions')
                res.count('distinct_nontrivial')
                res.violation('thread-path-depends-on-schedule:program%d' % idxs[0], dict(case, kind='sched'),
                              'threads %s schedule %s: the preempted thread %s (it passes %d scheduling points when run alone)' % (
                                  list(idxs), schedule, 'never finished / deadlocked: ' + str(out[1]) if out[0] == 'diverged' else 'passed %d scheduling points' % out[2][0], npoints))
                continue
            verify(out[1], idxs, expected, res, case, True)
    # two preemptions close to the entry of both calls (call granularity): the window in which a call that saves / changes / restores
    # process-wide state overlaps another one doing the same
    early = 16 if tier == 'quick' else 40
    for a, b in [(0, 1), (0, 2), (2, 1)]:
        idxs = (a, b)
        for k1 in range(1, early + 1):
            for k2 in range(1, early + 1):
                n += 1
                if n % nparts != part:
                    continue
                schedule = [(0, k1), (1, k2), (0, None), (1, None)]
                out = run_schedule(idxs, schedule, 'call')
                case = {'gran': 'call', 'threads': list(idxs), 'schedule': schedule}
                if out[0] == 'diverged':
                    res.violation('thread-path-depends-on-schedule:program%d' % idxs[0], dict(case, kind='sched'), out[1])
                    continue
                verify(out[1], idxs, expected, res, case, True)
    if tier == 'thorough':
        # pairs of preemptions at call granularity, and three threads at bound 1
        for a, b in [(0, 1), (1, 3)]:
            idxs = (a, b)
            results, points = sched.Run(thread_bodies(idxs), [], 'call').execute()
            na = points[0]
            results, points = sched.Run(thread_bodies((b, a)), [], 'call').execute()
            nb = points[0]
            for k1 in range(1, na + 1):
                for k2 in range(1, nb + 1):
                    n += 1
                    if n % nparts != part:
                        continue
                    schedule = [(0, k1), (1, k2), (0, None), (1, None)]
                    out = run_schedule(idxs, schedule, 'call')
                    if out[0] == 'diverged':
                        res.violation('thread-path-depends-on-schedule:program%d' % idxs[0], {'gran': 'call', 'threads': list(idxs), 'schedule': schedule, 'kind': 'sched'}, out[1])
                        continue
                    verify(out[1], idxs, expected, res, {'gran': 'call', 'threads': list(idxs), 'schedule': schedule}, True)
        # every single preemption at BYTECODE granularity of the smallest program (a switch between two instructions of one line - e.g. between
        # the load and the store of `x.count += 1` - is invisible at line granularity)
        idxs = (TINY, 1)
        sched.Run(thread_bodies(idxs), [], 'opcode').execute()      # the first opcode-traced execution of a process instruments lazily: warm up
        results, points = sched.Run(thread_bodies(idxs), [], 'opcode').execute()
        verify(results, idxs, expected, res, {'gran': 'opcode', 'threads': list(idxs), 'schedule': []}, False)
        nop = points[0]
        res.notes['opcode_points_of_smallest_program'] = nop
        for k in range(1, nop + 1):
            n += 1
            if n % nparts != part:
                continue
            schedule = [(0, k), (1, None)]
            case = {'gran': 'opcode', 'threads': list(idxs), 'schedule': schedule}
            out = run_schedule(idxs, schedule, 'opcode')
            if out[0] == 'diverged' or out[2][0] != nop:
                again = run_schedule(idxs, schedule, 'opcode')
                if again[0] != out[0] or (out[0] == 'ok' and again[2] != out[2]):
                    raise core.HarnessError('nondeterministic replay of schedule %r: %r then %r' % (schedule, out[:1] + out[2:], again[:1] + again[2:]))
                res.count('evaluations')
                res.count('transitions')
                res.count('distinct_nontrivial')
                res.violation('thread-path-depends-on-schedule:program%d' % idxs[0], dict(case, kind='sched'),
                              'threads %s schedule %s (bytecode granularity): the preempted thread %s' % (list(idxs), schedule, out[1] if out[0] == 'diverged' else 'passed %d points instead of %d' % (out[2][0], nop)))
                continue
            verify(out[1], idxs, expected, res, case, True)
        idxs = (0, 1, 3)
        results, points = sched.Run(thread_bodies(idxs), [], 'line').execute()
        for k in range(1, points[0] + 1):
            for order in ((1, 2), (2, 1)):
                n += 1
                if n % nparts != part:
                    continue
                schedule = [(0, k), (order[0], None), (order[1], None)]
                out = run_schedule(idxs, schedule, 'line')
                if out[0] == 'diverged':
                    res.violation('thread-path-depends-on-schedule:program%d' % idxs[0], {'gran': 'line', 'threads': list(idxs), 'schedule': schedule, 'kind': 'sched'}, out[1])
                    continue
                verify(out[1], idxs, expected, res, {'gran': 'line', 'threads': list(idxs), 'schedule': schedule}, True)


def run_schedule(idxs, schedule, gran):
    from mc import sched
    before = interpreter_state()
    try:
        results, pts = sched.Run(thread_bodies(idxs), schedule, gran).execute()
    except sched.Diverged as e:
        return ('diverged', str(e), None)
    after = interpreter_state()
    if after != before:
        # restore what can be restored so that later schedules start from the same state, and report
        sys.setrecursionlimit(before[0])
        results = list(results) + [('state', 'interpreter-wide state changed by the concurrent calls: %r -> %r' % (before, after))]
    return ('ok', results, pts)


def verify(results, idxs, expected, res, case, preempted):
    res.count('evaluations')
    res.count('transitions')
    if preempted:
        res.count('distinct_nontrivial')
    ok = True
    for extra in results[len(idxs):]:
        ok = False
        res.violation('process-state-changed-under-schedule', dict(case, kind='sched'), 'threads %s schedule %s: %s' % (list(idxs), case['schedule'], extra[1]))
    for pos, i in enumerate(idxs):
        r = results[pos]
        if r != ('ok', expected[i]):
            ok = False
            res.violation('thread-result-differs:program%d' % i, dict(case, kind='sched'),
                          'threads %s schedule %s (%s granularity): thread running program %d returned\n%r\nexpected\n%r' % (
                              list(idxs), case['schedule'], case['gran'], i, r, expected[i]))
    if ok:
        res.count('traces_validated_against_impl')
    res.sample(dict(case), 1)


# ---- tasks ---------------------------------------------------------------------------------------------------------------------------------------

CORE_CALLS = ['rename+L1', 'typeparam+L1', 'all+G1', 'ann+RA', 'ann-default', 'hints', 'midfail', 'hoist2', 'fold2', 'shebang+hugeint', 'hugehex']


def histories(depth, tier='thorough'):
    for d in range(1, depth + 1):
        names = CALL_NAMES if (d <= 2 or tier == 'thorough') else CORE_CALLS       # quick: depth 3 over the 8 calls that share objects / raise
        for h in itertools.product(names, repeat=d):
            yield h


def run_task(task):
    res = core.Result()
    kind = task[0]
    if kind == 'fresh':
        reference()
        # the same reference computed twice in separate processes must agree (determinism of the reference itself)
        again = fresh_reference()
        if again != {k: list(v) for k, v in reference().items()} and again != reference():
            raise core.HarnessError('fresh-process reference is not reproducible')
    elif kind == 'histories':
        _, depth, part, nparts = task
        for i, h in enumerate(histories(depth, 'quick' if depth == 3 else 'thorough')):
            if i % nparts == part:
                check_history(h, res)
    elif kind == 'setorder':
        _, part, nparts = task
        check_setorder(part, nparts, res)
    elif kind == 'seeds':
        seed = task[1]
        out = run_seed_worker(seed, task[2] if len(task) > 2 else 'quick')
        res.notes['seed:%s' % seed] = hashlib.sha256(json.dumps(out, sort_keys=True).encode()).hexdigest()[:16]
        res.sets.setdefault('seed_outputs', set()).add((str(seed), json.dumps(out, sort_keys=True)))
        res.count('evaluations', len(out))
        res.count('transitions', len(out))
        if str(seed) != '0':
            res.count('distinct_nontrivial', len(out))
    elif kind == 'sched':
        _, tier, part, nparts = task
        check_schedules(tier, part, nparts, res)
    return res


def run_seed_worker(seed, tier, only=None):
    cmd = [sys.executable, WORKER, 'seeds', core.HERE, tier] + ([','.join(only)] if only else [])
    p = subprocess.run(cmd, env=env(seed), stdout=subprocess.PIPE, stderr=subprocess.PIPE)
    if p.returncode != 0:
        raise core.HarnessError('seed worker failed: %s' % p.stderr.decode()[-1500:])
    return json.loads(p.stdout.decode())


def finish(total, tier):
    outs = total.sets.pop('seed_outputs', set())
    by_seed = dict(outs)
    base = by_seed.get('0')
    if base is not None:
        b = json.loads(base)
        for seed, o in sorted(by_seed.items()):
            o = json.loads(o)
            diff = [k for k in b if b[k] != o.get(k)]
            if diff:
                total.violation('output-depends-on-hash-seed', {'seed': seed, 'programs': diff[:5], 'tier': tier},
                                'PYTHONHASHSEED=%s changes the output of %s (groups such as fstr:12 are index ranges of mc/gen enumerators)' % (seed, diff[:5]))
            else:
                total.counters['traces_validated_against_impl'] = total.counters.get('traces_validated_against_impl', 0) + len(o)
    for k in [k for k in total.notes if k.startswith('seed:')]:
        del total.notes[k]
    total.counters['states'] = len(total.sets.get('states', ())) or 1
    path = os.path.join(os.environ.get('VERIF_SCRATCH', '/var/tmp'), 'verif-c11-ref-%d.json' % os.getpid())
    if os.path.exists(path):
        os.unlink(path)


def replay(case):
    res = core.Result()
    if 'history' in case:
        check_history(case['history'], res)
    elif 'setorder' in case:
        check_setorder(0, 1, res)
    elif case.get('kind') == 'sched':
        from mc import sched
        import python_minifier
        expected = [python_minifier.minify(s, **kw) for s, kw in THREAD_PROGRAMS]
        out = run_schedule(case['threads'], [tuple(x) for x in case['schedule']], case['gran'])
        base = run_schedule(case['threads'], [], case['gran'])
        if out[0] == 'diverged' or (base[0] == 'ok' and out[2][0] != base[2][0]):
            return {'signature': 'thread-path-depends-on-schedule:program%d' % case['threads'][0], 'detail': repr(out[:1] + out[2:])}
        verify(out[1], case['threads'], expected, res, case, True)
    elif 'seed' in case:
        groups = [k for k in case['programs'] if '|' not in k]
        a = run_seed_worker('0', case.get('tier', 'quick'), groups or ['none:0'])
        b = run_seed_worker(case['seed'], case.get('tier', 'quick'), groups or ['none:0'])
        diff = [k for k in case['programs'] if a.get(k) != b.get(k)]
        if diff:
            return {'signature': 'output-depends-on-hash-seed', 'detail': 'PYTHONHASHSEED=%s changes the output of %s' % (case['seed'], diff)}
        return None
    for v in res.violations:
        return {'signature': v['signature'], 'detail': v['detail']}
    return None
