"""C10 — names the user asks to preserve are preserved (and nothing else changes).

Space: G_scope programs of the tier (plus G_feat singles) x option sets {rename_locals}, {rename_locals, rename_globals},
{rename_locals, hoist_literals}, {all three} x preserve specification: every subset (size <= 2, and the full set) of the names that the
same call WITHOUT a preserve list would respell, passed as preserve_locals list / preserve_globals list / both / a single string;
a literal __all__ in seven spellings (plain list, augmented +=, annotated, with non-string entries, chained assignment with __all__ first / last, rebound) for module-level names; and
awslambda(entrypoint=name|None).
Oracle: every binding site and reference whose input binding is function-level and listed in preserve_locals, or module-level and listed in
preserve_globals / __all__ / the entrypoint, keeps its spelling; the C03 bijection still holds (no other binding takes that spelling where
it is visible); the output aligns with the un-renamed print without any structural difference (preserving changes spellings only).
"""
import ast
import copy
import itertools

from mc import core, pm, scope_engine
from mc.oracle import alpha

ID = 'C10'
LEVEL = 'exploration'
RULE = ('cases: (program, option set, preserve specification). Preserve lists are drawn from the names the renamer would otherwise respell in '
        'that very program, so every case is one where preservation has something to do; a case is non-trivial when the output without the '
        'preserve list differs from the output with it, counted once per distinct (program, options, specification).')
ASSUMPTIONS = [
    'a name listed in preserve_locals is checked on function/lambda/comprehension/class-level bindings, one in preserve_globals on module-level bindings',
    'bound: names alphabet of the generated programs; lists of <= 3 names',
]
NPARTS = 64
RL, RG, H = 'rename_locals', 'rename_globals', 'hoist_literals'
OPTS = [frozenset([RL]), frozenset([RL, RG]), frozenset([RL, H]), frozenset([RL, RG, H])]


def bound(tier):
    return {'scopes_under_module': 2 if tier == 'quick' else 3, 'option_sets': len(OPTS), 'preserve_list_max': 3}


def tasks(tier):
    return [('scope', tier, i, NPARTS) for i in range(NPARTS)] + [('feat', tier, i, 8) for i in range(8)]


def specs_for(renamed_local, renamed_global, on):
    """preserve specifications: list of (label, kwargs, expected-preserved-locals, expected-preserved-globals)"""
    out = []
    names_l = sorted(renamed_local)[:3]
    names_g = sorted(renamed_global)[:3]
    subsets_l = [c for k in (1, 2) for c in itertools.combinations(names_l, k)] + ([tuple(names_l)] if len(names_l) > 2 else [])
    subsets_g = [c for k in (1, 2) for c in itertools.combinations(names_g, k)] + ([tuple(names_g)] if len(names_g) > 2 else [])
    for c in subsets_l:
        out.append(('locals-list', {'preserve_locals': list(c)}, set(c), set()))
        if len(c) == 1:
            out.append(('locals-str', {'preserve_locals': c[0]}, set(c), set()))
    if RG in on:
        for c in subsets_g:
            out.append(('globals-list', {'preserve_globals': list(c)}, set(), set(c)))
            if len(c) == 1:
                out.append(('globals-str', {'preserve_globals': c[0]}, set(), set(c)))
        if subsets_l and subsets_g:
            out.append(('both', {'preserve_locals': list(subsets_l[0]), 'preserve_globals': list(subsets_g[0])}, set(subsets_l[0]), set(subsets_g[0])))
    # a name in the other list must have no effect on that kind of binding, but is harmless: covered by 'nothing else changes'
    return out


ALL_FORMS = [
    ('all-plain', "__all__=[{names}]\n"),
    ('all-aug', "__all__=[]\n__all__+=[{names}]\n"),
    ('all-ann', "__all__:list=[{names}]\n"),
    ('all-mixed', "__all__=[{names},1,None]\n"),
    # chained assignments (the __all__ target first / last) and a list that replaces an earlier one
    ('all-chained-last', "exported_=__all__=[{names}]\n"),
    ('all-chained-first', "__all__=exported_=[{names}]\n"),
    ('all-rebound', "__all__=[]\n__all__=[{names}]\n"),
]


def examine(desc, src, res, with_all=True):
    if scope_engine.try_compile(src) is None:
        res.count('not_compilable')
        return
    res.count('programs')
    try:
        base = pm.minify(src, pm.ALL_OFF)
        tin = ast.parse(base)
    except Exception:
        return
    for on in OPTS:
        try:
            plain = pm.minify(src, on)
        except Exception:
            continue
        r0 = alpha.check(base, plain)
        if r0.problems or not r0.name_map:
            res.count('evaluations')
            continue
        renamed_local = set(b[2] for b in r0.name_map if b[0] == 'local' and b[1] != 0)
        renamed_global = set(b[2] for b in r0.name_map if b[0] == 'local' and b[1] == 0)
        for label, kw, pl, pg in specs_for(renamed_local, renamed_global, on):
            res.count('evaluations')
            v, out = violation_for(src, base, on, kw, pl, pg)
            if out is not None and out != plain:
                res.count('distinct_nontrivial')
            for kind, detail in v:
                res.violation('%s:%s|%s' % (kind, label, desc[:150]), {'desc': desc, 'source': src, 'options': sorted(on), 'kw': kw, 'label': label,
                                                                     'pl': sorted(pl), 'pg': sorted(pg)}, detail)
        if with_all and RG in on and renamed_global:
            names = sorted(renamed_global)[:2]
            for flabel, form in ALL_FORMS:
                src2 = form.format(names=','.join(repr(n) for n in names)) + src
                try:
                    base2 = pm.minify(src2, pm.ALL_OFF)
                except Exception:
                    continue
                res.count('evaluations')
                v, out = violation_for(src2, base2, on, {}, set(), set(names))
                if out is not None:
                    res.count('distinct_nontrivial')
                for kind, detail in v:
                    res.violation('%s:%s|%s' % (kind, flabel, desc[:150]), {'desc': desc, 'source': src2, 'options': sorted(on), 'kw': {}, 'label': flabel,
                                                                          'pl': [], 'pg': names}, detail)
            # awslambda entry point
            for ep in (names[0], None):
                res.count('evaluations')
                v = awslambda_violation(src, ep)
                res.count('distinct_nontrivial')
                for kind, detail in v:
                    res.violation('%s:awslambda|%s' % (kind, desc[:150]), {'desc': desc, 'source': src, 'entrypoint': ep, 'options': [], 'kw': {}}, detail)
    res.sample({'desc': desc, 'source': src[:300]}, 2)


def preserved_problems(r, pl, pg):
    problems = []
    al, ain, aout = r.alignment, r.ain, r.aout
    for a, sa, b, sb, role in al.pairs:
        si = ain.by_key.get((id(a), sa))
        so = aout.by_key.get((id(b), sb))
        if si is None or so is None or si.name == so.name:
            continue
        bi = si.binding
        if bi[0] == 'local' and bi[1] != 0 and si.name in pl:
            problems.append(('preserved-local-renamed', '%r (%s) -> %r' % (si.name, bi, so.name)))
        if bi[0] == 'local' and bi[1] == 0 and si.name in pg:
            problems.append(('preserved-global-renamed', '%r -> %r' % (si.name, so.name)))
    return problems


def violation_for(src, base, on, kw, pl, pg):
    kwc = copy.deepcopy(kw)
    try:
        out = pm.minify(src, on, **kwc)
    except Exception as e:
        return [('minify-raises:%s' % type(e).__name__, repr(e))], None
    hdr = 'options %s %r\nin (all transforms off):\n%s\nout:\n%s\n' % (pm.optkey(on), kw, base, out)
    r = alpha.check(base, out)
    problems = [(k, hdr + m) for k, m in r.problems]
    if not r.problems:
        problems += [(k, hdr + m) for k, m in preserved_problems(r, pl, pg)]
    uniq = {}
    for k, d in problems:
        uniq.setdefault(k, d)
    return sorted(uniq.items()), out


def awslambda_violation(src, ep):
    import python_minifier
    try:
        out = python_minifier.awslambda(src, entrypoint=ep)
        base = pm.minify(src, frozenset(['remove_literal_statements', 'remove_pass', 'combine_imports', 'remove_object_base',
                                         'remove_explicit_return_none', 'remove_builtin_exception_brackets', 'constant_folding',
                                         'remove_variable_annotations', 'remove_return_annotations', 'remove_argument_annotations',
                                         'preserve_shebang']))
    except Exception as e:
        return [('awslambda-raises:%s' % type(e).__name__, repr(e))]
    hdr = 'awslambda(entrypoint=%r)\nin:\n%s\nout:\n%s\n' % (ep, base, out)
    r = alpha.check(base, out)
    problems = [(k, hdr + m) for k, m in r.problems]
    if not r.problems:
        if ep is None:
            # no entry point: global renaming must be off altogether
            for b, newname in r.name_map.items():
                if b[0] == 'local' and b[1] == 0:
                    problems.append(('global-renamed-without-entrypoint', hdr + '%r -> %r' % (b[2], newname)))
                    break
        else:
            problems += [(k, hdr + m) for k, m in preserved_problems(r, set(), {ep})]
    return problems[:1]


def run_task(task):
    res = core.Result()
    kind, tier, part, nparts = task
    if kind == 'scope':
        if tier == 'quick':
            plan = [(1, 'full', 'full', lambda i, n: 'full', (False,)), (2, 'core', 'core', lambda i, n: 'core', (False,))]
        else:
            plan = [(1, 'full', 'full', lambda i, n: 'full', (False, True)), (2, 'mid', 'mid', lambda i, n: 'core', (False,)), (3, 'core', 'core', lambda i, n: 'tiny', ('chain',))]
        for desc, src in scope_engine.programs(tier, part, nparts, plan):
            examine(desc, src, res)
    else:
        from mc.gen import feat
        for i, (desc, src) in enumerate(feat.programs('quick')):
            if '+' in desc and tier == 'quick':
                continue
            if i % nparts == part:
                examine(desc, src, res)
    return res


def replay(case):
    src = case['source']
    if 'entrypoint' in case:
        for kind, detail in awslambda_violation(src, case['entrypoint']):
            return {'signature': '%s:awslambda|%s' % (kind, case['desc'][:150]), 'detail': detail}
        return None
    base = pm.minify(src, pm.ALL_OFF)
    v, _ = violation_for(src, base, frozenset(case['options']), case['kw'], set(case['pl']), set(case['pg']))
    for kind, detail in v:
        return {'signature': '%s:%s|%s' % (kind, case.get('label', ''), case['desc'][:150]), 'detail': detail}
    return None
