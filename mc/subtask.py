"""Run one task of a check under THIS interpreter and print its Result as JSON:  python -m mc.subtask <check module> <json task>

Used by the scope-tree checks to repeat (part of) their space under the other installed interpreters: python_minifier is imported from
$VERIF_REPO/src by the interpreter that runs this file, so minification, compilation, symbol tables and execution are all that version's."""
import importlib
import json
import sys


def main():
    mod = importlib.import_module(sys.argv[1])
    task = tuple(json.loads(sys.argv[2]))
    res = mod.run_task(task)
    out = {'counters': res.counters, 'violations': res.violations, 'sig_count': res._sig_count, 'samples': res.samples[:1],
           'python': '.'.join(map(str, sys.version_info[:3]))}
    sys.stdout.write(json.dumps(out, default=repr))


def run_under(exe, modname, task, res, label):
    """parent side: run `task` of check `modname` under interpreter `exe`, merge counters / violations (signature prefixed with the version)"""
    import os
    import subprocess
    from mc import core
    env = dict(os.environ)
    env['PYTHONPATH'] = os.path.join(os.environ.get('VERIF_REPO', '/repo'), 'src') + os.pathsep + core.HERE
    env['PYTHONHASHSEED'] = '0'
    env['PYTHONWARNINGS'] = 'ignore'
    p = subprocess.run([exe, '-m', 'mc.subtask', modname, json.dumps(list(task))], env=env, stdout=subprocess.PIPE, stderr=subprocess.PIPE, cwd=core.HERE)
    if p.returncode != 0:
        raise core.HarnessError('subtask %r of %s failed under %s: %s' % (task, modname, exe, p.stderr.decode('utf-8', 'replace')[-2000:]))
    out = json.loads(p.stdout.decode('utf-8'))
    for k, v in out['counters'].items():
        if k in ('evaluations', 'distinct_nontrivial', 'violation_instances'):
            res.count(k, v)
        res.count('%s_%s' % (label, k), v)
    for v in out['violations']:
        case = dict(v['case'], interpreter=exe, subtask=list(task))
        res.violation('%s:%s' % (label, v['signature']), case, v['detail'])


def interp_tasks(tier):
    """('interp', version, exe, sub-tier, part, nparts) tasks: quick = the 'interp' plan under the oldest and the newest other interpreter;
    thorough = the whole quick-tier space under every other 3.7+ interpreter (3.6's symtable misreports class-level global declarations)"""
    from mc.checks import c02
    vers = [(v, exe) for v, exe in c02.interpreters(tier) if v.startswith('3.') and not v.startswith(('3.6.', '3.12.'))]
    vers.sort(key=lambda t: tuple(int(x) for x in t[0].split('.')[:2]))
    if not vers:
        return []
    if tier == 'quick':
        vers = [vers[0], vers[-1]] if len(vers) > 1 else vers
    n = 16
    return [('interp', v, exe, 'interp' if tier == 'quick' else 'quick', i, n) for v, exe in vers for i in range(n)]


def run_interp_task(modname, task, res):
    from mc.checks import c02
    _, ver, exe, sub_tier, part, nparts = task
    run_under(exe, modname, ('scope', sub_tier, part, nparts), res, 'py' + c02.pyver(ver))
    return res


def replay_under(modname, case):
    """replay a case that was found under another interpreter, under that interpreter"""
    import os
    import subprocess
    from mc import core
    inner = dict((k, v) for k, v in case.items() if k not in ('interpreter', 'subtask'))
    env = dict(os.environ)
    env['PYTHONPATH'] = os.path.join(os.environ.get('VERIF_REPO', '/repo'), 'src') + os.pathsep + core.HERE
    env['PYTHONHASHSEED'] = '0'
    code = 'import json,sys,importlib; m=importlib.import_module(%r); print(json.dumps(m.replay(json.loads(sys.stdin.read())), default=repr))' % modname
    p = subprocess.run([case['interpreter'], '-c', code], input=json.dumps(inner).encode('utf-8'), env=env, stdout=subprocess.PIPE, stderr=subprocess.PIPE, cwd=core.HERE)
    if p.returncode != 0:
        raise core.HarnessError('replay under %s failed: %s' % (case['interpreter'], p.stderr.decode('utf-8', 'replace')[-1500:]))
    r = json.loads(p.stdout.decode('utf-8').strip().splitlines()[-1])
    if r:
        from mc.checks import c02
        ver = subprocess.run([case['interpreter'], '-c', 'import sys;print("%d.%d"%sys.version_info[:2])'], stdout=subprocess.PIPE).stdout.decode().strip()
        r['signature'] = 'py%s:%s' % (ver, r['signature'])
    return r


if __name__ == '__main__':
    main()
