"""alpha: decide whether an output program is alpha-equivalent to an input program modulo the renamer's permitted rewrites.

check(src_in, src_out) -> list of (kind, message) problems (empty = equivalent).  Uses walk2 for the alignment and scopes for resolution of
both sides independently; nothing from python_minifier.
"""
import ast

from mc.oracle import scopes, walk2, strict_ast


class UF(object):
    def __init__(self):
        self.p = {}

    def find(self, x):
        while self.p.get(x, x) != x:
            x = self.p[x]
        return x

    def union(self, a, b):
        ra, rb = self.find(a), self.find(b)
        if ra == rb:
            return
        if ra[0] in ('builtin', 'unbound'):      # builtin / unbound names are the preferred representatives
            self.p[rb] = ra
        else:
            self.p[ra] = rb


class Result(object):
    def __init__(self):
        self.problems = []
        self.renamed_bindings = 0       # input bindings whose spelling changed
        self.hoisted = 0
        self.inserted = 0
        self.alignment = None
        self.ain = None
        self.aout = None
        self.name_map = {}              # in binding -> out name

    def add(self, kind, msg):
        self.problems.append((kind, msg))


def check(src_in, src_out, tin=None, tout=None):
    r = Result()
    tin = tin or ast.parse(src_in)
    tout = tout or ast.parse(src_out)
    al = walk2.align(tin, tout)
    r.alignment = al
    for d in al.diffs:
        r.add('unexplained-difference', d)
    if al.diffs:
        return r
    ain = scopes.analyse(tin)
    aout = scopes.analyse(tout)
    r.ain, r.aout = ain, aout
    uf = UF()
    hoisted = {}            # out binding -> constant node
    alias_targets = {}      # out binding of an inserted alias -> stmt
    r.inserted = len(al.inserted)
    for st, parent in al.inserted:
        tsite = aout.by_key.get((id(st.targets[0]), 0))
        if tsite is None:
            r.add('harness', 'inserted statement target has no site')
            continue
        bt = tsite.binding
        if bt in alias_targets:
            r.add('alias-bound-twice', 'inserted name %r is assigned by two inserted statements' % (tsite.name,))
        alias_targets[bt] = st
        if isinstance(st.value, ast.Name):
            vsite = aout.by_key[(id(st.value), 0)]
            uf.union(bt, vsite.binding)
        else:
            hoisted[bt] = st.value
    # an inserted name must have exactly one store (the inserted statement), no del, no global/nonlocal redeclaration elsewhere
    stores = {}
    for s in aout.sites:
        if s.ctx in ('store', 'del', 'decl-store'):
            stores.setdefault(s.binding, []).append(s)
    for bt, st in alias_targets.items():
        if isinstance(st.value, ast.Name) and aout.by_key[(id(st.value), 0)].binding[0] == 'local':
            continue        # `A = param`: the body may legitimately rebind or delete what used to be the parameter
        extra = [s for s in stores.get(bt, []) if s.node is not st.targets[0]]
        if extra:
            r.add('alias-rebound', 'inserted name %r (%s) is also bound at %d other site(s)' % (walk2.name_of(st.targets[0], 0), bt, len(extra)))
    # map input bindings to output bindings through the aligned sites
    fwd, bwd = {}, {}
    for a, sa, b, sb, role in al.pairs:
        si = ain.by_key.get((id(a), sa))
        so = aout.by_key.get((id(b), sb))
        if si is None or so is None:
            r.add('harness', 'aligned identifier without a site (%s)' % role)
            continue
        bi, bo = si.binding, uf.find(so.binding)
        if si.name != so.name:
            r.name_map[bi] = so.name
        if bi[0] in ('builtin', 'unbound', 'unbound-nonlocal'):
            if bo != bi:
                r.add('free-name-captured', 'name %r (%s) now resolves to %s (spelled %r)' % (si.name, bi[0], bo, so.name))
            continue
        if bo[0] in ('builtin', 'unbound', 'unbound-nonlocal'):
            r.add('binding-lost', 'name %r bound as %s now resolves to %s (spelled %r)' % (si.name, bi, bo, so.name))
            continue
        if bi in fwd and fwd[bi] != bo:
            r.add('binding-split', 'occurrences of %r (%s) now refer to different bindings %s and %s' % (si.name, bi, fwd[bi], bo))
        fwd.setdefault(bi, bo)
        if bo in bwd and bwd[bo] != bi:
            r.add('bindings-merged', 'distinct bindings %s and %s now share binding %s (spelled %r)' % (bwd[bo], bi, bo, so.name))
        bwd.setdefault(bo, bi)
        # scopes must correspond: a binding stays in the scope with the same pre-order index
        if bi[0] == 'local' and bo[0] == 'local' and bi[1] != bo[1]:
            r.add('binding-moved', '%r: owning scope #%d -> #%d' % (si.name, bi[1], bo[1]))
    r.renamed_bindings = len(r.name_map)
    # hoisted literals: the replacing name must resolve to an inserted alias whose constant is strictly the same literal
    for c, n in al.hoists:
        so = aout.by_key[(id(n), 0)]
        bo = so.binding
        if bo not in hoisted:
            r.add('hoist-site-not-alias', 'literal %r replaced by %r which resolves to %s, not to an inserted constant alias' % (c.value, so.name, bo))
            continue
        if not strict_ast._const_eq(hoisted[bo].value, c.value):
            r.add('hoist-value-differs', 'literal %r replaced by %r = %r' % (c.value, so.name, hoisted[bo].value))
        r.hoisted += 1
    # inserted alias names must not be visible to / collide with an input binding that maps elsewhere: covered by bindings-merged above,
    # because the alias binding would then be the image of two sources.  Additionally an alias for a parameter leaves the parameter with
    # no other references.
    for bt, st in alias_targets.items():
        if isinstance(st.value, ast.Name):
            vb = aout.by_key[(id(st.value), 0)].binding
            if vb[0] == 'local' and bt[0] == 'local' and vb[1] == bt[1] and bt[1] != 0:
                # `A = param` at the head of a function: every other reference must have moved to the new name
                others = [s for s in aout.sites if s.binding == vb and s.node is not st.value and s.role != 'param']
                if others:
                    r.add('param-alias-incomplete', 'parameter %r is re-bound to %r but still referenced directly %d time(s)' % (
                        vb[2], walk2.name_of(st.targets[0], 0), len(others)))
    return r
