"""audit: record interpreter audit events for the duration of a minify call and judge them.

Allowed: compile/exec of *closed literal expressions* (Expression/Constant/BinOp/UnaryOp/operators/JoinedStr without FormattedValue, no names,
calls, attributes, subscripts, imports), and the parse of the source itself / of candidate outputs (compile events with ast flags or whose
code is never executed).  Anything else attributable to the input - import, open, os.*, subprocess.*, socket.*, ctypes.* - is a violation.
"""
import ast
import sys

_active = {'rec': None}
_installed = [False]


def _hook(event, args):
    rec = _active['rec']
    if rec is None:
        return
    if event in ('compile', 'exec', 'import', 'open') or event.startswith(('os.', 'subprocess.', 'socket.', 'ctypes.', 'urllib.', 'shutil.', 'pty.', 'winreg.', 'ftplib.', 'http.', 'smtplib.')):
        rec.append((event, args))


def install():
    if not _installed[0]:
        sys.addaudithook(_hook)
        _installed[0] = True


class Recorder(object):
    def __enter__(self):
        install()
        self.events = []
        _active['rec'] = self.events
        return self

    def __exit__(self, *a):
        _active['rec'] = None
        return False


PSEUDO_FILENAMES = ('python_minifier.minify source', 'python_minifier.unparse output', 'FString candidate', 'python_minifier.f_string output',
                    'folded expression', '<string>')
_ALLOWED = (ast.Expression, ast.Constant, ast.BinOp, ast.UnaryOp, ast.operator, ast.unaryop, ast.JoinedStr, ast.expr_context)


def closed_literal_source(src):
    """True when src parses (as an expression) to a tree of literals and arithmetic only"""
    if isinstance(src, bytes):
        try:
            src = src.decode('utf-8')
        except UnicodeDecodeError:
            return False
    try:
        tree = ast.parse(src, mode='eval')
    except (SyntaxError, ValueError):
        return False
    return all(isinstance(n, _ALLOWED) for n in ast.walk(tree))


def code_is_closed(code):
    if code.co_names or code.co_varnames or code.co_freevars or code.co_cellvars:
        return False
    for c in code.co_consts:
        if hasattr(c, 'co_code'):
            return False
    return True


def judge(events, allowed_imports=()):
    """returns list of (kind, detail) problems"""
    problems = []
    for event, args in events:
        if event == 'exec':
            code = args[0]
            if not code_is_closed(code):
                problems.append(('executed-open-code', 'code object %r names=%r varnames=%r consts=%r' % (code.co_filename, code.co_names, code.co_varnames, code.co_consts[:5])))
        elif event == 'import':
            name = args[0]
            if name.startswith('python_minifier') or name in allowed_imports:
                continue
            problems.append(('import', 'import of %r during minify' % (name,)))
        elif event == 'compile':
            continue        # parsing is not execution; what gets executed is judged at its exec event
        elif event == 'open' and args and args[0] in PSEUDO_FILENAMES and args[1] in ('r', 'rb'):
            continue        # the interpreter looking for the source line of a SyntaxError under the fixed pseudo file name
        else:
            problems.append((event, repr(args)[:200]))
    return problems
