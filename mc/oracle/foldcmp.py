"""Compare an unfolded and a folded tree: find every place where they differ and evaluate both sides independently."""
import ast
import math

from mc.oracle import strict_ast


def diffs(a, b, out):
    """collect the topmost (node_a, node_b) pairs of expression subtrees that differ"""
    if isinstance(a, ast.AST) and isinstance(b, ast.AST):
        if isinstance(a, ast.expr) and isinstance(b, ast.expr) and strict_ast.diff(a, b) is not None:
            # descend only when same node type and same arity everywhere, to find the smallest differing expressions
            if type(a) is type(b) and not isinstance(a, ast.Constant):
                sub = []
                ok = True
                for f in a._fields:
                    va, vb = getattr(a, f, None), getattr(b, f, None)
                    if isinstance(va, list) and isinstance(vb, list):
                        if len(va) != len(vb):
                            ok = False
                            break
                        for x, y in zip(va, vb):
                            if isinstance(x, ast.AST) and isinstance(y, ast.AST):
                                if isinstance(x, ast.expr) or isinstance(x, (ast.comprehension, ast.keyword, ast.arguments, ast.arg)):
                                    diffs(x, y, sub)
                                elif strict_ast.diff(x, y) is not None:
                                    ok = False
                            elif x != y:
                                ok = False
                    elif isinstance(va, ast.AST) and isinstance(vb, ast.AST):
                        if isinstance(va, (ast.expr, ast.arguments)):
                            diffs(va, vb, sub)
                        elif strict_ast.diff(va, vb) is not None:
                            ok = False
                    elif va != vb and not (isinstance(va, ast.AST) or isinstance(vb, ast.AST)):
                        ok = False
                    elif (va is None) != (vb is None):
                        ok = False
                if ok and sub:
                    out.extend(sub)
                    return
            out.append((a, b))
            return
        if type(a) is not type(b):
            out.append((a, b))
            return
        for f in a._fields:
            va, vb = getattr(a, f, None), getattr(b, f, None)
            if isinstance(va, list) and isinstance(vb, list):
                if len(va) != len(vb):
                    out.append((a, b))
                    return
                for x, y in zip(va, vb):
                    if isinstance(x, ast.AST) and isinstance(y, ast.AST):
                        diffs(x, y, out)
            elif isinstance(va, ast.AST) and isinstance(vb, ast.AST):
                diffs(va, vb, out)


def describe(v):
    t = type(v).__name__
    if isinstance(v, float):
        if math.isnan(v):
            return (t, 'nan')
        return (t, repr(v), math.copysign(1.0, v))
    if isinstance(v, complex):
        return (t, describe(v.real), describe(v.imag))
    if isinstance(v, int) and not isinstance(v, bool):
        return (t, hex(v))      # repr() of a huge int hits the int->str digit limit
    return (t, repr(v))


def closed(node):
    return all(isinstance(n, (ast.Constant, ast.BinOp, ast.UnaryOp, ast.operator, ast.unaryop, ast.Load, ast.expr_context)) for n in ast.walk(node))


def too_expensive(node):
    def const(n):
        if isinstance(n, ast.UnaryOp):
            return const(n.operand)
        v = getattr(n, 'value', None)
        return v if isinstance(v, (int, float)) and not isinstance(v, bool) else None
    for n in ast.walk(node):
        if isinstance(n, ast.BinOp) and isinstance(n.op, (ast.Pow, ast.LShift)):
            r = n.right
            while isinstance(r, ast.UnaryOp):
                r = r.operand
            rv = const(r)
            if rv is None and isinstance(r, ast.BinOp) and isinstance(r.op, ast.Pow):
                rv = 10 ** 9
            if rv is not None and abs(rv) > 2000000:
                lv = const(n.left)
                if lv is None or abs(lv) not in (0, 1):
                    return True
    return False


def evaluate(node):
    from mc.core import time_limit, CaseTimeout
    if too_expensive(node):
        return ('too-expensive',)
    try:
        code = compile(ast.fix_missing_locations(ast.Expression(body=node)), '<fold>', 'eval')
        with time_limit(2):      # an expression the folder left alone because it is astronomically expensive stands for itself on both sides
            return describe(eval(code, {'__builtins__': {}}, {}))
    except CaseTimeout:
        return ('too-expensive',)
    except Exception as e:
        return ('raises', type(e).__name__)
