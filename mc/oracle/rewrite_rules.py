"""rewrite_rules: an independent reference implementation of the *documented* structural rewrites and their side conditions
(docs/source/transforms/*.rst), used as a canonicaliser.

canon(tree, on) applies every documented rewrite of the options in `on` wherever its stated condition holds, to a fixed point.  Because the
canonicaliser is maximal and idempotent, canon(P) == canon(minify(P)) exactly when every difference between P and minify(P) is an instance of
a documented rewrite of an enabled option at a place where its condition holds (a transform that declines to fire is normalised away; one that
fires with its option off, or outside its condition, is not).
"""
import ast
import builtins
import copy

from mc.oracle import scopes

BUILTIN_EXCEPTIONS = frozenset(n for n in dir(builtins) if isinstance(getattr(builtins, n), type) and issubclass(getattr(builtins, n), BaseException))


def _zero():
    return ast.Expr(value=ast.Constant(value=0))


def is_literal_statement(st):
    return isinstance(st, ast.Expr) and isinstance(st.value, ast.Constant) and st.value.value is not Ellipsis \
        and (st.value.value is None or isinstance(st.value.value, (bool, int, float, complex, str, bytes)))


DEBUG_TESTS = ('__debug__', '__debug__ is True', '__debug__ is not False', '__debug__ == True')


def is_debug_if(st):
    if not isinstance(st, ast.If) or st.orelse:
        return False
    t = st.test
    if isinstance(t, ast.Name) and t.id == '__debug__':
        return True
    if isinstance(t, ast.Compare) and len(t.ops) == 1 and isinstance(t.left, ast.Name) and t.left.id == '__debug__' \
            and isinstance(t.comparators[0], ast.Constant):
        c = t.comparators[0].value
        op = t.ops[0]
        return (isinstance(op, ast.Is) and c is True) or (isinstance(op, ast.IsNot) and c is False) or (isinstance(op, ast.Eq) and c is True)
    return False


class Canon(object):
    def __init__(self, tree, on):
        self.on = on
        self.tree = tree
        self.doc_attr = any(isinstance(n, ast.Attribute) and n.attr == '__doc__' for n in ast.walk(tree))
        self.doc_name = any(isinstance(n, ast.Name) and n.id == '__doc__' for n in ast.walk(tree))
        self.changed = False

    # ---- statement lists ---------------------------------------------------------------------------------------------------------------------
    def removable(self, st, parent):
        on = self.on
        if 'remove_pass' in on and isinstance(st, ast.Pass):
            return True
        if 'remove_literal_statements' in on and is_literal_statement(st) and not self.doc_attr:
            if isinstance(parent, ast.Module) and self.doc_name:
                return False
            return True
        if 'remove_asserts' in on and isinstance(st, ast.Assert):
            return True
        if 'remove_debug' in on and is_debug_if(st):
            return True
        return False

    def block(self, stmts, parent, function_body=False):
        out = []
        for st in stmts:
            if self.removable(st, parent):
                # a lone `0` placeholder is itself a literal statement: it is only "removed" to be put back, not a change
                continue
            out.append(st)
        if 'remove_explicit_return_none' in self.on and function_body and out and isinstance(out[-1], ast.Return) \
                and (out[-1].value is None or (isinstance(out[-1].value, ast.Constant) and out[-1].value.value is None)):
            out.pop()
        if 'combine_imports' in self.on:
            out = self.merge_imports(out)
        if not out and not isinstance(parent, ast.Module):
            out = [_zero()]
        return out

    def merge_imports(self, stmts):
        out = []
        for st in stmts:
            prev = out[-1] if out else None
            if isinstance(st, ast.Import) and isinstance(prev, ast.Import):
                out[-1] = ast.Import(names=prev.names + st.names)
            elif isinstance(st, ast.ImportFrom) and isinstance(prev, ast.ImportFrom) and st.module == prev.module and st.level == prev.level \
                    and not any(a.name == '*' for a in st.names + prev.names):
                out[-1] = ast.ImportFrom(module=prev.module, names=prev.names + st.names, level=prev.level)
            else:
                out.append(st)
        return out

    # ---- recursive rewrite -------------------------------------------------------------------------------------------------------------------
    SCOPES = (ast.Module, ast.ClassDef, ast.FunctionDef, ast.AsyncFunctionDef, ast.Lambda)

    def visit(self, node, parent=None, scope=None):
        """scope: the innermost scope node (module / class / function / lambda) that encloses `node`"""
        inner = node if isinstance(node, self.SCOPES) else scope

        def visit_child(x, p):
            return self.visit(x, p, inner)
        return self._visit_fields(node, parent, scope, visit_child)

    def _visit_fields(self, node, parent, scope, visit):
        on = self.on
        self_visit = visit
        for f in node._fields:
            v = getattr(node, f, None)
            if isinstance(v, list):
                if v and isinstance(v[0], ast.stmt):
                    new = [self_visit(x, node) for x in v]
                    fb = isinstance(node, (ast.FunctionDef, ast.AsyncFunctionDef)) and f == 'body'
                    setattr(node, f, self.block(new, node, fb))
                else:
                    setattr(node, f, [self_visit(x, node) if isinstance(x, ast.AST) else x for x in v])
            elif isinstance(v, ast.AST):
                setattr(node, f, self_visit(v, node))
        if isinstance(node, ast.Return) and 'remove_explicit_return_none' in on:
            if isinstance(node.value, ast.Constant) and node.value.value is None:
                node.value = None
        if isinstance(node, ast.ClassDef) and 'remove_object_base' in on:
            node.bases = [b for b in node.bases if not (isinstance(b, ast.Name) and b.id == 'object')]
        if isinstance(node, (ast.FunctionDef, ast.AsyncFunctionDef)):
            if 'remove_return_annotations' in on:
                node.returns = None
        if isinstance(node, ast.arg) and 'remove_argument_annotations' in on:
            node.annotation = None
        if isinstance(node, ast.arguments) and 'convert_posargs_to_args' in on and getattr(node, 'posonlyargs', None):
            node.args = node.posonlyargs + node.args
            node.posonlyargs = []
        if isinstance(node, ast.AnnAssign):
            # a class attribute is an annotated name whose nearest enclosing scope is a class body - also when the statement sits in an
            # if / try / with / for block of that body (it still lands in the class namespace and in __annotations__)
            in_class = isinstance(scope, ast.ClassDef)
            opt = 'remove_class_attribute_annotations' if in_class else 'remove_variable_annotations'
            if opt in on and not (in_class and annotation_sensitive_class(scope)):
                if node.value is not None:
                    return ast.Assign(targets=[node.target], value=node.value)
                node.annotation = ast.Constant(value=0)
        return node

    def exception_brackets(self, tree):
        if 'remove_builtin_exception_brackets' not in self.on:
            return
        a = scopes.analyse(tree)
        # the documented rule: a builtin exception that is not shadowed where it is raised, called with no arguments.  (The implementation
        # declines more often - tainted modules, names rebound anywhere - which the canonical form absorbs.)
        for node in ast.walk(tree):
            if isinstance(node, ast.Raise):
                for f in ('exc', 'cause'):
                    v = getattr(node, f)
                    if isinstance(v, ast.Call) and not v.args and not v.keywords and isinstance(v.func, ast.Name) \
                            and v.func.id in BUILTIN_EXCEPTIONS:
                        site = a.by_key.get((id(v.func), 0))
                        if site is not None and site.binding == ('builtin', v.func.id):
                            setattr(node, f, v.func)


def tainted(a, tree):
    for s in a.sites:
        if s.name in ('exec', 'eval', 'locals', 'globals', 'vars') and s.binding[0] == 'builtin':
            return True
    for n in ast.walk(tree):
        if isinstance(n, ast.ImportFrom) and any(al.name == '*' for al in n.names):
            return True
        if isinstance(n, (ast.Import, ast.ImportFrom)) and any(al.name.split('.')[0] == 'timeit' for al in n.names):
            return True
    return False


def annotation_sensitive_class(cls):
    for d in cls.decorator_list:
        t = d.func if isinstance(d, ast.Call) else d
        if (isinstance(t, ast.Name) and t.id == 'dataclass') or (isinstance(t, ast.Attribute) and t.attr == 'dataclass'):
            return True
    for b in cls.bases:
        if (isinstance(b, ast.Name) and b.id in ('NamedTuple', 'TypedDict')) or (isinstance(b, ast.Attribute) and b.attr in ('NamedTuple', 'TypedDict')):
            return True
    return False


def canon(tree, on):
    """returns a new, canonicalised tree"""
    if not isinstance(tree, ast.AST):
        tree = ast.parse(tree)          # a source text: parse a private tree (much cheaper than deepcopy, which thrashes the allocator)
    else:
        tree = copy.deepcopy(tree)
    c = Canon(tree, on)
    for _ in range(4):
        before = ast.dump(tree)
        tree = c.visit(tree)
        c.exception_brackets(tree)
        if ast.dump(tree) == before:
            break
    return tree
