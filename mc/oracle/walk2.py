"""walk2: parallel walk of an input tree and an output tree that pairs identifier occurrences and classifies every difference.

Understands exactly the rewrites the renamer may perform:
  * an identifier respelled (Name.id, arg.arg, def/class name, alias.asname incl. None -> name, except name, global/nonlocal names,
    match captures, type parameter names)
  * statements `Name = Name` / `Name = Constant` inserted at the head of a module or function body (after docstring / __future__ imports)
  * a str/bytes/None/True/False Constant replaced by a Name load (hoisting)
  * positional-only parameters turned into ordinary ones
Anything else is reported in `.diffs`.
"""
import ast

from mc.oracle import strict_ast


class Alignment(object):
    def __init__(self):
        self.pairs = []       # (in_node, sub, out_node, sub, role)
        self.hoists = []      # (in_const_node, out_name_node)
        self.inserted = []    # (out_stmt, out_parent_node)
        self.iface = []       # (role, in_text, out_text, in_node)
        self.diffs = []       # strings


def _is_docstring_or_future(st):
    if isinstance(st, ast.ImportFrom) and st.module == '__future__':
        return True
    if isinstance(st, ast.Expr) and isinstance(st.value, ast.Constant) and isinstance(st.value.value, str):
        return True
    return False


def _is_alias_stmt(st):
    return (isinstance(st, ast.Assign) and len(st.targets) == 1 and isinstance(st.targets[0], ast.Name)
            and isinstance(st.value, (ast.Name, ast.Constant)))


def align(tin, tout):
    al = Alignment()
    _node(tin, tout, 'root', al)
    return al


def _stmts(a, b, path, al, parent_out):
    if len(b) > len(a):
        k = len(b) - len(a)
        p = 0
        while p < len(b) and _is_docstring_or_future(b[p]):
            p += 1
        # the docstring position of the *input* decides: an input body whose first statement is a string keeps it first
        ins = b[p:p + k]
        if len(ins) == k and all(_is_alias_stmt(s) for s in ins) and isinstance(parent_out, (ast.Module, ast.FunctionDef, ast.AsyncFunctionDef)):
            for s in ins:
                al.inserted.append((s, parent_out))
            b = b[:p] + b[p + k:]
        else:
            al.diffs.append('%s: %d statement(s) added that are not alias assignments at the head of a module/function body' % (path, k))
            return
    if len(a) != len(b):
        al.diffs.append('%s: statement count %d -> %d' % (path, len(a), len(b)))
        return
    for i, (x, y) in enumerate(zip(a, b)):
        _node(x, y, '%s[%d]' % (path, i), al)


_IDENT_FIELDS = {
    ('Name', 'id'): 'name', ('arg', 'arg'): 'param', ('FunctionDef', 'name'): 'def', ('AsyncFunctionDef', 'name'): 'def',
    ('ClassDef', 'name'): 'class', ('ExceptHandler', 'name'): 'except', ('MatchAs', 'name'): 'match', ('MatchStar', 'name'): 'match',
    ('MatchMapping', 'rest'): 'match', ('TypeVar', 'name'): 'typeparam', ('TypeVarTuple', 'name'): 'typeparam',
    ('ParamSpec', 'name'): 'typeparam',
}
_IFACE_FIELDS = {('Attribute', 'attr'): 'attr', ('keyword', 'arg'): 'keyword', ('ImportFrom', 'module'): 'import-module'}


def _node(a, b, path, al):
    if isinstance(a, ast.Constant) and isinstance(b, ast.Name) and isinstance(b.ctx, ast.Load) and a.value is not Ellipsis:
        # any literal replaced by a name is a hoist candidate; alpha.check then demands an alias with strictly the same constant
        # (the implementation also hoists numbers equal to True/False such as 1.0, with their own type)
        al.hoists.append((a, b))
        return
    if type(a) is not type(b):
        al.diffs.append('%s: node %s -> %s' % (path, type(a).__name__, type(b).__name__))
        return
    tn = type(a).__name__
    if isinstance(a, ast.arguments):
        pa = list(getattr(a, 'posonlyargs', [])) + list(a.args)
        pb = list(getattr(b, 'posonlyargs', [])) + list(b.args)
        _list(pa, pb, path + '.args', al, b)
        for f in ('vararg', 'kwonlyargs', 'kw_defaults', 'kwarg', 'defaults'):
            _field(getattr(a, f), getattr(b, f), path + '.' + f, al, b)
        if len(getattr(a, 'posonlyargs', [])) != len(getattr(b, 'posonlyargs', [])):
            al.iface.append(('posonly-count', len(a.posonlyargs), len(b.posonlyargs), a))
        return
    if isinstance(a, ast.alias):
        if a.name != b.name:
            al.diffs.append('%s: imported name %r -> %r' % (path, a.name, b.name))
        al.iface.append(('import-name', a.name, b.name, a))
        if a.name != '*':
            al.pairs.append((a, 0, b, 0, 'import'))
        return
    if isinstance(a, (ast.Global, ast.Nonlocal)):
        if len(a.names) != len(b.names):
            al.diffs.append('%s: declaration list length changed' % path)
            return
        for i in range(len(a.names)):
            al.pairs.append((a, i, b, i, 'global' if isinstance(a, ast.Global) else 'nonlocal'))
        return
    if isinstance(a, ast.Constant):
        if not strict_ast._const_eq(a.value, b.value):
            al.diffs.append('%s: constant %r -> %r' % (path, a.value, b.value))
        return
    if isinstance(a, getattr(ast, 'MatchClass', ())):
        if a.kwd_attrs != b.kwd_attrs:
            al.diffs.append('%s: class pattern keywords %r -> %r' % (path, a.kwd_attrs, b.kwd_attrs))
    for f in a._fields:
        if f in ('kind', 'type_comment', 'ctx'):
            if f == 'ctx' and type(a.ctx) is not type(b.ctx):
                al.diffs.append('%s: context changed' % path)
            continue
        va, vb = getattr(a, f, None), getattr(b, f, None)
        role = _IDENT_FIELDS.get((tn, f))
        if role is not None:
            if (va is None) != (vb is None):
                al.diffs.append('%s.%s: %r -> %r' % (path, f, va, vb))
            elif va is not None:
                al.pairs.append((a, 0, b, 0, role))
            continue
        irole = _IFACE_FIELDS.get((tn, f))
        if irole is not None:
            al.iface.append((irole, va, vb, a))
            if va != vb:
                al.diffs.append('%s.%s: %r -> %r' % (path, f, va, vb))
            continue
        _field(va, vb, path + '.' + f, al, b)


def _field(va, vb, path, al, parent_out):
    if isinstance(va, list) or isinstance(vb, list):
        if not (isinstance(va, list) and isinstance(vb, list)):
            al.diffs.append('%s: list vs non-list' % path)
            return
        _list(va, vb, path, al, parent_out)
    elif isinstance(va, ast.AST) or isinstance(vb, ast.AST):
        if va is None or vb is None:
            al.diffs.append('%s: %s -> %s' % (path, type(va).__name__, type(vb).__name__))
            return
        _node(va, vb, path, al)
    else:
        if va != vb or type(va) is not type(vb):
            al.diffs.append('%s: %r -> %r' % (path, va, vb))


def _list(va, vb, path, al, parent_out):
    if va and isinstance(va[0], ast.stmt) or vb and isinstance(vb[0], ast.stmt):
        _stmts(va, vb, path, al, parent_out)
        return
    if len(va) != len(vb):
        al.diffs.append('%s: list length %d -> %d' % (path, len(va), len(vb)))
        return
    for i, (x, y) in enumerate(zip(va, vb)):
        if isinstance(x, ast.AST) or isinstance(y, ast.AST):
            if x is None or y is None:
                al.diffs.append('%s[%d]: %s -> %s' % (path, i, type(x).__name__, type(y).__name__))
            else:
                _node(x, y, '%s[%d]' % (path, i), al)
        elif x != y:
            al.diffs.append('%s[%d]: %r -> %r' % (path, i, x, y))


def name_of(node, sub):
    """the identifier text at a site"""
    if isinstance(node, ast.Name):
        return node.id
    if isinstance(node, ast.arg):
        return node.arg
    if isinstance(node, (ast.FunctionDef, ast.AsyncFunctionDef, ast.ClassDef)):
        return node.name
    if isinstance(node, ast.alias):
        return node.asname if node.asname else node.name.split('.')[0]
    if isinstance(node, ast.ExceptHandler):
        return node.name
    if isinstance(node, (ast.Global, ast.Nonlocal)):
        return node.names[sub]
    if hasattr(ast, 'MatchAs') and isinstance(node, (ast.MatchAs, ast.MatchStar)):
        return node.name
    if hasattr(ast, 'MatchMapping') and isinstance(node, ast.MatchMapping):
        return node.rest
    return node.name
