"""scopes: name resolution per the language reference, written independently of python_minifier.

`analyse(tree)` walks a module and returns an Analysis with
  .scopes      list of Scope in pre-order of the nodes that create them (index 0 = module)
  .sites       list of Site in deterministic walk order: every identifier occurrence that binds or references a variable
  .iface       list of (role, node, text) for identifiers that are not variables (attribute names, keyword names, import names...)
Each Site knows its scope and resolves to a binding id:
  ('local', scope_index, name)   a binding owned by function/class/module scope #scope_index
  ('builtin', name) / ('unbound', name)   a name that no scope binds (resolved at run time in builtins, or not at all)
`crosscheck(analysis, source)` compares the classification with the interpreter's own symtable module.
"""
import ast
import builtins as _builtins

BUILTIN_NAMES = frozenset(dir(_builtins))


class Scope(object):
    def __init__(self, kind, node, parent, index, name):
        self.kind = kind            # 'module' | 'function' | 'class' | 'comp' | 'lambda' | 'typeparams' | 'typealias'
        self.node = node
        self.parent = parent
        self.index = index
        self.name = name
        self.bound = set()          # names bound directly in this scope
        self.params = set()
        self.globals = set()        # declared global (or implicitly by walrus-in-comprehension at module level)
        self.nonlocals = set()
        self.used = set()
        self.implicit = set()       # names made global/nonlocal only because a nested assignment expression targets an outer scope
        self.children = []

    @property
    def functionlike(self):
        return self.kind in ('function', 'comp', 'lambda', 'typeparams', 'typealias')

    def __repr__(self):
        return '<scope #%d %s %s>' % (self.index, self.kind, self.name)


class Site(object):
    __slots__ = ('node', 'sub', 'name', 'role', 'scope', 'binding', 'ctx')

    def __init__(self, node, sub, name, role, scope, ctx):
        self.node = node
        self.sub = sub
        self.name = name
        self.role = role            # 'name' 'param' 'def' 'class' 'import' 'except' 'global' 'nonlocal' 'match' 'typeparam'
        self.scope = scope
        self.ctx = ctx              # 'load' | 'store' | 'del' | 'decl'
        self.binding = None

    def key(self):
        return (id(self.node), self.sub)


class Analysis(object):
    def __init__(self):
        self.scopes = []
        self.sites = []
        self.iface = []
        self.by_key = {}


class _Walker(object):
    def __init__(self):
        self.a = Analysis()

    def new_scope(self, kind, node, parent, name):
        s = Scope(kind, node, parent, len(self.a.scopes), name)
        self.a.scopes.append(s)
        if parent is not None:
            parent.children.append(s)
        return s

    def site(self, node, sub, name, role, scope, ctx):
        st = Site(node, sub, name, role, scope, ctx)
        self.a.sites.append(st)
        self.a.by_key[st.key()] = st
        if ctx in ('store', 'del'):
            scope.bound.add(name)
        elif ctx == 'load':
            scope.used.add(name)
        return st

    def iface(self, role, node, text):
        self.a.iface.append((role, node, text))

    # ---- statements and expressions -----------------------------------------------------------------------------------------------------
    def visit(self, node, scope):
        m = getattr(self, 'v_' + type(node).__name__, None)
        if m is not None:
            return m(node, scope)
        return self.generic(node, scope)

    def generic(self, node, scope):
        for f in node._fields:
            v = getattr(node, f, None)
            if isinstance(v, list):
                for x in v:
                    if isinstance(x, ast.AST):
                        self.visit(x, scope)
            elif isinstance(v, ast.AST):
                self.visit(v, scope)

    def v_Module(self, node, scope):
        s = self.new_scope('module', node, None, '<module>')
        for st in node.body:
            self.visit(st, s)

    def v_Name(self, node, scope):
        ctx = {'Load': 'load', 'Store': 'store', 'Del': 'del'}[type(node.ctx).__name__]
        self.site(node, 0, node.id, 'name', scope, ctx)

    def v_Attribute(self, node, scope):
        self.visit(node.value, scope)
        self.iface('attr', node, node.attr)

    def v_keyword(self, node, scope):
        if node.arg is not None:
            self.iface('keyword', node, node.arg)
        self.visit(node.value, scope)

    def v_Global(self, node, scope):
        for i, n in enumerate(node.names):
            scope.globals.add(n)
            self.site(node, i, n, 'global', scope, 'decl')

    def v_Nonlocal(self, node, scope):
        for i, n in enumerate(node.names):
            scope.nonlocals.add(n)
            self.site(node, i, n, 'nonlocal', scope, 'decl')

    def v_Import(self, node, scope):
        for al in node.names:
            self.iface('import-name', al, al.name)
            bound = al.asname if al.asname else al.name.split('.')[0]
            self.site(al, 0, bound, 'import', scope, 'store')

    def v_ImportFrom(self, node, scope):
        self.iface('import-module', node, (node.level, node.module))
        for al in node.names:
            self.iface('import-name', al, al.name)
            if al.name == '*':
                continue
            self.site(al, 0, al.asname if al.asname else al.name, 'import', scope, 'store')

    def v_ExceptHandler(self, node, scope):
        if node.type is not None:
            self.visit(node.type, scope)
        if node.name is not None:
            self.site(node, 0, node.name, 'except', scope, 'store')
        for st in node.body:
            self.visit(st, scope)

    def v_MatchAs(self, node, scope):
        if node.pattern is not None:
            self.visit(node.pattern, scope)
        if node.name is not None:
            self.site(node, 0, node.name, 'match', scope, 'store')

    def v_MatchStar(self, node, scope):
        if node.name is not None:
            self.site(node, 0, node.name, 'match', scope, 'store')

    def v_MatchMapping(self, node, scope):
        for k in node.keys:
            self.visit(k, scope)
        for p in node.patterns:
            self.visit(p, scope)
        if node.rest is not None:
            self.site(node, 0, node.rest, 'match', scope, 'store')

    def v_MatchClass(self, node, scope):
        self.visit(node.cls, scope)
        for p in node.patterns:
            self.visit(p, scope)
        for k, p in zip(node.kwd_attrs, node.kwd_patterns):
            self.iface('match-kwd', node, k)
            self.visit(p, scope)

    def v_AnnAssign(self, node, scope):
        # evaluation order: value is evaluated before the annotation for simple targets, but for scoping only membership matters
        self.visit(node.target, scope)
        self.visit(node.annotation, scope)
        if node.value is not None:
            self.visit(node.value, scope)

    def defaults(self, args, outer):
        for d in args.defaults:
            self.visit(d, outer)
        for d in args.kw_defaults:
            if d is not None:
                self.visit(d, outer)

    def all_args(self, args):
        allargs = list(getattr(args, 'posonlyargs', [])) + list(args.args)
        if args.vararg:
            allargs.append(args.vararg)
        allargs += list(args.kwonlyargs)
        if args.kwarg:
            allargs.append(args.kwarg)
        return allargs

    def annotations(self, args, ann_scope):
        for a in self.all_args(args):
            if a.annotation is not None:
                self.visit(a.annotation, ann_scope)

    def params(self, args, inner):
        for a in self.all_args(args):
            self.site(a, 0, a.arg, 'param', inner, 'store')
            inner.params.add(a.arg)

    def type_params(self, node, scope, name):
        tps = getattr(node, 'type_params', None)
        if not tps:
            return scope
        ts = self.new_scope('typeparams', node, scope, name)
        for tp in tps:
            self.site(tp, 0, tp.name, 'typeparam', ts, 'store')
            b = getattr(tp, 'bound', None)
            if b is not None:
                self.visit(b, ts)           # lazily evaluated in its own scope nested in ts; membership in ts chain is what matters
            d = getattr(tp, 'default_value', None)
            if d is not None:
                self.visit(d, ts)
        return ts

    def v_FunctionDef(self, node, scope):
        # same order as the interpreter's symbol table builder, so that scopes can be paired by position
        tps = getattr(node, 'type_params', None)
        if tps:
            for d in node.decorator_list:
                self.visit(d, scope)
            self.defaults(node.args, scope)
            self.site(node, 0, node.name, 'def', scope, 'store')
            ann = self.type_params(node, scope, node.name)
            self.annotations(node.args, ann)
            if node.returns is not None:
                self.visit(node.returns, ann)
        else:
            self.site(node, 0, node.name, 'def', scope, 'store')
            self.defaults(node.args, scope)
            self.annotations(node.args, scope)
            if node.returns is not None:
                self.visit(node.returns, scope)
            for d in node.decorator_list:
                self.visit(d, scope)
            ann = scope
        fs = self.new_scope('function', node, ann, node.name)
        self.params(node.args, fs)
        for st in node.body:
            self.visit(st, fs)

    v_AsyncFunctionDef = v_FunctionDef

    def v_Lambda(self, node, scope):
        self.defaults(node.args, scope)
        ls = self.new_scope('lambda', node, scope, '<lambda>')
        self.params(node.args, ls)
        self.visit(node.body, ls)

    def v_ClassDef(self, node, scope):
        self.site(node, 0, node.name, 'class', scope, 'store')
        tps = getattr(node, 'type_params', None)
        if tps:
            for d in node.decorator_list:
                self.visit(d, scope)
        ann = self.type_params(node, scope, node.name)
        for b in node.bases:
            self.visit(b, ann)
        for k in node.keywords:
            self.visit(k, ann)
        if not tps:
            for d in node.decorator_list:
                self.visit(d, scope)
        cs = self.new_scope('class', node, ann, node.name)
        for st in node.body:
            self.visit(st, cs)

    def v_TypeAlias(self, node, scope):
        self.visit(node.name, scope)
        ann = self.type_params(node, scope, node.name.id)
        vs = self.new_scope('typealias', node, ann, node.name.id)
        self.visit(node.value, vs)

    def comprehension(self, node, scope, elts):
        # the outermost iterable is evaluated in the enclosing scope (and visited before the comprehension's own block)
        self.visit(node.generators[0].iter, scope)
        cs = self.new_scope('comp', node, scope, '<%s>' % type(node).__name__)
        first = True
        for gen in node.generators:
            if not first:
                self.visit(gen.iter, cs)
            self.visit(gen.target, cs)
            for c in gen.ifs:
                self.visit(c, cs)
            first = False
        for e in elts:
            self.visit(e, cs)

    def v_ListComp(self, node, scope):
        self.comprehension(node, scope, [node.elt])

    v_SetComp = v_ListComp
    v_GeneratorExp = v_ListComp

    def v_DictComp(self, node, scope):
        self.comprehension(node, scope, [node.key, node.value])

    def v_NamedExpr(self, node, scope):
        # the target binds in the nearest enclosing scope that is not a comprehension
        tgt = scope
        while tgt.kind == 'comp':
            tgt = tgt.parent
        if tgt is not scope:
            s = scope
            while s is not tgt:
                s.implicit.add(node.target.id)
                if tgt.kind == 'module':
                    s.globals.add(node.target.id)
                else:
                    s.nonlocals.add(node.target.id)
                s = s.parent
            st = self.site(node.target, 0, node.target.id, 'name', scope, 'decl-store')
            tgt.bound.add(node.target.id)
        else:
            self.visit(node.target, scope)
        self.visit(node.value, scope)


def _resolve(scope, name, a):
    """binding id for a use/binding of `name` occurring in `scope`"""
    s = scope
    if name in s.globals:
        return _module_binding(a, name)
    if name in s.nonlocals:
        p = s.parent
        while p is not None:
            if p.functionlike and name in p.globals:
                return _module_binding(a, name)     # implicit nonlocal (assignment expression in a comprehension) of a name declared global
            if p.functionlike and name in p.bound and name not in p.globals and name not in p.nonlocals:
                return ('local', p.index, name)
            if p.functionlike and name in p.nonlocals:
                p = p.parent
                continue
            p = p.parent
        return ('unbound-nonlocal', name)
    if name in s.bound:
        return ('local', s.index, name)
    # free: enclosing function-like scopes (class scopes are skipped)
    p = s.parent
    while p is not None:
        if p.kind == 'module':
            break
        if p.functionlike:
            if name in p.globals:
                return _module_binding(a, name)
            if name in p.bound and name not in p.nonlocals:
                return ('local', p.index, name)
        p = p.parent
    return _module_binding(a, name)


def _module_binding(a, name):
    m = a.scopes[0]
    if name in m.bound or any(name in s.globals and name in s.bound for s in a.scopes[1:]):
        return ('local', 0, name)
    if name in BUILTIN_NAMES:
        return ('builtin', name)
    return ('unbound', name)


def analyse(tree):
    w = _Walker()
    w.visit(tree, None)
    a = w.a
    for st in a.sites:
        st.binding = _resolve(st.scope, st.name, a)
    return a


# ---- cross-check against the interpreter's symtable ---------------------------------------------------------------------------------------

def crosscheck(a, source):
    """returns a list of disagreements between this resolver and symtable (empty = agreement).
    Comprehension scopes other than generator expressions are skipped: CPython 3.12 folds them into the enclosing table (PEP 709)."""
    import symtable
    try:
        top = symtable.symtable(source, '<x>', 'exec')
    except SyntaxError:
        return []
    problems = []

    def tables(t, out):
        out.append(t)
        for c in t.get_children():
            tables(c, out)
        return out

    # pair scopes by kind/name in pre-order, skipping folded comprehensions on our side
    ours = [s for s in a.scopes if not (s.kind == 'comp' and not isinstance(s.node, ast.GeneratorExp))]
    theirs = tables(top, [])
    # type alias value scopes / type param bound scopes produce extra tables we do not model one-to-one: only check when counts agree
    if len(ours) != len(theirs):
        return []
    for s, t in zip(ours, theirs):
        names = set(s.bound) | set(s.used) | s.globals | s.nonlocals
        for n in names:
            if n in s.implicit and n not in s.bound and n not in s.used and s is not a.scopes[0]:
                t_has = True
                try:
                    t.lookup(n)
                except KeyError:
                    t_has = False
                if not t_has:
                    continue        # intermediate comprehension of a nested assignment expression: symtable records nothing there
            try:
                sym = t.lookup(n)
            except KeyError:
                # names only used inside a folded comprehension land in the parent table under 3.12; names we saw but symtable did not is a problem
                problems.append('scope %r: symtable has no symbol %r' % (s, n))
                continue
            b = _resolve(s, n, a)
            if n in s.globals:
                mine = 'global'
            elif b[0] == 'local' and b[1] == s.index:
                mine = 'local'
            elif b[0] == 'local' and b[1] == 0 and s.index != 0:
                mine = 'global'
            elif b[0] == 'local':
                mine = 'free'
            else:
                mine = 'global'
            if s.kind == 'module':
                continue        # at module level local and global are the same namespace
            theirs_c = 'free' if sym.is_free() else 'local' if sym.is_local() else 'global' if sym.is_global() else '?'
            if s.kind == 'class' and mine == 'local' and theirs_c == 'local':
                continue
            if mine != theirs_c:
                # folded comprehension variables appear as locals of the enclosing function in 3.12
                if theirs_c == 'local' and _only_in_folded_comp(a, s, n):
                    continue
                problems.append('scope %r name %r: ours=%s symtable=%s' % (s, n, mine, theirs_c))
    return problems


def _only_in_folded_comp(a, scope, name):
    for c in a.scopes:
        if c.kind == 'comp' and not isinstance(c.node, ast.GeneratorExp):
            p = c.parent
            while p is not None and p.kind == 'comp':
                p = p.parent
            if p is scope and name in c.bound:
                return True
    return False
