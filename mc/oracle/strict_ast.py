"""Strict structural AST equality, independent of python_minifier.ast_compare.

Constants compare by type, value and sign (1 / 1.0 / True differ; 0.0 / -0.0 differ; nan equals nan), `kind` is ignored
(u'' prefix), position attributes are ignored.  Returns None when equal, else a string describing the first difference.
"""
import ast
import math

_SKIP = ('kind', 'type_comment')


def _const_eq(a, b):
    if type(a) is not type(b):
        return False
    if isinstance(a, float):
        if math.isnan(a) or math.isnan(b):
            return math.isnan(a) and math.isnan(b)
        return a == b and math.copysign(1.0, a) == math.copysign(1.0, b)
    if isinstance(a, complex):
        return _const_eq(a.real, b.real) and _const_eq(a.imag, b.imag)
    if isinstance(a, (tuple, frozenset)):
        if len(a) != len(b):
            return False
        if isinstance(a, tuple):
            return all(_const_eq(x, y) for x, y in zip(a, b))
        return a == b
    return a == b


def diff(a, b, path='root'):
    if isinstance(a, ast.AST):
        if type(a) is not type(b):
            return '%s: node %s != %s' % (path, type(a).__name__, type(b).__name__)
        for f in a._fields:
            if f in _SKIP:
                continue
            if isinstance(a, ast.Constant) and f == 'value':
                if not _const_eq(a.value, b.value):
                    return '%s.value: constant %r (%s) != %r (%s)' % (
                        path, a.value, type(a.value).__name__, b.value, type(b.value).__name__)
                continue
            d = diff(getattr(a, f, None), getattr(b, f, None), path + '.' + f)
            if d:
                return d
        return None
    if isinstance(a, list):
        if not isinstance(b, list):
            return '%s: list vs %s' % (path, type(b).__name__)
        if len(a) != len(b):
            return '%s: list length %d != %d' % (path, len(a), len(b))
        for i, (x, y) in enumerate(zip(a, b)):
            d = diff(x, y, '%s[%d]' % (path, i))
            if d:
                return d
        return None
    if isinstance(b, (ast.AST, list)):
        return '%s: %r vs %s' % (path, a, type(b).__name__)
    if type(a) is not type(b) or a != b:
        # identifiers, ints (e.g. ImportFrom.level, conversion), None
        if isinstance(a, float) and isinstance(b, float) and _const_eq(a, b):
            return None
        return '%s: %r != %r' % (path, a, b)
    return None


def equal(a, b):
    return diff(a, b) is None
