"""iface: the externally visible names of a module must keep their spelling (C04).

Works on an alpha.Result (alignment + independent scope analyses of input and output).
"""
import ast
import re

from mc.oracle import walk2


def _method_first_param_exempt(func, arg, ain):
    """the documented exception: the first parameter of an undecorated or @classmethod method may be renamed"""
    if not isinstance(func, (ast.FunctionDef, ast.AsyncFunctionDef)):
        return False
    allargs = list(getattr(func.args, 'posonlyargs', [])) + list(func.args.args)
    if not allargs or allargs[0] is not arg:
        return False
    if not getattr(func, '_verif_in_class', False):
        return False
    if len(func.decorator_list) == 0:
        return True
    d = func.decorator_list
    return len(d) == 1 and isinstance(d[0], ast.Name) and d[0].id == 'classmethod'


def mark_methods(tree):
    for node in ast.walk(tree):
        if isinstance(node, ast.ClassDef):
            for st in node.body:
                if isinstance(st, (ast.FunctionDef, ast.AsyncFunctionDef)):
                    st._verif_in_class = True


def keyword_callable_params(tree):
    """set of id(arg node) for parameters a caller may pass by keyword"""
    out = {}
    for node in ast.walk(tree):
        if isinstance(node, (ast.FunctionDef, ast.AsyncFunctionDef, ast.Lambda)):
            for a in list(node.args.args) + list(node.args.kwonlyargs):
                out[id(a)] = node
    return out


def check(r, tin, rename_globals, src_original_module_names=None):
    """r: alpha.Result for (input tree tin, output tree). Returns list of (kind, message)."""
    problems = []
    al, ain, aout = r.alignment, r.ain, r.aout
    if ain is None:
        return problems
    mark_methods(tin)
    kwparams = keyword_callable_params(tin)
    for a, sa, b, sb, role in al.pairs:
        si = ain.by_key.get((id(a), sa))
        so = aout.by_key.get((id(b), sb))
        if si is None or so is None:
            continue
        if si.name == so.name:
            continue
        n = si.name
        bi = si.binding
        if n.startswith('__') and n.endswith('__'):
            problems.append(('dunder-renamed', '%r -> %r' % (n, so.name)))
        elif bi[0] == 'local' and ain.scopes[bi[1]].kind == 'class':
            problems.append(('class-attribute-renamed', 'name %r bound in class %s -> %r' % (n, ain.scopes[bi[1]].name, so.name)))
        elif bi[0] in ('unbound', 'unbound-nonlocal'):
            problems.append(('unbound-name-renamed', '%r -> %r' % (n, so.name)))
        elif bi[0] == 'builtin' and not rename_globals:
            # with rename_globals off a builtin may only be aliased by an underscore name at module level
            if not so.name.startswith('_'):
                problems.append(('builtin-respelled-without-underscore', '%r -> %r' % (n, so.name)))
        elif role == 'param' and id(a) in kwparams and not _method_first_param_exempt(kwparams[id(a)], a, ain):
            problems.append(('keyword-parameter-renamed', 'parameter %r of %s -> %r' % (
                n, getattr(kwparams[id(a)], 'name', '<lambda>'), so.name)))
        elif role == 'import' and isinstance(a, ast.alias):
            pass    # `import x` -> `import x as A` keeps the imported name (checked through alias.name below)
        if bi[0] == 'local' and bi[1] == 0 and not rename_globals:
            problems.append(('module-level-name-renamed', '%r -> %r although rename_globals is off' % (n, so.name)))
    for role, vi, vo, node in al.iface:
        if role == 'posonly-count':
            continue
        if vi != vo:
            problems.append(('%s-changed' % role, '%r -> %r' % (vi, vo)))
    # module-level bound names
    if not rename_globals:
        min_ = set(ain.scopes[0].bound) | set(n for s in ain.scopes[1:] for n in s.globals if n in s.bound)
        mout = set(aout.scopes[0].bound) | set(n for s in aout.scopes[1:] for n in s.globals if n in s.bound)
        all_in_names = set(s.name for s in ain.sites)
        for n in sorted(mout - min_):
            if not n.startswith('_'):
                problems.append(('module-name-added-without-underscore', repr(n)))
            elif n in all_in_names:
                problems.append(('module-name-added-collides-with-program-name', repr(n)))
        for n in sorted(min_ - mout):
            problems.append(('module-name-removed', repr(n)))
    return problems
