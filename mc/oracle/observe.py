"""observe: run a generated program in a fresh namespace and describe what it did.

Observation = (stream of obs() tags + captured stdout, terminating exception type or SystemExit code, normalised public namespace).
Values are described by *tags*, never by repr of functions/classes (their qualified names legitimately change).
"""
import builtins
import io
import sys
import types

from mc.core import time_limit, CaseTimeout

DECOY = False      # set by the scope-tree checks for programs that read the injected global B
HELPERS = ('obs', 'cm', 'deco', 'base', 'meta', 'run', 'ident', 'B')


def describe(v, depth=0, call=True):
    if depth > 4:
        return '...'
    if v is None or isinstance(v, (bool, int, float, complex, str, bytes)):
        return (type(v).__name__, repr(v))
    if isinstance(v, (tuple, list, set, frozenset)):
        items = [describe(x, depth + 1, call) for x in v]
        if isinstance(v, (set, frozenset)):
            items = sorted(items, key=repr)
        return (type(v).__name__, tuple(items))
    if isinstance(v, dict):
        return ('dict', tuple(sorted(((describe(k, depth + 1, call), describe(x, depth + 1, call)) for k, x in v.items()), key=repr)))
    if isinstance(v, types.ModuleType):
        return ('mod', v.__name__)
    if isinstance(v, type):
        tag = v.__dict__.get('tag', None)
        if isinstance(v, type) and issubclass(v, BaseException):
            return ('exc-cls', v.__name__)
        attrs = []
        for k in sorted(v.__dict__):
            if k.startswith('__') and k.endswith('__'):
                continue
            a = v.__dict__[k]
            if a is None or isinstance(a, (bool, int, float, complex, str, bytes, tuple)):
                attrs.append((k, describe(a, depth + 1, False)))       # the value a class attribute holds is behaviour, not a reflective view
            elif not k.startswith('_'):
                attrs.append((k,))
        return ('cls', describe(tag, depth + 1, call), tuple(attrs))
    if isinstance(v, BaseException):
        return ('exc', type(v).__name__, describe(v.args, depth + 1, call))
    if isinstance(v, (types.FunctionType, types.BuiltinFunctionType, types.MethodType)):
        if call and isinstance(v, types.FunctionType) and v.__code__.co_argcount == 0 and v.__code__.co_kwonlyargcount == 0 \
                and not (v.__code__.co_flags & 0x0c) and not (v.__code__.co_flags & 0x380):
            # zero-argument plain function created by a `def` bundle: its return value is its tag
            try:
                return ('fn', describe(v(), depth + 1))
            except Exception as e:
                return ('fn', 'raises', type(e).__name__)
        return ('fn',)
    tn = type(v).__name__
    if tn in ('TypeVar', 'TypeVarTuple', 'ParamSpec'):
        return (tn, v.__name__)
    if tn == 'TypeAliasType':
        return (tn,)
    if isinstance(v, types.GeneratorType):
        return ('gen',)
    if type(v).__module__ in ('builtins', 'collections', 'types', 'typing', 're', 'itertools', 'functools'):
        return ('obj', tn)
    return ('obj',)     # instances of program-defined classes: the class name is a reflective view


class _CM(object):
    def __init__(self, v):
        self.v = v

    def __enter__(self):
        return self.v

    def __exit__(self, *a):
        return False


def _run(coro):
    try:
        coro.send(None)
    except StopIteration as e:
        return e.value
    coro.close()
    return 'suspended'


def make_namespace(stream):
    def obs(v):
        stream.append(describe(v))
        return v

    def deco(v):
        stream.append(('deco', describe(v)))
        return lambda f: f

    def base(v):
        stream.append(('base', describe(v)))
        return object

    def meta(v):
        stream.append(('meta', describe(v)))
        return type

    def ident(f):
        return f
    ns = {'__name__': 'observed', 'obs': obs, 'cm': _CM, 'deco': deco, 'base': base, 'meta': meta, 'run': _run, 'ident': ident}
    if DECOY:
        # 'B' is a name the generated decoy programs read but never bind: a global provided from outside the module.  Only programs that
        # mention it get it (a module that never mentions B may of course name one of its own globals B under rename_globals).
        ns['B'] = 'injected-B'
    return ns


def namespace_view(ns, private=False):
    out = []
    for k in sorted(ns):
        if k in HELPERS or k == '__builtins__':
            continue
        if k.startswith('_') and not private and not (k.startswith('__') and k.endswith('__')):
            continue
        if k in ('__name__',):
            continue
        if k == '__annotations__':
            continue        # documented reflective view
        out.append((k, describe(ns[k], 0, False)))
    return tuple(out)


def run(source_or_code, filename='<observed>', optimize=0, timeout=5.0, extra=None):
    """returns dict(stream=tuple, exc=str|None, ns=tuple)"""
    stream = []
    ns = make_namespace(stream)
    if extra:
        ns.update(extra)
    exc = None
    old_stdout = sys.stdout
    buf = io.StringIO()
    try:
        code = source_or_code
        if isinstance(code, (str, bytes)):
            code = compile(code, filename, 'exec', dont_inherit=True, optimize=optimize)
        sys.stdout = buf
        with time_limit(timeout):
            exec(code, ns)
    except CaseTimeout:
        exc = 'TIMEOUT'
    except SystemExit as e:
        exc = 'SystemExit:%r' % (e.code,)
    except BaseException as e:       # the program's own exception: only its type is an observation
        exc = type(e).__name__
    finally:
        sys.stdout = old_stdout
    out = buf.getvalue()
    if out:
        stream.append(('stdout', out))
    return {'stream': tuple(stream), 'exc': exc, 'ns': namespace_view(ns), 'raw_ns': ns}


def same(a, b, compare_ns=True):
    """None when the observations agree, else a description of the first difference"""
    if a['exc'] != b['exc']:
        return 'terminating exception %r != %r (streams %r / %r)' % (a['exc'], b['exc'], a['stream'][-3:], b['stream'][-3:])
    if a['stream'] != b['stream']:
        for i, (x, y) in enumerate(zip(a['stream'], b['stream'])):
            if x != y:
                return 'observation #%d differs: %r != %r' % (i, x, y)
        return 'observation streams differ in length: %d != %d' % (len(a['stream']), len(b['stream']))
    if compare_ns and a['ns'] != b['ns']:
        da, db = dict(a['ns']), dict(b['ns'])
        for k in sorted(set(da) | set(db)):
            if da.get(k) != db.get(k):
                return 'public namespace differs at %r: %r != %r' % (k, da.get(k, '<absent>'), db.get(k, '<absent>'))
    return None


# ---- second opinion from an interpreter without comprehension inlining (PEP 709) -------------------------------------------------------------

_OTHER = '/root/.pyenv/versions/3.11.7/bin/python'


def run_under(exe, source, decoy=False):
    """observe `source` under another interpreter (separate process); returns the same dict shape as run() without raw_ns, or None"""
    import json
    import os
    import subprocess
    here = os.path.dirname(os.path.dirname(os.path.dirname(os.path.abspath(__file__))))
    code = ("import sys, json; sys.path.insert(0, %r); from mc.oracle import observe; observe.DECOY = %r; "
            "r = observe.run(sys.stdin.read()); print(json.dumps({'stream': repr(r['stream']), 'exc': r['exc'], 'ns': repr(r['ns'])}))" % (here, decoy))
    try:
        p = subprocess.run([exe, '-c', code], input=source.encode('utf-8', 'surrogatepass'), stdout=subprocess.PIPE, stderr=subprocess.PIPE, timeout=30)
        return json.loads(p.stdout.decode('utf-8'))
    except Exception:
        return None


def inlining_quirk(src, out, compare_ns=True):
    """CPython 3.12 inlines comprehensions (PEP 709).  3.12.1 then raises UnboundLocalError for a name that is *free* in an outer comprehension when
    a nested comprehension in the same function uses the same name as its iteration variable - the original program misbehaves, not the
    minifier.  Returns True when original and output behave identically under an interpreter without inlining (3.11)."""
    import os
    if not os.path.exists(_OTHER):
        return False
    a = run_under(_OTHER, src, DECOY)
    b = run_under(_OTHER, out, DECOY)
    if a is None or b is None:
        return False
    if not compare_ns:
        a, b = dict(a, ns=None), dict(b, ns=None)
    return a == b
