from __future__ import print_function

import argparse
import importlib
import os
import sys

from mc import core


def main(argv=None):
    ap = argparse.ArgumentParser(prog='run')
    ap.add_argument('what', help='property id (C01..C17), "replay", "setup" or "all"')
    ap.add_argument('path', nargs='?')
    ap.add_argument('--tier', default=os.environ.get('VERIF_TIER') or 'quick', choices=['quick', 'thorough'])
    args = ap.parse_args(argv)
    if args.what == 'replay':
        return core.do_replay(args.path)
    if args.what == 'setup':
        from mc import setup
        return setup.main()
    ids = [args.what]
    if args.what == 'all':
        ids = ['C%02d' % i for i in range(1, 18)]
    rc = 0
    for pid in ids:
        try:
            mod = importlib.import_module('mc.checks.' + pid.lower())
        except ImportError as e:
            if args.what == 'all':
                print('%s: no check (%s)' % (pid, e))
                continue
            raise
        try:
            r = core.explore(mod, args.tier)
        except core.HarnessError as e:
            sys.stderr.write('HARNESS ERROR: %s\n' % (e,))
            r = 2
        rc = max(rc, r)
    return rc


if __name__ == '__main__':
    sys.exit(main())
