"""A cooperative scheduler for threads running python_minifier code.

Scheduling points are `line` (or `call`, or `opcode`) trace events in frames whose code lives under python_minifier/.  Exactly one thread runs at a time
(every other thread is parked on its own semaphore), so an execution is fully determined by the schedule.  Schedules are enumerated by
iterative context bounding: 0 preemptions, then every single preemption point, then pairs.
"""
import sys
import threading


class Diverged(Exception):
    pass


class Run(object):
    """Executes `bodies` (callables) as threads under one schedule.

    schedule: list of (thread index, point count) segments: run thread t until it has passed `count` scheduling points (None = to completion),
    then switch to the next segment's thread.  Threads not finished after the last segment run to completion in index order.
    """

    def __init__(self, bodies, schedule, granularity='line', prefix='python_minifier'):
        self.bodies = bodies
        self.schedule = list(schedule)
        self.gran = granularity
        self.prefix = prefix
        self.n = len(bodies)
        self.sems = [threading.Semaphore(0) for _ in bodies]
        self.main = threading.Semaphore(0)
        self.results = [None] * self.n
        self.done = [False] * self.n
        self.points = [0] * self.n
        self.budget = [None] * self.n       # remaining points before this thread must yield
        self.yielded = None

    def _trace(self, idx):
        prefix = self.prefix
        gran = self.gran

        def local(frame, event, arg):
            if event == gran:
                self._point(idx)
            return local

        def tracer(frame, event, arg):
            if prefix not in frame.f_code.co_filename:
                return None
            if event == 'call':
                if gran == 'call':
                    self._point(idx)
                    return None
                if gran == 'opcode':
                    frame.f_trace_opcodes = True        # every bytecode instruction of python_minifier frames is a scheduling point
                return local
            return None
        return tracer

    def _point(self, idx):
        self.points[idx] += 1
        b = self.budget[idx]
        if b is not None:
            b -= 1
            self.budget[idx] = b
            if b <= 0:
                # yield to the controller and wait to be resumed
                self.budget[idx] = None
                self.yielded = idx
                self.main.release()
                self.sems[idx].acquire()

    def _thread(self, idx):
        self.sems[idx].acquire()
        sys.settrace(self._trace(idx))
        try:
            try:
                self.results[idx] = ('ok', self.bodies[idx]())
            except BaseException as e:
                self.results[idx] = ('raises', type(e).__name__ + ': ' + str(e)[:200])
        finally:
            sys.settrace(None)
            self.done[idx] = True
            self.yielded = idx
            self.main.release()

    def execute(self):
        threads = [threading.Thread(target=self._thread, args=(i,)) for i in range(self.n)]
        for t in threads:
            t.daemon = True
            t.start()
        segments = self.schedule + [(i, None) for i in range(self.n)]
        for idx, count in segments:
            if self.done[idx]:
                continue
            self.budget[idx] = count
            self.sems[idx].release()
            if not self.main.acquire(timeout=20):
                raise Diverged('deadlock or runaway thread %d' % idx)
        for t in threads:
            t.join(10)
        if not all(self.done):
            raise Diverged('threads did not finish')
        return self.results, list(self.points)
