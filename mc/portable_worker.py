# -*- coding: utf-8 -*-
"""Portable worker: one file, runs under Python 2.7 and 3.6+ with only the standard library and python_minifier (from PYTHONPATH).

usage: python portable_worker.py roundtrip <cases.jsonl>     C02: strict round trip of unparse() and minify(all transforms off)
       python portable_worker.py fold <cases.jsonl>          C07: evaluate folded vs unfolded expressions
       python portable_worker.py compile <cases.jsonl>       C08: compile(S) ok => minify ok and compile(out) ok ; else SyntaxError
       python portable_worker.py taint <cases.jsonl>         C09: triggers (incl. the Python 2 exec statement) freeze every name

Each line of the input is a JSON list [label, source(, options)].  Prints one JSON object.
"""
from __future__ import print_function

import ast
import json
import math
import re
import sys
import warnings

warnings.simplefilter('ignore')
sys.setrecursionlimit(3000)

import python_minifier  # noqa: E402

PY2 = sys.version_info[0] == 2
if PY2:
    text_type = unicode  # noqa: F821
else:
    text_type = str

ALL_OFF = dict(remove_annotations=False, remove_pass=False, remove_literal_statements=False, combine_imports=False, hoist_literals=False,
               rename_locals=False, rename_globals=False, remove_object_base=False, convert_posargs_to_args=False, preserve_shebang=False,
               remove_asserts=False, remove_debug=False, remove_explicit_return_none=False, remove_builtin_exception_brackets=False,
               constant_folding=False)


def const_eq(a, b):
    if type(a) is not type(b):
        return False
    if isinstance(a, float):
        if math.isnan(a) or math.isnan(b):
            return math.isnan(a) and math.isnan(b)
        return a == b and math.copysign(1.0, a) == math.copysign(1.0, b)
    if isinstance(a, complex):
        return const_eq(a.real, b.real) and const_eq(a.imag, b.imag)
    if isinstance(a, tuple):
        return len(a) == len(b) and all(const_eq(x, y) for x, y in zip(a, b))
    return a == b


def diff(a, b, path='root'):
    if isinstance(a, ast.AST):
        if type(a) is not type(b):
            return '%s: node %s != %s' % (path, type(a).__name__, type(b).__name__)
        for f in a._fields:
            if f in ('kind', 'type_comment'):
                continue
            d = diff(getattr(a, f, None), getattr(b, f, None), path + '.' + f)
            if d:
                return d
        return None
    if isinstance(a, list):
        if not isinstance(b, list):
            return '%s: list vs %s' % (path, type(b).__name__)
        if len(a) != len(b):
            return '%s: list length %d != %d' % (path, len(a), len(b))
        for i in range(len(a)):
            d = diff(a[i], b[i], '%s[%d]' % (path, i))
            if d:
                return d
        return None
    if isinstance(b, (ast.AST, list)):
        return '%s: %r vs %s' % (path, a, type(b).__name__)
    if not const_eq(a, b):
        return '%s: %r (%s) != %r (%s)' % (path, a, type(a).__name__, b, type(b).__name__)
    return None


def roundtrip_violation(src):
    try:
        tree = ast.parse(src)
    except Exception:
        return 'skip'
    try:
        out1 = python_minifier.unparse(ast.parse(src))
    except Exception as e:
        inner = getattr(e, 'exception', None)
        return ('unparse-raises:%s%s' % (type(e).__name__, (':' + type(inner).__name__) if inner is not None else ''),
                'unparse raised %r (%r) minified=%r' % (e, inner, getattr(e, 'minified', None)))
    try:
        t1 = ast.parse(out1)
    except SyntaxError as e:
        return ('unparse-output-unparseable', 'output %r: %s' % (out1, e))
    d = diff(tree, t1)
    if d:
        return ('unparse-tree-differs:' + re.sub(r'\[\d+\]', '[]', d.split(':')[0]), 'out=%r %s' % (out1[:300], d))
    try:
        out2 = python_minifier.minify(src, **ALL_OFF)
    except Exception as e:
        return ('minify-alloff-raises:%s' % type(e).__name__, 'minify(all off) raised %r' % (e,))
    if out2 != out1:
        try:
            t2 = ast.parse(out2)
        except SyntaxError as e:
            return ('minify-alloff-output-unparseable', 'output %r: %s' % (out2, e))
        d = diff(tree, t2)
        if d:
            return ('minify-alloff-tree-differs:' + re.sub(r'\[\d+\]', '[]', d.split(':')[0]), 'out=%r %s' % (out2[:300], d))
    return None


def load(path):
    import io
    with io.open(path, 'r', encoding='utf-8') as f:
        for line in f:
            if line.strip():
                yield json.loads(line)


def cmd_roundtrip(path):
    checked = skipped = 0
    violations = []
    for rec in load(path):
        label, src = rec[0], rec[1]
        v = roundtrip_violation(src)
        if v == 'skip':
            skipped += 1
            continue
        checked += 1
        if v is not None and len(violations) < 200:
            violations.append({'label': label, 'source': src[:2000], 'sig': v[0], 'detail': v[1][:1500]})
    return {'checked': checked, 'skipped': skipped, 'violations': violations}


# ---- C07: folding --------------------------------------------------------------------------------------------------------

class EvalTimeout(BaseException):
    pass


def _alarm(signum, frame):
    raise EvalTimeout()


def too_expensive(expr_src):
    """a power with a huge literal exponent (7**10**20) or a shift by a huge literal: never evaluated, stands for itself on both sides"""
    try:
        tree = ast.parse(expr_src, mode='eval')
    except Exception:
        return False

    def const(n):
        if isinstance(n, ast.UnaryOp):
            return const(n.operand)
        v = getattr(n, 'n', getattr(n, 'value', None))
        return v if isinstance(v, (int, float)) and not isinstance(v, bool) else None
    for n in ast.walk(tree):
        if isinstance(n, ast.BinOp) and isinstance(n.op, (ast.Pow, ast.LShift)):
            r = n.right
            while isinstance(r, ast.UnaryOp):
                r = r.operand
            rv = const(r)
            if rv is None and isinstance(r, ast.BinOp) and isinstance(r.op, ast.Pow):
                rv = 10 ** 9        # a tower
            if rv is not None and abs(rv) > 2000000:
                lv = const(n.left)
                if lv is None or abs(lv) not in (0, 1):
                    return True
    return False


def value_repr(expr_src):
    """evaluate a closed literal expression with this interpreter; canonical (type, value) description or exception type.
    A watchdog bounds the evaluation: an expression that the folder left alone because it is astronomically expensive (7**10**20) can still
    reach this function when a *different* rewrite changed the text around it; 'too-expensive' then stands for its value on both sides."""
    import signal
    if too_expensive(expr_src):
        return ('too-expensive',)
    old = signal.signal(signal.SIGALRM, _alarm)
    signal.alarm(2)
    try:
        try:
            code = compile(expr_src, '<expr>', 'eval')
            v = eval(code, {'__builtins__': {}}, {})
            return describe(v)
        except EvalTimeout:
            return ('too-expensive',)
        except Exception as e:
            return ('raises', type(e).__name__)
    finally:
        signal.alarm(0)
        signal.signal(signal.SIGALRM, old)


def describe(v):
    t = type(v).__name__
    if isinstance(v, float):
        if math.isnan(v):
            return (t, 'nan')
        return (t, repr(v), math.copysign(1.0, v))
    if isinstance(v, complex):
        return (t, describe(v.real), describe(v.imag))
    if isinstance(v, int) and not isinstance(v, bool):
        return (t, hex(v))      # repr() of a huge int hits the int->str digit limit
    if isinstance(v, tuple):
        return (t, tuple(describe(x) for x in v))
    return (t, repr(v))


def cmd_fold(path):
    fold_only = dict(ALL_OFF)
    fold_only['constant_folding'] = True
    checked = skipped = folded = 0
    violations = []
    for rec in load(path):
        label, expr = rec[0], rec[1]
        src = 'x=' + expr
        try:
            ast.parse(src)
        except Exception:
            skipped += 1
            continue
        checked += 1
        try:
            base = python_minifier.minify(src, **ALL_OFF)
            out = python_minifier.minify(src, **fold_only)
        except Exception as e:
            violations.append({'label': label, 'source': src, 'sig': 'raises:%s' % type(e).__name__, 'detail': repr(e)})
            continue
        if out == base:
            continue
        folded += 1
        if len(out) > len(base):
            violations.append({'label': label, 'source': src, 'sig': 'longer', 'detail': '%r -> %r (unfolded print %r)' % (src, out, base)})
            continue
        a = value_repr(base[2:])
        b = value_repr(out[2:])
        # the whole right-hand side is evaluated before and after: folding an inner, non-raising sub-expression of an expression that
        # raises (or is NaN) as a whole is fine, the result just has to be the same exception type / value
        if a != b and 'too-expensive' not in (a[0], b[0]):      # an evaluation that was refused / timed out on either side decides nothing
            violations.append({'label': label, 'source': src, 'sig': 'value-changed', 'detail': '%r -> %r: %r != %r' % (src, out, a, b)})
    return {'checked': checked, 'skipped': skipped, 'folded': folded, 'violations': violations[:200]}


# ---- C08: compilable => minifies to compilable; unparseable => SyntaxError ------------------------------------------------

def cmd_compile(path):
    checked = skipped = invalid = 0
    violations = []
    for rec in load(path):
        label, src = rec[0], rec[1]
        opts = rec[2] if len(rec) > 2 else {}
        try:
            ast.parse(src)
            parses = True
        except SyntaxError:
            parses = False
        except Exception:
            skipped += 1
            continue
        if not parses:
            invalid += 1
            try:
                python_minifier.minify(src, **opts)
                violations.append({'label': label, 'source': src[:2000], 'sig': 'invalid-source-accepted', 'detail': 'minify returned for unparseable source'})
            except SyntaxError:
                pass
            except Exception as e:
                violations.append({'label': label, 'source': src[:2000], 'sig': 'invalid-source-raises:%s' % type(e).__name__, 'detail': repr(e)})
            continue
        try:
            compile(src, '<in>', 'exec', dont_inherit=True)
        except Exception:
            skipped += 1
            continue
        checked += 1
        try:
            out = python_minifier.minify(src, **opts)
        except Exception as e:
            violations.append({'label': label, 'source': src[:2000], 'sig': 'raises:%s' % type(e).__name__, 'detail': repr(e)[:500]})
            continue
        try:
            compile(out, '<out>', 'exec', dont_inherit=True)
        except Exception as e:
            violations.append({'label': label, 'source': src[:2000], 'sig': 'output-does-not-compile:%s' % type(e).__name__,
                               'detail': '%r: %r' % (out[:500], e)})
    return {'checked': checked, 'skipped': skipped, 'invalid': invalid, 'violations': violations[:200]}


# ---- C09: Python 2 exec statement (and the name triggers under this interpreter) freeze every name -------------------------------

G3 = ['rename_locals', 'rename_globals', 'hoist_literals']
REST_DEFAULT_ON = ['remove_pass', 'combine_imports', 'remove_object_base', 'convert_posargs_to_args', 'preserve_shebang',
                   'remove_explicit_return_none', 'remove_builtin_exception_brackets', 'constant_folding']


def run_capture(src):
    """execute a program in a fresh namespace and return (stdout text, terminating exception type)"""
    try:
        from StringIO import StringIO     # Python 2: print statements write bytes
    except ImportError:
        from io import StringIO
    old = sys.stdout
    buf = StringIO()
    sys.stdout = buf
    exc = None
    try:
        try:
            code = compile(src, '<prog>', 'exec', 0, True)
            ns = {'__name__': '__verif__'}
            exec(code, ns, ns)
        except BaseException as e:
            exc = type(e).__name__
    finally:
        sys.stdout = old
    return buf.getvalue(), exc


def cmd_taint(path):
    """[label, source, control] : source contains a trigger; control is the same program without it.
    For every non-empty subset g of the three renaming switches and both bases (other safe options on / everything else off):
    minify(source, base+g) must equal minify(source, base) textually, and the output must behave like the source."""
    import itertools
    checked = skipped = evaluations = nontrivial = 0
    violations = []
    subsets = [c for k in (1, 2, 3) for c in itertools.combinations(G3, k)]
    for rec in load(path):
        label, src, ctrl = rec[0], rec[1], rec[2]
        try:
            compile(src, '<in>', 'exec', 0, True)
        except Exception:
            skipped += 1
            continue
        checked += 1
        ref = run_capture(src)
        for base_on in (REST_DEFAULT_ON, []):
            base = dict(ALL_OFF)
            for n in base_on:
                base[n] = True
            try:
                expected = python_minifier.minify(src, **base)
                ctrl_expected = python_minifier.minify(ctrl, **base)
            except Exception as e:
                violations.append({'label': label, 'source': src, 'sig': 'raises:%s' % type(e).__name__, 'detail': repr(e)})
                continue
            for g in subsets:
                evaluations += 1
                opts = dict(base)
                for n in g:
                    opts[n] = True
                try:
                    out = python_minifier.minify(src, **opts)
                except Exception as e:
                    violations.append({'label': label, 'source': src, 'sig': 'raises:%s' % type(e).__name__, 'detail': repr(e)})
                    continue
                try:
                    if python_minifier.minify(ctrl, **opts) != ctrl_expected:
                        nontrivial += 1
                except Exception:
                    pass
                if out != expected:
                    violations.append({'label': label, 'source': src, 'sig': 'names-changed:' + '+'.join(g),
                                       'detail': 'options %s on top of %s\nexpected:\n%s\ngot:\n%s' % (list(g), base_on and 'safe defaults' or 'all off', expected, out)})
                    got = run_capture(out)
                    if got != ref:
                        violations.append({'label': label, 'source': src, 'sig': 'behaviour-differs:' + '+'.join(g),
                                           'detail': 'out:\n%s\n%r != %r' % (out, ref, got)})
    return {'checked': checked, 'skipped': skipped, 'evaluations': evaluations, 'nontrivial': nontrivial, 'violations': violations[:200]}


if __name__ == '__main__':
    cmd = sys.argv[1]
    res = {'roundtrip': cmd_roundtrip, 'fold': cmd_fold, 'compile': cmd_compile, 'taint': cmd_taint}[cmd](sys.argv[2])
    res['python'] = sys.version.split()[0]
    sys.stdout.write(json.dumps(res))
