"""setup self-test: nothing is installed or fetched; verify the package imports from the repo tree and list interpreters."""
import os
import sys


def main():
    from mc import pm, core
    import python_minifier
    print('python_minifier from', python_minifier.__file__)
    print('driver python', sys.version.split()[0])
    base = '/root/.pyenv/versions'
    if os.path.isdir(base):
        print('interpreters:', ' '.join(sorted(os.listdir(base))))
    out = pm.minify('def f():\n    a_long_name=1\n    return a_long_name+a_long_name\n', pm.DEFAULT_ON)
    assert 'a_long_name' not in out, out
    os.makedirs(core.EVIDENCE_DIR, exist_ok=True)
    scratch = os.environ.get('VERIF_SCRATCH', '/var/tmp')
    assert os.access(scratch, os.W_OK), scratch
    corpus = os.path.join(core.HERE, 'corpus', 'SHA256SUMS')
    if os.path.exists(corpus):
        import hashlib
        bad = 0
        for line in open(corpus):
            h, name = line.split()
            with open(os.path.join(core.HERE, 'corpus', name), 'rb') as f:
                if hashlib.sha256(f.read()).hexdigest() != h:
                    bad += 1
                    print('corpus mismatch', name)
        if bad:
            return 1
        print('corpus ok')
    print('setup ok')
    return 0
