"""Shared driver for the G_scope based checks (C01, C03, C04, C06, C09, C10): enumerates the program space of a tier, sharded, and hands
each compilable program to the check's `examine(program)` callback."""
import itertools
import zlib

from mc.gen import scopes_gen as g


def level_plan(tier):
    """list of (nscopes, kind level, slot level, bundle level function, child_first variants)"""
    quick = [
        (1, 'full', 'full', lambda i, n: 'full', (False, True)),
        (2, 'mid', 'mid', lambda i, n: 'core', (False,)),
        (1, 'full', 'full', lambda i, n: 'mid', ('decoy',)),
        (3, 'core', 'core', lambda i, n: 'tiny', ('chain',)),
        (2, 'core', 'core', lambda i, n: 'withA', (False,)),
        (3, 'core', 'core', lambda i, n: 'withA', ('chain',)),
    ]
    if tier == 'interp':
        # the part of the space repeated under the other installed interpreters in the quick tier: one scope under the module (every kind and
        # slot, mid bundle alphabet), two scopes over the core kinds / slots with the core and the `withA` bundle alphabets
        return [(1, 'full', 'full', lambda i, n: 'mid', (False,)), (2, 'core', 'core', lambda i, n: 'core', (False,)),
                (2, 'core', 'core', lambda i, n: 'withA', (False,))]
    if tier == 'quick':
        return quick
    return quick + [
        (2, 'full', 'full', lambda i, n: 'core', (False,)),
        (3, 'core', 'core', lambda i, n: 'core', ('chain',)),
        (2, 'mid', 'mid', lambda i, n: 'core', ('decoy',)),
    ]


def annotation_plan(tier):
    """programs whose annotations matter (parameters / variables annotated with their own name, scopes attached in annotation positions):
    only meaningful with annotation removal off, so only C03 (and the compile-only C08) use them"""
    plan = [(1, 'full', 'ann', lambda i, n: 'ann', (False,)), (2, 'core', 'ann', lambda i, n: 'ann', (False,))]
    if tier == 'thorough':
        plan.append((2, 'mid', 'ann', lambda i, n: 'ann', (False,)))
    return plan


def programs(tier, part, nparts, plan=None):
    """yield (description, source) for this shard.  Sharding is by shape index so that generation work is divided too."""
    idx = 0
    for nscopes, klevel, slevel, levels, cf in (plan or level_plan(tier)):
        chain = cf == ('chain',)
        if chain:
            cf = (False,)
        for shape in g.shapes(nscopes, klevel, slevel, chain_only=chain):
            idx += 1
            if idx % nparts != part:
                continue
            for child_first in cf:
                if child_first == 'decoy':
                    for module in g.label(shape, levels, decoy=True):
                        yield module.describe(), g.emit(module)
                    continue
                for module in g.label(shape, levels, child_first=child_first):
                    if child_first and not module.child_first:
                        continue
                    yield module.describe(), g.emit(module)


def try_compile(src):
    try:
        return compile(src, '<gen>', 'exec', dont_inherit=True)
    except (SyntaxError, ValueError):
        return None
