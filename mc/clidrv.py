"""In-process driver for the pyminify command line (python_minifier.__main__.main) with fake streams, plus a subprocess driver used to
validate the in-process one against the real executable."""
import io
import os
import subprocess
import sys

from mc import pm  # noqa: F401  (sets sys.path to the repo under test)
import python_minifier.__main__ as M


class FakeStdout(object):
    def __init__(self):
        self.buffer = io.BytesIO()
        self.text = io.StringIO()
        self.encoding = 'utf-8'

    def write(self, s):
        return self.text.write(s)

    def flush(self):
        pass

    def isatty(self):
        return False


class FakeStdin(object):
    def __init__(self, data):
        self.buffer = io.BytesIO(data)
        self.encoding = 'utf-8'

    def read(self):
        return self.buffer.read().decode('utf-8')


class Outcome(object):
    __slots__ = ('exit', 'out_bytes', 'out_text', 'err', 'exc')

    def __repr__(self):
        return 'Outcome(exit=%r, bytes=%r, text=%r, err=%r, exc=%r)' % (self.exit, self.out_bytes[:80], self.out_text[:80], self.err[:120], self.exc)


def run(argv, stdin=b'', force_env=None, cwd=None):
    """run main() in-process.  Exit status follows the interpreter's rules: SystemExit code, 1 for an uncaught exception, else 0."""
    o = Outcome()
    old = (sys.argv, sys.stdin, sys.stdout, sys.stderr, os.getcwd())
    old_env = os.environ.get('PYMINIFY_FORCE_BEST_EFFORT')
    fo, fe = FakeStdout(), io.StringIO()
    sys.argv = ['pyminify'] + list(argv)
    sys.stdin, sys.stdout, sys.stderr = FakeStdin(stdin), fo, fe
    if force_env is None:
        os.environ.pop('PYMINIFY_FORCE_BEST_EFFORT', None)
    else:
        os.environ['PYMINIFY_FORCE_BEST_EFFORT'] = force_env
    if cwd:
        os.chdir(cwd)
    o.exc = None
    try:
        try:
            M.main()
            o.exit = 0
        except SystemExit as e:
            o.exit = e.code if isinstance(e.code, int) else (0 if e.code is None else 1)
        except BaseException as e:      # what the real process would print as a traceback and exit 1
            o.exit = 1
            o.exc = type(e).__name__
    finally:
        sys.argv, sys.stdin, sys.stdout, sys.stderr = old[:4]
        os.chdir(old[4])
        if old_env is None:
            os.environ.pop('PYMINIFY_FORCE_BEST_EFFORT', None)
        else:
            os.environ['PYMINIFY_FORCE_BEST_EFFORT'] = old_env
    o.out_bytes = fo.buffer.getvalue()
    o.out_text = fo.text.getvalue()
    o.err = fe.getvalue()
    return o


def run_subprocess(argv, stdin=b'', force_env=None, cwd=None):
    env = dict(os.environ)
    env['PYTHONPATH'] = os.path.join(pm.REPO, 'src')
    env.pop('PYMINIFY_FORCE_BEST_EFFORT', None)
    if force_env is not None:
        env['PYMINIFY_FORCE_BEST_EFFORT'] = force_env
    p = subprocess.run([sys.executable, '-m', 'python_minifier'] + list(argv), input=stdin, stdout=subprocess.PIPE, stderr=subprocess.PIPE, env=env, cwd=cwd)
    o = Outcome()
    o.exit = p.returncode
    o.out_bytes = p.stdout
    o.out_text = ''
    o.err = p.stderr.decode('utf-8', 'replace')
    o.exc = None
    return o


# ---- the documented flag table (docs/source/transforms/*.rst, docs/source/command_usage.rst) --------------------------------------------------
# flag -> (keyword, value it sets)
PLAIN_FLAGS = [
    ('--no-combine-imports', 'combine_imports', False),
    ('--no-remove-pass', 'remove_pass', False),
    ('--remove-literal-statements', 'remove_literal_statements', True),
    ('--no-hoist-literals', 'hoist_literals', False),
    ('--no-rename-locals', 'rename_locals', False),
    ('--rename-globals', 'rename_globals', True),
    ('--no-remove-object-base', 'remove_object_base', False),
    ('--no-convert-posargs-to-args', 'convert_posargs_to_args', False),
    ('--no-preserve-shebang', 'preserve_shebang', False),
    ('--remove-asserts', 'remove_asserts', True),
    ('--remove-debug', 'remove_debug', True),
    ('--no-remove-explicit-return-none', 'remove_explicit_return_none', False),
    ('--no-remove-builtin-exception-brackets', 'remove_builtin_exception_brackets', False),
    ('--no-constant-folding', 'constant_folding', False),
]
ANN_FLAGS = [
    ('--no-remove-annotations', None, None),
    ('--no-remove-variable-annotations', 'remove_variable_annotations', False),
    ('--no-remove-return-annotations', 'remove_return_annotations', False),
    ('--no-remove-argument-annotations', 'remove_argument_annotations', False),
    ('--remove-class-attribute-annotations', 'remove_class_attribute_annotations', True),
]
ALL_FLAGS = [f for f, _, _ in PLAIN_FLAGS] + [f for f, _, _ in ANN_FLAGS]
assert len(ALL_FLAGS) == 19


def model(flags):
    """documented meaning of a set of flags: ('invalid', None) or ('ok', frozenset of enabled switches (pm.ALL names))"""
    flags = set(flags)
    if '--remove-class-attribute-annotations' in flags and '--no-remove-annotations' in flags:
        return 'invalid', None
    on = set(pm.DEFAULT_ON)
    for f, kw, val in PLAIN_FLAGS:
        if f in flags:
            (on.add if val else on.discard)(kw)
    for f, kw, val in ANN_FLAGS[1:]:
        if f in flags:
            (on.add if val else on.discard)(kw)
    if '--no-remove-annotations' in flags:
        for _, kw, _ in ANN_FLAGS[1:]:
            on.discard(kw)
    return 'ok', frozenset(on)


def flags_from_index(i):
    return [ALL_FLAGS[b] for b in range(19) if (i >> b) & 1]
