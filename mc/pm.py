"""Thin access layer to the implementation under test (python_minifier from $VERIF_REPO/src) and its option space."""
import itertools
import os
import sys

REPO = os.environ.get('VERIF_REPO', '/repo')
_src = os.path.join(REPO, 'src')
if sys.path[0] != _src:
    if _src in sys.path:
        sys.path.remove(_src)
    sys.path.insert(0, _src)

import python_minifier  # noqa: E402
from python_minifier import RemoveAnnotationsOptions  # noqa: E402

assert os.path.realpath(python_minifier.__file__).startswith(os.path.realpath(_src)), python_minifier.__file__

# the 14 plain boolean switches of minify(), with their documented defaults
PLAIN = [
    ('remove_pass', True),
    ('remove_literal_statements', False),
    ('combine_imports', True),
    ('hoist_literals', True),
    ('rename_locals', True),
    ('rename_globals', False),
    ('remove_object_base', True),
    ('convert_posargs_to_args', True),
    ('preserve_shebang', True),
    ('remove_asserts', False),
    ('remove_debug', False),
    ('remove_explicit_return_none', True),
    ('remove_builtin_exception_brackets', True),
    ('constant_folding', True),
]
# the 4 annotation kinds (RemoveAnnotationsOptions fields), with defaults
ANN = [
    ('remove_variable_annotations', True),
    ('remove_return_annotations', True),
    ('remove_argument_annotations', True),
    ('remove_class_attribute_annotations', False),
]
ALL = [n for n, _ in PLAIN] + [n for n, _ in ANN]          # the 18 boolean switches
DEFAULT_ON = frozenset(n for n, d in PLAIN + ANN if d)
ALL_ON = frozenset(ALL)
ALL_OFF = frozenset()
# options the documentation calls always / almost always safe: the defaults and any subset of them
SAFE = DEFAULT_ON
UNSAFE = ALL_ON - SAFE


def kwargs(on):
    """keyword arguments for minify() with exactly the switches in `on` enabled"""
    kw = {n: (n in on) for n, _ in PLAIN}
    kw['remove_annotations'] = RemoveAnnotationsOptions(**{n: (n in on) for n, _ in ANN})
    return kw


class MinifyHang(RuntimeError):
    """minify() did not return within the watchdog limit (reported by the checks like any other exception from minify)"""


def minify(source, on, **extra):
    kw = kwargs(on)
    kw.update(extra)
    import threading
    if threading.current_thread() is not threading.main_thread():
        return python_minifier.minify(source, **kw)
    from mc.core import time_limit, CaseTimeout
    try:
        with time_limit(float(os.environ.get('VERIF_MINIFY_LIMIT', '20'))):
            return python_minifier.minify(source, **kw)
    except CaseTimeout:
        raise MinifyHang('minify() still running after the watchdog limit')
    except RecursionError:
        raise


def dev(base, universe, d):
    """every option set within d deviations (toggles) of base, restricted to toggling members of universe"""
    universe = sorted(universe)
    base = frozenset(base)
    out = []
    for k in range(d + 1):
        for combo in itertools.combinations(universe, k):
            out.append(base.symmetric_difference(combo))
    return out


def full(names, fixed_on=()):
    names = sorted(names)
    out = []
    for k in range(len(names) + 1):
        for combo in itertools.combinations(names, k):
            out.append(frozenset(combo) | frozenset(fixed_on))
    return out


def uniq(sets):
    seen = set()
    out = []
    for s in sets:
        if s not in seen:
            seen.add(s)
            out.append(s)
    return out


def optkey(on):
    return ','.join(sorted(on)) or '<all-off>'
