import sys

import python_minifier.ast_compat as ast

from python_minifier.transforms.suite_transformer import SuiteTransformer
from python_minifier.util import is_constant_node


class RemoveExplicitReturnNone(SuiteTransformer):
    def __call__(self, node):
        return self.visit(node)

    def visit_Return(self, node):
        assert isinstance(node, ast.Return)

        # Transform `return None` -> `return`

        if sys.version_info < (3, 4) and isinstance(node.value, ast.Name) and node.value.id == 'None':
            node.value = None

        elif sys.version_info >= (3, 4) and is_constant_node(node.value, ast.NameConstant) and node.value.value is None:
            node.value = None

        return node

    def visit_FunctionDef(self, node):
        assert isinstance(node, (ast.FunctionDef, ast.AsyncFunctionDef))

        node.body = [self.visit(a) for a in node.body]

        # Remove an explicit valueless `return` from the end of a function
        if len(node.body) > 0 and isinstance(node.body[-1], ast.Return) and node.body[-1].value is None:
            node.body.pop()

        # Replace empty suites with `0` expression statements
        if len(node.body) == 0:
            node.body = [self.add_child(ast.Expr(value=ast.Num(0)), parent=node)]

        return node
