import python_minifier.ast_compat as ast

from python_minifier.transforms.suite_transformer import SuiteTransformer


class CombineImports(SuiteTransformer):
    """
    Combine multiple import statements where possible

    This doesn't change the order of imports

    """

    def _combine_import(self, node_list, parent):

        alias = []
        namespace = None

        for statement in node_list:
            namespace = statement.namespace
            if isinstance(statement, ast.Import):
                alias += statement.names
            else:
                if alias:
                    yield self.add_child(ast.Import(names=alias), parent=parent, namespace=namespace)
                    alias = []

                yield statement

        if alias:
            yield self.add_child(ast.Import(names=alias), parent=parent, namespace=namespace)

    def _combine_import_from(self, node_list, parent):

        prev_import = None
        alias = []

        def combine(statement):
            if not isinstance(statement, ast.ImportFrom):
                return False

            if len(statement.names) == 1 and statement.names[0].name == '*':
                return False

            if prev_import is None:
                return True

            if statement.module == prev_import.module and statement.level == prev_import.level:
                return True

            return False

        for statement in node_list:
            if combine(statement):
                prev_import = statement
                alias += statement.names
            else:
                if alias:
                    yield self.add_child(
                        ast.ImportFrom(module=prev_import.module, names=alias, level=prev_import.level), parent=parent, namespace=prev_import.namespace
                    )
                    alias = []

                yield statement

        if alias:
            yield self.add_child(
                ast.ImportFrom(module=prev_import.module, names=alias, level=prev_import.level), parent=parent, namespace=prev_import.namespace
            )

    def suite(self, node_list, parent):
        a = list(self._combine_import(node_list, parent))
        b = list(self._combine_import_from(a, parent))

        return [self.visit(n) for n in b]
