"""
Remove Call nodes that are only used to raise exceptions with no arguments

If a Raise statement is used on a Name and the name refers to an exception, it is automatically instantiated with no arguments
We can remove any Call nodes that are only used to raise exceptions with no arguments and let the Raise statement do the instantiation.
When printed, this essentially removes the brackets from the exception name.

We can't generally know if a name refers to an exception, so we only do this for builtin exceptions
"""

import sys

import python_minifier.ast_compat as ast
from python_minifier.ast_annotation import get_parent, set_parent

from python_minifier.rename.binding import BuiltinBinding


# These are always exceptions, in every version of python
builtin_exceptions = [
    'SyntaxError', 'Exception', 'ValueError', 'BaseException', 'MemoryError', 'RuntimeError', 'DeprecationWarning', 'UnicodeEncodeError', 'KeyError', 'LookupError', 'TypeError', 'BufferError',
    'ImportError', 'OSError', 'StopIteration', 'ArithmeticError', 'UserWarning', 'PendingDeprecationWarning', 'RuntimeWarning', 'IndentationError', 'UnicodeTranslateError', 'UnboundLocalError',
    'AttributeError', 'EOFError', 'UnicodeWarning', 'BytesWarning', 'NameError', 'IndexError', 'TabError', 'SystemError', 'OverflowError', 'FutureWarning', 'SystemExit', 'Warning',
    'FloatingPointError', 'ReferenceError', 'UnicodeError', 'AssertionError', 'SyntaxWarning', 'UnicodeDecodeError', 'GeneratorExit', 'ImportWarning', 'KeyboardInterrupt', 'ZeroDivisionError',
    'NotImplementedError'
]

# These are exceptions only in python 2.7
builtin_exceptions_2_7 = [
    'IOError',
    'StandardError',
    'EnvironmentError',
    'VMSError',
    'WindowsError'
]

# These are exceptions in 3.3+
builtin_exceptions_3_3 = [
    'ChildProcessError',
    'ConnectionError',
    'BrokenPipeError',
    'ConnectionAbortedError',
    'ConnectionRefusedError',
    'ConnectionResetError',
    'FileExistsError',
    'FileNotFoundError',
    'InterruptedError',
    'IsADirectoryError',
    'NotADirectoryError',
    'PermissionError',
    'ProcessLookupError',
    'TimeoutError',
    'ResourceWarning',
]

# These are exceptions in 3.5+
builtin_exceptions_3_5 = [
    'StopAsyncIteration',
    'RecursionError',
]

# These are exceptions in 3.6+
builtin_exceptions_3_6 = [
    'ModuleNotFoundError'
]

# These are exceptions in 3.10+
builtin_exceptions_3_10 = [
    'EncodingWarning'
]

# These are exceptions in 3.11+
builtin_exceptions_3_11 = [
    'BaseExceptionGroup',
    'ExceptionGroup',
    'BaseExceptionGroup',
]


def _remove_empty_call(binding):
    assert isinstance(binding, BuiltinBinding)

    for name_node in binding.references:
        # For this to be a builtin, all references must be name nodes as it is not defined anywhere
        assert isinstance(name_node, ast.Name)
        assert isinstance(name_node.ctx, ast.Load)

        if not isinstance(get_parent(name_node), ast.Call):
            # This is not a call
            continue
        call_node = get_parent(name_node)

        if not isinstance(get_parent(call_node), ast.Raise):
            # This is not a raise statement
            continue
        raise_node = get_parent(call_node)

        if len(call_node.args) > 0 or len(call_node.keywords) > 0:
            # This is a call with arguments
            continue

        # This is an instance of the exception being called with no arguments
        # let's replace it with just the name, cutting out the Call node

        if raise_node.exc is call_node:
            raise_node.exc = name_node
        elif raise_node.cause is call_node:
            raise_node.cause = name_node
        set_parent(name_node, raise_node)


def remove_no_arg_exception_call(module):
    assert isinstance(module, ast.Module)

    if sys.version_info < (3, 0):
        return module

    for binding in module.bindings:
        if not isinstance(binding, BuiltinBinding):
            continue

        if binding.is_redefined():
            continue

        if binding.name in builtin_exceptions:
            # We can remove any calls to builtin exceptions
            _remove_empty_call(binding)

    return module
