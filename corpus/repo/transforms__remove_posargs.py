import python_minifier.ast_compat as ast


def remove_posargs(node):
    if isinstance(node, ast.arguments) and hasattr(node, 'posonlyargs'):
        node.args = node.posonlyargs + node.args
        node.posonlyargs = []

    for child in ast.iter_child_nodes(node):
        remove_posargs(child)

    return node
