"""
Print a representation of an AST

This prints a human readable representation of the nodes in the AST.
The goal is to make it easy to see what the AST looks like, and to
make it easy to compare two ASTs.

This is not intended to be a complete representation of the AST, some
fields or field names may be omitted for clarity. It should still be precise and unambiguous.

"""

import python_minifier.ast_compat as ast

from python_minifier.util import is_constant_node


INDENT = '    '

# The field name that can be omitted for each node
# Either it's the only field or would otherwise be obvious
default_fields = {
    'Constant': 'value',
    'Num': 'n',
    'Str': 's',
    'Bytes': 's',
    'NameConstant': 'value',
    'FormattedValue': 'value',
    'JoinedStr': 'values',
    'List': 'elts',
    'Tuple': 'elts',
    'Set': 'elts',
    'Name': 'id',
    'Expr': 'value',
    'UnaryOp': 'op',
    'BinOp': 'op',
    'BoolOp': 'op',
    'Call': 'func',
    'Index': 'value',
    'ExtSlice': 'dims',
    'Assert': 'test',
    'Delete': 'targets',
    'Import': 'names',
    'If': 'test',
    'While': 'test',
    'Try': 'handlers',
    'TryExcept': 'handlers',
    'With': 'items',
    'withitem': 'context_expr',
    'FunctionDef': 'name',
    'arg': 'arg',
    'Return': 'value',
    'Yield': 'value',
    'YieldFrom': 'value',
    'Global': 'names',
    'Nonlocal': 'names',
    'ClassDef': 'name',
    'AsyncFunctionDef': 'name',
    'Await': 'value',
    'AsyncWith': 'items',
    'Raise': 'exc',
    'Subscript': 'value',
    'Attribute': 'value',
    'AugAssign': 'op',
}


def is_literal(node, field):
    if hasattr(ast, 'Constant') and isinstance(node, ast.Constant) and field == 'value':
        return True

    if is_constant_node(node, ast.Num) and field == 'n':
        return True

    if is_constant_node(node, ast.Str) and field == 's':
        return True

    if is_constant_node(node, ast.Bytes) and field == 's':
        return True

    if is_constant_node(node, ast.NameConstant) and field == 'value':
        return True

    return False


def print_ast(node):
    if not isinstance(node, ast.AST):
        return repr(node)

    s = ''

    node_name = node.__class__.__name__
    s += node_name
    s += '('

    first = True
    for field, value in ast.iter_fields(node):
        if not value and not is_literal(node, field):
            # Don't bother printing fields that are empty, except for literals
            continue

        if field == 'ctx':
            # Don't print the ctx, it's always apparent from context
            continue

        if first:
            first = False
        else:
            s += ', '

        if default_fields.get(node_name) != field:
            s += field + '='

        if isinstance(value, ast.AST):
            s += print_ast(value)
        elif isinstance(value, list):
            s += '['
            first_list = True
            for item in value:
                if first_list:
                    first_list = False
                else:
                    s += ','

                for line in print_ast(item).splitlines():
                    s += '\n' + INDENT + line
            s += '\n]'
        else:
            s += repr(value)

    s += ')'
    return s
