"""Tools for assembling python code from tokens."""

import re
import sys


class TokenTypes(object):
    NoToken = 0
    Identifier = 1
    Keyword = 2
    SoftKeyword = 3
    NumberLiteral = 4
    NonNumberLiteral = 5
    Delimiter = 6
    Operator = 7
    NewLine = 8
    EndStatement = 9


class Delimiter(object):
    def __init__(self, terminal_printer, delimiter=',', add_parens=False):
        """
        Delimited group printer

        A group of items that should be delimited by a delimiter character.
        Each call to new_item() will insert the delimiter character if necessary.

        When used as a context manager, the group will be enclosed by the start and end characters if the group has any items.

        >>> d = Delimiter(terminal_printer)
        ... d.new_item()
        ... terminal_printer.identifier('a')
        ... print(terminal_printer.code)
        a

        >>> d.new_item()
        ... terminal_printer.identifier('b')
        ... print(terminal_printer.code)
        a,b

        >>> with Delimiter(terminal_printer, add_parens=True) as d:
        ...     d.new_item()
        ...     terminal_printer.identifier('a')
        ... print(terminal_printer.code)
        (a)

        :param terminal_printer: The terminal printer to use.
        :param delimiter: The delimiter to use.
        :param add_parens: If the group should be enclosed by parentheses. Only used when used as a context manager.
        """

        self._terminal_printer = terminal_printer
        self._delimiter = delimiter
        self._add_parens = add_parens

        self._first = True

        self._context_manager = False

    def __enter__(self):
        """Open a delimited group."""
        self._context_manager = True
        return self

    def __exit__(self, exc_type, exc_val, exc_tb):
        """Close the delimited group."""
        if not self._first and self._add_parens:
            self._terminal_printer.delimiter(')')

    def new_item(self):
        """Add a new item to the delimited group."""
        if self._first:
            self._first = False
            if self._context_manager and self._add_parens:
                self._terminal_printer.delimiter('(')
        else:
            self._terminal_printer.delimiter(self._delimiter)


class TokenPrinter(object):
    """
    Concatenates terminal symbols of the python grammar
    """

    def __init__(self, prefer_single_line=False, allow_invalid_num_warnings=False):
        """
        :param prefer_single_line: If True, chooses to put as much code as possible on a single line.
        :param allow_invalid_num_warnings: If True, allows invalid number literals to be printe that may cause warnings.
        """

        self._prefer_single_line = prefer_single_line
        self._allow_invalid_num_warnings = allow_invalid_num_warnings

        # Initialize as unicode string on Python 2.7 to handle Unicode content
        if sys.version_info[0] < 3:
            self._code = u''
        else:
            self._code = ''
        self.indent = 0
        self.unicode_literals = False
        self.previous_token = TokenTypes.NoToken

    def __str__(self):
        """Return the output code."""
        return self._code
    
    def __unicode__(self):
        """Return the output code as unicode (for Python 2.7 compatibility)."""
        return self._code

    def identifier(self, name):
        """Add an identifier to the output code."""
        assert isinstance(name, str)

        if self.previous_token in [TokenTypes.Identifier, TokenTypes.Keyword, TokenTypes.SoftKeyword, TokenTypes.NumberLiteral]:
            self.delimiter(' ')

        self._code += name
        self.previous_token = TokenTypes.Identifier

    def keyword(self, kw):
        """Add a keyword to the output code."""
        assert kw in [
            'False', 'None', 'True', 'and', 'as',
            'assert', 'async', 'await', 'break',
            'class', 'continue', 'def', 'del',
            'elif', 'else', 'except', 'finally',
            'for', 'from', 'global', 'if', 'import',
            'in', 'is', 'lambda', 'nonlocal', 'not',
            'or', 'pass', 'raise', 'return',
            'try', 'while', 'with', 'yield', '_',
            'case', 'match', 'print', 'exec',
            'type'
        ]

        if self.previous_token in [TokenTypes.Identifier, TokenTypes.Keyword, TokenTypes.SoftKeyword, TokenTypes.NumberLiteral]:
            self.delimiter(' ')

        self._code += kw

        if kw in ['_', 'case', 'match', 'type']:
            self.previous_token = TokenTypes.SoftKeyword
        else:
            self.previous_token = TokenTypes.Keyword

    def stringliteral(self, value):
        """Add a string literal to the output code."""
        s = repr(value)

        if sys.version_info < (3, 0) and self.unicode_literals:
            if s[0] == 'u':
                # Remove the u prefix since literals are unicode by default
                s = s[1:]
            else:
                # Add a b prefix to indicate it is NOT unicode
                s = 'b' + s

        if len(s) > 0 and s[0].isalpha() and self.previous_token in [TokenTypes.Identifier, TokenTypes.Keyword, TokenTypes.SoftKeyword]:
            self.delimiter(' ')

        self._code += s
        self.previous_token = TokenTypes.NonNumberLiteral

    def bytesliteral(self, value):
        """Add a bytes literal to the output code."""
        s = repr(value)

        if len(s) > 0 and s[0].isalpha() and self.previous_token in [TokenTypes.Identifier, TokenTypes.Keyword, TokenTypes.SoftKeyword]:
            self.delimiter(' ')

        self._code += s
        self.previous_token = TokenTypes.NonNumberLiteral

    def fstring(self, s):
        """Add an f-string to the output code."""
        assert isinstance(s, str)

        if self.previous_token in [TokenTypes.Identifier, TokenTypes.Keyword, TokenTypes.SoftKeyword]:
            self.delimiter(' ')

        self._code += s
        self.previous_token = TokenTypes.NonNumberLiteral

    def delimiter(self, d):
        """Add a delimiter to the output code."""
        assert d in [
            '(', ')', '[', ']', '{', '}', ' ',
            ',', ':', '.', ';', '@', '=', '->',
            '+=', '-=', '*=', '/=', '//=', '%=', '@=',
            '&=', '|=', '^=', '>>=', '<<=', '**=', '|',
            '`'
        ]

        self._code += d
        self.previous_token = TokenTypes.Delimiter

    def operator(self, o):
        """Add an operator to the output code."""
        assert o in [
            '+', '-', '*', '**', '/', '//', '%', '@',
            '<<', '>>', '&', '|', '^', '~', ':=',
            '<', '>', '<=', '>=', '==', '!='
        ]

        self._code += o
        self.previous_token = TokenTypes.Operator

    def integer(self, v):
        """Add an integer to the output code."""

        s = repr(v)
        h = hex(v)

        if self.previous_token == TokenTypes.SoftKeyword:
            self.delimiter(' ')
        elif self.previous_token in [TokenTypes.Identifier, TokenTypes.Keyword]:
            self.delimiter(' ')

        self._code += h if len(h) < len(s) else s

        self.previous_token = TokenTypes.NumberLiteral

    def imagnumber(self, value):
        """Add a complex number to the output code."""
        assert isinstance(value, complex)

        s = repr(value)

        if s in ['infj', 'inf*j']:
            s = '1e999j'
        elif s in ['-infj', '-inf*j']:
            s = '-1e999j'

        if self.previous_token == TokenTypes.SoftKeyword:
            self.delimiter(' ')
        elif self.previous_token in [TokenTypes.Identifier, TokenTypes.Keyword]:
            self.delimiter(' ')

        self._code += s

        self.previous_token = TokenTypes.NumberLiteral

    def floatnumber(self, v):
        """Add a float to the output code."""
        assert isinstance(v, float)

        s = repr(v)

        s = s.replace('e+', 'e')

        add_e = re.match(r'^(\d+?)(0+).0$', s)
        if add_e:
            s = add_e.group(1) + 'e' + str(len(add_e.group(2)))

        if s == 'inf':
            s = '1e999'
        elif s == '-inf':
            s = '-1e999'
        elif s.startswith('0.'):
            s = s[1:]
        elif s.startswith('-0.'):
            s = '-' + s[2:]
        elif s.endswith('.0'):
            s = s[:-1]

        if self.previous_token == TokenTypes.SoftKeyword:
            self.delimiter(' ')
        elif self.previous_token in [TokenTypes.Identifier, TokenTypes.Keyword]:
            self.delimiter(' ')

        self._code += s

        self.previous_token = TokenTypes.NumberLiteral

    def newline(self):
        """ Add a newline to the code. """
        if self._code == '':
            return

        self._code = self._code.rstrip('\n\t;')
        self._code += '\n'
        self._code += '\t' * self.indent

        self.previous_token = TokenTypes.NewLine

    def enter_block(self):
        """Enter a new block, indenting the code."""
        self.indent += 1
        self.newline()

    def leave_block(self):
        """Leave a block, un-indenting the code."""
        self.indent -= 1
        self.newline()

    def end_statement(self):
        """ End a statement with a newline, or a semi-colon if it saves characters. """

        if self.indent == 0:
            self.newline()
        else:
            if self._code[-1] != ';':
                self._code += ';'

        self.previous_token = TokenTypes.EndStatement

    def append(self, code, token_type):
        """ Append arbitrary string to the output."""
        self._code += code
        self.previous_token = token_type
