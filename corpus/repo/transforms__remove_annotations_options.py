class RemoveAnnotationsOptions(object):
    """
    Options for the RemoveAnnotations transform

    This can be passed to the minify function as the remove_annotations argument

    :param remove_variable_annotations: Remove variable annotations
    :type remove_variable_annotations: bool
    :param remove_return_annotations: Remove return annotations
    :type remove_return_annotations: bool
    :param remove_argument_annotations: Remove argument annotations
    :type remove_argument_annotations: bool
    :param remove_class_attribute_annotations: Remove class attribute annotations
    :type remove_class_attribute_annotations: bool
    """

    remove_variable_annotations = True
    remove_return_annotations = True
    remove_argument_annotations = True
    remove_class_attribute_annotations = False

    def __init__(self, remove_variable_annotations=True, remove_return_annotations=True, remove_argument_annotations=True, remove_class_attribute_annotations=False):
        self.remove_variable_annotations = remove_variable_annotations
        self.remove_return_annotations = remove_return_annotations
        self.remove_argument_annotations = remove_argument_annotations
        self.remove_class_attribute_annotations = remove_class_attribute_annotations

    def __repr__(self):
        return 'RemoveAnnotationsOptions(remove_variable_annotations=%r, remove_return_annotations=%r, remove_argument_annotations=%r, remove_class_attribute_annotations=%r)' % (
            self.remove_variable_annotations, self.remove_return_annotations, self.remove_argument_annotations, self.remove_class_attribute_annotations
        )

    def __nonzero__(self):
        return any((self.remove_variable_annotations, self.remove_return_annotations, self.remove_argument_annotations, self.remove_class_attribute_annotations))

    def __bool__(self):
        return self.__nonzero__()
