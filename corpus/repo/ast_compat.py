"""
The is a backwards compatible shim for the ast module.

This is the best way to make the ast module work the same in both python 2 and 3.
This is essentially what the ast module was doing until 3.12, when it started throwing
deprecation warnings.
"""

from ast import *


# Ideally we don't import anything else

if 'TypeAlias' in globals():

    # Add n and s properties to Constant so it can stand in for Num, Str and Bytes
    Constant.n = property(lambda self: self.value, lambda self, value: setattr(self, 'value', value))  # type: ignore[assignment]
    Constant.s = property(lambda self: self.value, lambda self, value: setattr(self, 'value', value))  # type: ignore[assignment]


    # These classes are redefined from the ones in ast that complain about deprecation
    # They will continue to work once they are removed from ast

    class Str(Constant):  # type: ignore[no-redef]
        def __new__(cls, s, *args, **kwargs):
            return Constant(value=s, *args, **kwargs)


    class Bytes(Constant):  # type: ignore[no-redef]
        def __new__(cls, s, *args, **kwargs):
            return Constant(value=s, *args, **kwargs)


    class Num(Constant):  # type: ignore[no-redef]
        def __new__(cls, n, *args, **kwargs):
            return Constant(value=n, *args, **kwargs)


    class NameConstant(Constant):  # type: ignore[no-redef]
        def __new__(cls, *args, **kwargs):
            return Constant(*args, **kwargs)


    class Ellipsis(Constant):  # type: ignore[no-redef]
        def __new__(cls, *args, **kwargs):
            return Constant(value=literal_eval('...'), *args, **kwargs)


# Create a dummy class for missing AST nodes
for _node_type in [
    'AnnAssign',
    'AsyncFor',
    'AsyncFunctionDef',
    'AsyncFunctionDef',
    'AsyncWith',
    'Bytes',
    'Constant',
    'DictComp',
    'Exec',
    'ListComp',
    'MatchAs',
    'MatchMapping',
    'MatchStar',
    'NameConstant',
    'NamedExpr',
    'Nonlocal',
    'ParamSpec',
    'SetComp',
    'Starred',
    'TryStar',
    'TypeVar',
    'TypeVarTuple',
    'YieldFrom',
    'arg',
    'withitem',
]:
    if _node_type not in globals():
        globals()[_node_type] = type(_node_type, (AST,), {})