import python_minifier.ast_compat as ast


def is_constant_node(node, types):
    """
    Is a node one of the specified node types

    A node type may be an actual ast class or a tuple of many.

    If types includes a specific Constant type (Str, Bytes, Num etc),
    returns true for Constant nodes of the correct type.

    :type node: ast.AST
    :param types:
    :rtype: bool

    """

    if not isinstance(types, tuple):
        types = (types,)

    for node_type in types:
        assert not isinstance(node_type, str)

    if isinstance(node, types):
        return True

    if isinstance(node, ast.Constant):
        if type(node.value) in [type(None), type(True), type(False)]:
            return ast.NameConstant in types
        elif isinstance(node.value, (int, float, complex)):
            return ast.Num in types
        elif isinstance(node.value, str):
            return ast.Str in types
        elif isinstance(node.value, bytes):
            return ast.Bytes in types
        elif node.value == Ellipsis:
            return ast.Ellipsis in types
        else:
            raise RuntimeError('Unknown Constant value %r' % type(node.value))

    return False
