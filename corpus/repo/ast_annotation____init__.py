"""
This module provides utilities for annotating Abstract Syntax Tree (AST) nodes with parent references.
"""

import ast

class _NoParent(ast.AST):
    """A placeholder class used to indicate that a node has no parent."""

    def __repr__(self):
        # type: () -> str
        return 'NoParent()'

def add_parent(node, parent=_NoParent()):
    # type: (ast.AST, ast.AST) -> None
    """
    Recursively adds a parent reference to each node in the AST.

    >>> tree = ast.parse('a = 1')
    >>> add_parent(tree)
    >>> get_parent(tree.body[0]) == tree
    True

    :param node: The current AST node.
    :param parent: The parent :class:`ast.AST` node.
    """

    node._parent = parent  # type: ignore[attr-defined]
    for child in ast.iter_child_nodes(node):
        add_parent(child, node)

def get_parent(node):
    # type: (ast.AST) -> ast.AST
    """
    Retrieves the parent of the given AST node.

    >>> tree = ast.parse('a = 1')
    >>> add_parent(tree)
    >>> get_parent(tree.body[0]) == tree
    True

    :param node: The AST node whose parent is to be retrieved.
    :return: The parent AST node.
    :raises ValueError: If the node has no parent.
    """

    if not hasattr(node, '_parent') or isinstance(node._parent, _NoParent):  # type: ignore[attr-defined]
        raise ValueError('Node has no parent')

    return node._parent  # type: ignore[attr-defined]

def set_parent(node, parent):
    # type: (ast.AST, ast.AST) -> None
    """
    Replace the parent of the given AST node.

    Create a simple AST:
    >>> tree = ast.parse('a = func()')
    >>> add_parent(tree)
    >>> isinstance(tree.body[0], ast.Assign) and isinstance(tree.body[0].value, ast.Call)
    True
    >>> assign = tree.body[0]
    >>> call = tree.body[0].value
    >>> get_parent(call) == assign
    True

    Replace the parent of the call node:
    >>> tree.body[0] = call
    >>> set_parent(call, tree)
    >>> get_parent(call) == tree
    True
    >>> from python_minifier.ast_printer import print_ast
    >>> print(print_ast(tree))
    Module(body=[
        Call(Name('func'))
    ])

    :param node: The AST node whose parent is to be set.
    :param parent: The parent AST node.
    """

    node._parent = parent  # type: ignore[attr-defined]
