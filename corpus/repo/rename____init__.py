from python_minifier.rename.bind_names import bind_names
from python_minifier.rename.mapper import add_namespace
from python_minifier.rename.rename_literals import rename_literals
from python_minifier.rename.renamer import rename
from python_minifier.rename.resolve_names import resolve_names
from python_minifier.rename.util import allow_rename_globals, allow_rename_locals
