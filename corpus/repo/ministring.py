BACKSLASH = '\\'


class MiniString(object):
    """
    Create a representation of a string object

    :param str string: The string to minify

    """

    def __init__(self, string, quote="'"):
        self._s = string
        self.safe_mode = False
        self.quote = quote

    def __str__(self):
        """
        The smallest python literal representation of a string

        :rtype: str

        """

        if self._s == '':
            return ''

        if len(self.quote) == 1:
            s = self.to_short()
        else:
            s = self.to_long()

        try:
            eval(self.quote + s + self.quote)
        except (UnicodeDecodeError, UnicodeEncodeError):
            if self.safe_mode:
                raise

            self.safe_mode = True
            if len(self.quote) == 1:
                s = self.to_short()
            else:
                s = self.to_long()

        assert eval(self.quote + s + self.quote) == self._s

        return s

    def to_short(self):
        s = ''

        escaped = {
            '\n': BACKSLASH + 'n',
            '\\': BACKSLASH + BACKSLASH,
            '\a': BACKSLASH + 'a',
            '\b': BACKSLASH + 'b',
            '\f': BACKSLASH + 'f',
            '\r': BACKSLASH + 'r',
            '\t': BACKSLASH + 't',
            '\v': BACKSLASH + 'v',
            '\0': BACKSLASH + 'x00',
            self.quote: BACKSLASH + self.quote,
        }

        for c in self._s:
            if c in escaped:
                s += escaped[c]
            else:
                if self.safe_mode:
                    unicode_value = ord(c)
                    if unicode_value <= 0x7F:
                        s += c
                    elif unicode_value <= 0xFFFF:
                        s += BACKSLASH + 'u' + format(unicode_value, '04x')
                    else:
                        s += BACKSLASH + 'U' + format(unicode_value, '08x')
                else:
                    s += c

        return s

    def to_long(self):
        s = ''

        escaped = {
            '\\': BACKSLASH + BACKSLASH,
            '\a': BACKSLASH + 'a',
            '\b': BACKSLASH + 'b',
            '\f': BACKSLASH + 'f',
            '\r': BACKSLASH + 'r',
            '\t': BACKSLASH + 't',
            '\v': BACKSLASH + 'v',
            '\0': BACKSLASH + 'x00',
            self.quote[0]: BACKSLASH + self.quote[0],
        }

        for c in self._s:
            if c in escaped:
                s += escaped[c]
            else:
                if self.safe_mode:
                    unicode_value = ord(c)
                    if unicode_value <= 0x7F:
                        s += c
                    elif unicode_value <= 0xFFFF:
                        s += BACKSLASH + 'u' + format(unicode_value, '04x')
                    else:
                        s += BACKSLASH + 'U' + format(unicode_value, '08x')
                else:
                    s += c

        return s


class MiniBytes(object):
    """
    Create a representation of a bytes object

    :param bytes string: The string to minify

    """

    def __init__(self, string, quote="'"):
        self._b = string
        self.quote = quote

    def __str__(self):
        """
        The smallest python literal representation of a string

        :rtype: str

        """

        if self._b == b'':
            return ''

        if len(self.quote) == 1:
            s = self.to_short()
        else:
            s = self.to_long()

        assert eval('b' + self.quote + s + self.quote) == self._b

        return s

    def to_short(self):
        b = ''

        for c in self._b:
            if c == b'\\':
                b += BACKSLASH
            elif c == b'\n':
                b += BACKSLASH + 'n'
            elif c == self.quote:
                b += BACKSLASH + self.quote
            else:
                if c >= 128:
                    b += BACKSLASH + chr(c)
                else:
                    b += chr(c)

        return b

    def to_long(self):
        b = ''

        for c in self._b:
            if c == b'\\':
                b += BACKSLASH
            elif c == self.quote:
                b += BACKSLASH + self.quote
            else:
                if c >= 128:
                    b += BACKSLASH + chr(c)
                else:
                    b += chr(c)

        return b
