import itertools
import keyword
import random
import string

from python_minifier.rename.util import builtins


def random_generator(length=40):
    valid_first = string.ascii_uppercase + string.ascii_lowercase
    valid_rest = string.digits + valid_first + '_'

    while True:
        first = [random.choice(valid_first)]
        rest = [random.choice(valid_rest) for i in range(length - 1)]
        yield ''.join(first + rest)


def name_generator():
    valid_first = string.ascii_uppercase + string.ascii_lowercase
    valid_rest = string.digits + valid_first + '_'

    for c in valid_first:
        yield c

    for length in itertools.count(1):
        for first in valid_first:
            for rest in itertools.product(valid_rest, repeat=length):
                name = first
                name += ''.join(rest)
                yield name


def name_filter():
    """
    Yield all valid python identifiers

    Name are returned sorted by length, then string sort order.

    Names that already have meaning in python (keywords and builtins)
    will not be included in the output.

    :rtype: Iterable[str]

    """

    reserved = keyword.kwlist + dir(builtins)

    for name in name_generator():
        if name not in reserved:
            yield name
