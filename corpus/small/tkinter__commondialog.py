# base class for tk common dialogues
#
# this module provides a base class for accessing the common
# dialogues available in Tk 4.2 and newer.  use filedialog,
# colorchooser, and messagebox to access the individual
# dialogs.
#
# written by Fredrik Lundh, May 1997
#

__all__ = ["Dialog"]

from tkinter import _get_temp_root, _destroy_temp_root


class Dialog:

    command = None

    def __init__(self, master=None, **options):
        if master is None:
            master = options.get('parent')
        self.master = master
        self.options = options

    def _fixoptions(self):
        pass # hook

    def _fixresult(self, widget, result):
        return result # hook

    def show(self, **options):

        # update instance options
        for k, v in options.items():
            self.options[k] = v

        self._fixoptions()

        master = self.master
        if master is None:
            master = _get_temp_root()
        try:
            self._test_callback(master)  # The function below is replaced for some tests.
            s = master.tk.call(self.command, *master._options(self.options))
            s = self._fixresult(master, s)
        finally:
            _destroy_temp_root(master)

        return s

    def _test_callback(self, master):
        pass
