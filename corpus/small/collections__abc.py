from _collections_abc import *
from _collections_abc import __all__
from _collections_abc import _CallableGenericAlias
