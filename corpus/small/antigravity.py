
import webbrowser
import hashlib

webbrowser.open("https://xkcd.com/353/")

def geohash(latitude, longitude, datedow):
    '''Compute geohash() using the Munroe algorithm.

    >>> geohash(37.421542, -122.085589, b'2005-05-26-10458.68')
    37.857713 -122.544543

    '''
    # https://xkcd.com/426/
    h = hashlib.md5(datedow, usedforsecurity=False).hexdigest()
    p, q = [('%f' % float.fromhex('0.' + x)) for x in (h[:16], h[16:32])]
    print('%d%s %d%s' % (latitude, p[1:], longitude, q[1:]))
