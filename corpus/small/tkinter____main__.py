"""Main entry point"""

import sys
if sys.argv[0].endswith("__main__.py"):
    sys.argv[0] = "python -m tkinter"
from . import _test as main
main()
