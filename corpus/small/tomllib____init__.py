# SPDX-License-Identifier: MIT
# SPDX-FileCopyrightText: 2021 Taneli Hukkinen
# Licensed to PSF under a Contributor Agreement.

__all__ = ("loads", "load", "TOMLDecodeError")

from ._parser import TOMLDecodeError, load, loads

# Pretend this exception was created here.
TOMLDecodeError.__module__ = __name__
