#
# shift_jis_2004.py: Python Unicode Codec for SHIFT_JIS_2004
#
# Written by Hye-Shik Chang <perky@FreeBSD.org>
#

import _codecs_jp, codecs
import _multibytecodec as mbc

codec = _codecs_jp.getcodec('shift_jis_2004')

class Codec(codecs.Codec):
    encode = codec.encode
    decode = codec.decode

class IncrementalEncoder(mbc.MultibyteIncrementalEncoder,
                         codecs.IncrementalEncoder):
    codec = codec

class IncrementalDecoder(mbc.MultibyteIncrementalDecoder,
                         codecs.IncrementalDecoder):
    codec = codec

class StreamReader(Codec, mbc.MultibyteStreamReader, codecs.StreamReader):
    codec = codec

class StreamWriter(Codec, mbc.MultibyteStreamWriter, codecs.StreamWriter):
    codec = codec

def getregentry():
    return codecs.CodecInfo(
        name='shift_jis_2004',
        encode=Codec().encode,
        decode=Codec().decode,
        incrementalencoder=IncrementalEncoder,
        incrementaldecoder=IncrementalDecoder,
        streamreader=StreamReader,
        streamwriter=StreamWriter,
    )
