"""Fixer that changes 'a ,b' into 'a, b'.

This also changes '{a :b}' into '{a: b}', but does not touch other
uses of colons.  It does not touch other uses of whitespace.

"""

from .. import pytree
from ..pgen2 import token
from .. import fixer_base

class FixWsComma(fixer_base.BaseFix):

    explicit = True # The user must ask for this fixers

    PATTERN = """
    any<(not(',') any)+ ',' ((not(',') any)+ ',')* [not(',') any]>
    """

    COMMA = pytree.Leaf(token.COMMA, ",")
    COLON = pytree.Leaf(token.COLON, ":")
    SEPS = (COMMA, COLON)

    def transform(self, node, results):
        new = node.clone()
        comma = False
        for child in new.children:
            if child in self.SEPS:
                prefix = child.prefix
                if prefix.isspace() and "\n" not in prefix:
                    child.prefix = ""
                comma = True
            else:
                if comma:
                    prefix = child.prefix
                    if not prefix:
                        child.prefix = " "
                comma = False
        return new
