# Copyright (C) 2001-2006 Python Software Foundation
# Author: Barry Warsaw
# Contact: email-sig@python.org

"""Class representing message/* MIME documents."""

__all__ = ['MIMEMessage']

from email import message
from email.mime.nonmultipart import MIMENonMultipart


class MIMEMessage(MIMENonMultipart):
    """Class representing message/* MIME documents."""

    def __init__(self, _msg, _subtype='rfc822', *, policy=None):
        """Create a message/* type MIME document.

        _msg is a message object and must be an instance of Message, or a
        derived class of Message, otherwise a TypeError is raised.

        Optional _subtype defines the subtype of the contained message.  The
        default is "rfc822" (this is defined by the MIME standard, even though
        the term "rfc822" is technically outdated by RFC 2822).
        """
        MIMENonMultipart.__init__(self, 'message', _subtype, policy=policy)
        if not isinstance(_msg, message.Message):
            raise TypeError('Argument is not an instance of Message')
        # It's convenient to use this base class method.  We need to do it
        # this way or we'll get an exception
        message.Message.attach(self, _msg)
        # And be sure our default type is set correctly
        self.set_default_type('message/rfc822')
