"""Remove __future__ imports

from __future__ import foo is replaced with an empty line.
"""
# Author: Christian Heimes

# Local imports
from .. import fixer_base
from ..fixer_util import BlankLine

class FixFuture(fixer_base.BaseFix):
    BM_compatible = True

    PATTERN = """import_from< 'from' module_name="__future__" 'import' any >"""

    # This should be run last -- some things check for the import
    run_order = 10

    def transform(self, node, results):
        new = BlankLine()
        new.prefix = node.prefix
        return new
