""" Python 'undefined' Codec

    This codec will always raise a ValueError exception when being
    used. It is intended for use by the site.py file to switch off
    automatic string to Unicode coercion.

Written by Marc-Andre Lemburg (mal@lemburg.com).

(c) Copyright CNRI, All Rights Reserved. NO WARRANTY.

"""
import codecs

### Codec APIs

class Codec(codecs.Codec):

    def encode(self,input,errors='strict'):
        raise UnicodeError("undefined encoding")

    def decode(self,input,errors='strict'):
        raise UnicodeError("undefined encoding")

class IncrementalEncoder(codecs.IncrementalEncoder):
    def encode(self, input, final=False):
        raise UnicodeError("undefined encoding")

class IncrementalDecoder(codecs.IncrementalDecoder):
    def decode(self, input, final=False):
        raise UnicodeError("undefined encoding")

class StreamWriter(Codec,codecs.StreamWriter):
    pass

class StreamReader(Codec,codecs.StreamReader):
    pass

### encodings module API

def getregentry():
    return codecs.CodecInfo(
        name='undefined',
        encode=Codec().encode,
        decode=Codec().decode,
        incrementalencoder=IncrementalEncoder,
        incrementaldecoder=IncrementalDecoder,
        streamwriter=StreamWriter,
        streamreader=StreamReader,
    )
