import sys
from . import main

rc = 1
try:
    main()
    rc = 0
except Exception as e:
    print('Error: %s' % e, file=sys.stderr)
sys.exit(rc)
