"""Python 'hex_codec' Codec - 2-digit hex content transfer encoding.

This codec de/encodes from bytes to bytes.

Written by Marc-Andre Lemburg (mal@lemburg.com).
"""

import codecs
import binascii

### Codec APIs

def hex_encode(input, errors='strict'):
    assert errors == 'strict'
    return (binascii.b2a_hex(input), len(input))

def hex_decode(input, errors='strict'):
    assert errors == 'strict'
    return (binascii.a2b_hex(input), len(input))

class Codec(codecs.Codec):
    def encode(self, input, errors='strict'):
        return hex_encode(input, errors)
    def decode(self, input, errors='strict'):
        return hex_decode(input, errors)

class IncrementalEncoder(codecs.IncrementalEncoder):
    def encode(self, input, final=False):
        assert self.errors == 'strict'
        return binascii.b2a_hex(input)

class IncrementalDecoder(codecs.IncrementalDecoder):
    def decode(self, input, final=False):
        assert self.errors == 'strict'
        return binascii.a2b_hex(input)

class StreamWriter(Codec, codecs.StreamWriter):
    charbuffertype = bytes

class StreamReader(Codec, codecs.StreamReader):
    charbuffertype = bytes

### encodings module API

def getregentry():
    return codecs.CodecInfo(
        name='hex',
        encode=hex_encode,
        decode=hex_decode,
        incrementalencoder=IncrementalEncoder,
        incrementaldecoder=IncrementalDecoder,
        streamwriter=StreamWriter,
        streamreader=StreamReader,
        _is_text_encoding=False,
    )
