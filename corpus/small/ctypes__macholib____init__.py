"""
Enough Mach-O to make your head spin.

See the relevant header files in /usr/include/mach-o

And also Apple's documentation.
"""

__version__ = '1.0'
