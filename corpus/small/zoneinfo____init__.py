__all__ = [
    "ZoneInfo",
    "reset_tzpath",
    "available_timezones",
    "TZPATH",
    "ZoneInfoNotFoundError",
    "InvalidTZPathWarning",
]

from . import _tzpath
from ._common import ZoneInfoNotFoundError

try:
    from _zoneinfo import ZoneInfo
except ImportError:  # pragma: nocover
    from ._zoneinfo import ZoneInfo

reset_tzpath = _tzpath.reset_tzpath
available_timezones = _tzpath.available_timezones
InvalidTZPathWarning = _tzpath.InvalidTZPathWarning


def __getattr__(name):
    if name == "TZPATH":
        return _tzpath.TZPATH
    else:
        raise AttributeError(f"module {__name__!r} has no attribute {name!r}")


def __dir__():
    return sorted(list(globals()) + ["TZPATH"])
