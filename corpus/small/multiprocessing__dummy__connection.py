#
# Analogue of `multiprocessing.connection` which uses queues instead of sockets
#
# multiprocessing/dummy/connection.py
#
# Copyright (c) 2006-2008, R Oudkerk
# Licensed to PSF under a Contributor Agreement.
#

__all__ = [ 'Client', 'Listener', 'Pipe' ]

from queue import Queue


families = [None]


class Listener(object):

    def __init__(self, address=None, family=None, backlog=1):
        self._backlog_queue = Queue(backlog)

    def accept(self):
        return Connection(*self._backlog_queue.get())

    def close(self):
        self._backlog_queue = None

    @property
    def address(self):
        return self._backlog_queue

    def __enter__(self):
        return self

    def __exit__(self, exc_type, exc_value, exc_tb):
        self.close()


def Client(address):
    _in, _out = Queue(), Queue()
    address.put((_out, _in))
    return Connection(_in, _out)


def Pipe(duplex=True):
    a, b = Queue(), Queue()
    return Connection(a, b), Connection(b, a)


class Connection(object):

    def __init__(self, _in, _out):
        self._out = _out
        self._in = _in
        self.send = self.send_bytes = _out.put
        self.recv = self.recv_bytes = _in.get

    def poll(self, timeout=0.0):
        if self._in.qsize() > 0:
            return True
        if timeout <= 0.0:
            return False
        with self._in.not_empty:
            self._in.not_empty.wait(timeout)
        return self._in.qsize() > 0

    def close(self):
        pass

    def __enter__(self):
        return self

    def __exit__(self, exc_type, exc_value, exc_tb):
        self.close()
