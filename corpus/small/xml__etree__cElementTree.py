# Deprecated alias for xml.etree.ElementTree

from xml.etree.ElementTree import *
