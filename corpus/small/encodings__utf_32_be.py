"""
Python 'utf-32-be' Codec
"""
import codecs

### Codec APIs

encode = codecs.utf_32_be_encode

def decode(input, errors='strict'):
    return codecs.utf_32_be_decode(input, errors, True)

class IncrementalEncoder(codecs.IncrementalEncoder):
    def encode(self, input, final=False):
        return codecs.utf_32_be_encode(input, self.errors)[0]

class IncrementalDecoder(codecs.BufferedIncrementalDecoder):
    _buffer_decode = codecs.utf_32_be_decode

class StreamWriter(codecs.StreamWriter):
    encode = codecs.utf_32_be_encode

class StreamReader(codecs.StreamReader):
    decode = codecs.utf_32_be_decode

### encodings module API

def getregentry():
    return codecs.CodecInfo(
        name='utf-32-be',
        encode=encode,
        decode=decode,
        incrementalencoder=IncrementalEncoder,
        incrementaldecoder=IncrementalDecoder,
        streamreader=StreamReader,
        streamwriter=StreamWriter,
    )
