initialized = True

def main():
    print("Hello world!")

if __name__ == '__main__':
    main()
