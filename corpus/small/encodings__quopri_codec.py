"""Codec for quoted-printable encoding.

This codec de/encodes from bytes to bytes.
"""

import codecs
import quopri
from io import BytesIO

def quopri_encode(input, errors='strict'):
    assert errors == 'strict'
    f = BytesIO(input)
    g = BytesIO()
    quopri.encode(f, g, quotetabs=True)
    return (g.getvalue(), len(input))

def quopri_decode(input, errors='strict'):
    assert errors == 'strict'
    f = BytesIO(input)
    g = BytesIO()
    quopri.decode(f, g)
    return (g.getvalue(), len(input))

class Codec(codecs.Codec):
    def encode(self, input, errors='strict'):
        return quopri_encode(input, errors)
    def decode(self, input, errors='strict'):
        return quopri_decode(input, errors)

class IncrementalEncoder(codecs.IncrementalEncoder):
    def encode(self, input, final=False):
        return quopri_encode(input, self.errors)[0]

class IncrementalDecoder(codecs.IncrementalDecoder):
    def decode(self, input, final=False):
        return quopri_decode(input, self.errors)[0]

class StreamWriter(Codec, codecs.StreamWriter):
    charbuffertype = bytes

class StreamReader(Codec, codecs.StreamReader):
    charbuffertype = bytes

# encodings module API

def getregentry():
    return codecs.CodecInfo(
        name='quopri',
        encode=quopri_encode,
        decode=quopri_decode,
        incrementalencoder=IncrementalEncoder,
        incrementaldecoder=IncrementalDecoder,
        streamwriter=StreamWriter,
        streamreader=StreamReader,
        _is_text_encoding=False,
    )
