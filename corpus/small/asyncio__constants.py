import enum

# After the connection is lost, log warnings after this many write()s.
LOG_THRESHOLD_FOR_CONNLOST_WRITES = 5

# Seconds to wait before retrying accept().
ACCEPT_RETRY_DELAY = 1

# Number of stack entries to capture in debug mode.
# The larger the number, the slower the operation in debug mode
# (see extract_stack() in format_helpers.py).
DEBUG_STACK_DEPTH = 10

# Number of seconds to wait for SSL handshake to complete
# The default timeout matches that of Nginx.
SSL_HANDSHAKE_TIMEOUT = 60.0

# Number of seconds to wait for SSL shutdown to complete
# The default timeout mimics lingering_time
SSL_SHUTDOWN_TIMEOUT = 30.0

# Used in sendfile fallback code.  We use fallback for platforms
# that don't support sendfile, or for TLS connections.
SENDFILE_FALLBACK_READBUFFER_SIZE = 1024 * 256

FLOW_CONTROL_HIGH_WATER_SSL_READ = 256  # KiB
FLOW_CONTROL_HIGH_WATER_SSL_WRITE = 512  # KiB

# Default timeout for joining the threads in the threadpool
THREAD_JOIN_TIMEOUT = 300

# The enum should be here to break circular dependencies between
# base_events and sslproto
class _SendfileMode(enum.Enum):
    UNSUPPORTED = enum.auto()
    TRY_NATIVE = enum.auto()
    FALLBACK = enum.auto()
