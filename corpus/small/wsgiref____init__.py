"""wsgiref -- a WSGI (PEP 3333) Reference Library

Current Contents:

* util -- Miscellaneous useful functions and wrappers

* headers -- Manage response headers

* handlers -- base classes for server/gateway implementations

* simple_server -- a simple BaseHTTPServer that supports WSGI

* validate -- validation wrapper that sits between an app and a server
  to detect errors in either

* types -- collection of WSGI-related types for static type checking

To-Do:

* cgi_gateway -- Run WSGI apps under CGI (pending a deployment standard)

* cgi_wrapper -- Run CGI apps under WSGI

* router -- a simple middleware component that handles URL traversal
"""
