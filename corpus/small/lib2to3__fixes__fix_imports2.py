"""Fix incompatible imports and module references that must be fixed after
fix_imports."""
from . import fix_imports


MAPPING = {
            'whichdb': 'dbm',
            'anydbm': 'dbm',
          }


class FixImports2(fix_imports.FixImports):

    run_order = 7

    mapping = MAPPING
