"""High-level support for working with threads in asyncio"""

import functools
import contextvars

from . import events


__all__ = "to_thread",


async def to_thread(func, /, *args, **kwargs):
    """Asynchronously run function *func* in a separate thread.

    Any *args and **kwargs supplied for this function are directly passed
    to *func*. Also, the current :class:`contextvars.Context` is propagated,
    allowing context variables from the main thread to be accessed in the
    separate thread.

    Return a coroutine that can be awaited to get the eventual result of *func*.
    """
    loop = events.get_running_loop()
    ctx = contextvars.copy_context()
    func_call = functools.partial(ctx.run, func, *args, **kwargs)
    return await loop.run_in_executor(None, func_call)
