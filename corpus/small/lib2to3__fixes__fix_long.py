# Copyright 2006 Google, Inc. All Rights Reserved.
# Licensed to PSF under a Contributor Agreement.

"""Fixer that turns 'long' into 'int' everywhere.
"""

# Local imports
from lib2to3 import fixer_base
from lib2to3.fixer_util import is_probably_builtin


class FixLong(fixer_base.BaseFix):
    BM_compatible = True
    PATTERN = "'long'"

    def transform(self, node, results):
        if is_probably_builtin(node):
            node.value = "int"
            node.changed()
