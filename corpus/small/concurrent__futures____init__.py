# Copyright 2009 Brian Quinlan. All Rights Reserved.
# Licensed to PSF under a Contributor Agreement.

"""Execute computations asynchronously using threads or processes."""

__author__ = 'Brian Quinlan (brian@sweetapp.com)'

from concurrent.futures._base import (FIRST_COMPLETED,
                                      FIRST_EXCEPTION,
                                      ALL_COMPLETED,
                                      CancelledError,
                                      TimeoutError,
                                      InvalidStateError,
                                      BrokenExecutor,
                                      Future,
                                      Executor,
                                      wait,
                                      as_completed)

__all__ = (
    'FIRST_COMPLETED',
    'FIRST_EXCEPTION',
    'ALL_COMPLETED',
    'CancelledError',
    'TimeoutError',
    'BrokenExecutor',
    'Future',
    'Executor',
    'wait',
    'as_completed',
    'ProcessPoolExecutor',
    'ThreadPoolExecutor',
)


def __dir__():
    return __all__ + ('__author__', '__doc__')


def __getattr__(name):
    global ProcessPoolExecutor, ThreadPoolExecutor

    if name == 'ProcessPoolExecutor':
        from .process import ProcessPoolExecutor as pe
        ProcessPoolExecutor = pe
        return pe

    if name == 'ThreadPoolExecutor':
        from .thread import ThreadPoolExecutor as te
        ThreadPoolExecutor = te
        return te

    raise AttributeError(f"module {__name__!r} has no attribute {name!r}")
