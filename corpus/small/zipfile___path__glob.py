import re


def translate(pattern):
    r"""
    Given a glob pattern, produce a regex that matches it.

    >>> translate('*.txt')
    '[^/]*\\.txt'
    >>> translate('a?txt')
    'a.txt'
    >>> translate('**/*')
    '.*/[^/]*'
    """
    return ''.join(map(replace, separate(pattern)))


def separate(pattern):
    """
    Separate out character sets to avoid translating their contents.

    >>> [m.group(0) for m in separate('*.txt')]
    ['*.txt']
    >>> [m.group(0) for m in separate('a[?]txt')]
    ['a', '[?]', 'txt']
    """
    return re.finditer(r'([^\[]+)|(?P<set>[\[].*?[\]])|([\[][^\]]*$)', pattern)


def replace(match):
    """
    Perform the replacements for a match from :func:`separate`.
    """

    return match.group('set') or (
        re.escape(match.group(0))
        .replace('\\*\\*', r'.*')
        .replace('\\*', r'[^/]*')
        .replace('\\?', r'.')
    )
