from . import main

if __name__ == "__main__":
    main()
