# Copyright (C) 2002-2006 Python Software Foundation
# Author: Barry Warsaw
# Contact: email-sig@python.org

"""Base class for MIME multipart/* type messages."""

__all__ = ['MIMEMultipart']

from email.mime.base import MIMEBase


class MIMEMultipart(MIMEBase):
    """Base class for MIME multipart/* type messages."""

    def __init__(self, _subtype='mixed', boundary=None, _subparts=None,
                 *, policy=None,
                 **_params):
        """Creates a multipart/* type message.

        By default, creates a multipart/mixed message, with proper
        Content-Type and MIME-Version headers.

        _subtype is the subtype of the multipart content type, defaulting to
        `mixed'.

        boundary is the multipart boundary string.  By default it is
        calculated as needed.

        _subparts is a sequence of initial subparts for the payload.  It
        must be an iterable object, such as a list.  You can always
        attach new subparts to the message by using the attach() method.

        Additional parameters for the Content-Type header are taken from the
        keyword arguments (or passed into the _params argument).
        """
        MIMEBase.__init__(self, 'multipart', _subtype, policy=policy, **_params)

        # Initialise _payload to an empty list as the Message superclass's
        # implementation of is_multipart assumes that _payload is a list for
        # multipart messages.
        self._payload = []

        if _subparts:
            for p in _subparts:
                self.attach(p)
        if boundary:
            self.set_boundary(boundary)
