from _contextvars import Context, ContextVar, Token, copy_context


__all__ = ('Context', 'ContextVar', 'Token', 'copy_context')
