"""A ScrolledText widget feels like a text widget but also has a
vertical scroll bar on its right.  (Later, options may be added to
add a horizontal bar as well, to make the bars disappear
automatically when not needed, to move them to the other side of the
window, etc.)

Configuration options are passed to the Text widget.
A Frame widget is inserted between the master and the text, to hold
the Scrollbar widget.
Most methods calls are inherited from the Text widget; Pack, Grid and
Place methods are redirected to the Frame widget however.
"""

from tkinter import Frame, Text, Scrollbar, Pack, Grid, Place
from tkinter.constants import RIGHT, LEFT, Y, BOTH

__all__ = ['ScrolledText']


class ScrolledText(Text):
    def __init__(self, master=None, **kw):
        self.frame = Frame(master)
        self.vbar = Scrollbar(self.frame)
        self.vbar.pack(side=RIGHT, fill=Y)

        kw.update({'yscrollcommand': self.vbar.set})
        Text.__init__(self, self.frame, **kw)
        self.pack(side=LEFT, fill=BOTH, expand=True)
        self.vbar['command'] = self.yview

        # Copy geometry methods of self.frame without overriding Text
        # methods -- hack!
        text_meths = vars(Text).keys()
        methods = vars(Pack).keys() | vars(Grid).keys() | vars(Place).keys()
        methods = methods.difference(text_meths)

        for m in methods:
            if m[0] != '_' and m != 'config' and m != 'configure':
                setattr(self, m, getattr(self.frame, m))

    def __str__(self):
        return str(self.frame)


def example():
    from tkinter.constants import END

    stext = ScrolledText(bg='white', height=10)
    stext.insert(END, __doc__)
    stext.pack(fill=BOTH, side=LEFT, expand=True)
    stext.focus_set()
    stext.mainloop()


if __name__ == "__main__":
    example()
