"""asyncio exceptions."""


__all__ = ('BrokenBarrierError',
           'CancelledError', 'InvalidStateError', 'TimeoutError',
           'IncompleteReadError', 'LimitOverrunError',
           'SendfileNotAvailableError')


class CancelledError(BaseException):
    """The Future or Task was cancelled."""


TimeoutError = TimeoutError  # make local alias for the standard exception


class InvalidStateError(Exception):
    """The operation is not allowed in this state."""


class SendfileNotAvailableError(RuntimeError):
    """Sendfile syscall is not available.

    Raised if OS does not support sendfile syscall for given socket or
    file type.
    """


class IncompleteReadError(EOFError):
    """
    Incomplete read error. Attributes:

    - partial: read bytes string before the end of stream was reached
    - expected: total number of expected bytes (or None if unknown)
    """
    def __init__(self, partial, expected):
        r_expected = 'undefined' if expected is None else repr(expected)
        super().__init__(f'{len(partial)} bytes read on a total of '
                         f'{r_expected} expected bytes')
        self.partial = partial
        self.expected = expected

    def __reduce__(self):
        return type(self), (self.partial, self.expected)


class LimitOverrunError(Exception):
    """Reached the buffer limit while looking for a separator.

    Attributes:
    - consumed: total number of to be consumed bytes.
    """
    def __init__(self, message, consumed):
        super().__init__(message)
        self.consumed = consumed

    def __reduce__(self):
        return type(self), (self.args[0], self.consumed)


class BrokenBarrierError(RuntimeError):
    """Barrier is broken by barrier.abort() call."""
