# $Id: __init__.py 3375 2008-02-13 08:05:08Z fredrik $
# elementtree package

# --------------------------------------------------------------------
# The ElementTree toolkit is
#
# Copyright (c) 1999-2008 by Fredrik Lundh
#
# By obtaining, using, and/or copying this software and/or its
# associated documentation, you agree that you have read, understood,
# and will comply with the following terms and conditions:
#
# Permission to use, copy, modify, and distribute this software and
# its associated documentation for any purpose and without fee is
# hereby granted, provided that the above copyright notice appears in
# all copies, and that both that copyright notice and this permission
# notice appear in supporting documentation, and that the name of
# Secret Labs AB or the author not be used in advertising or publicity
# pertaining to distribution of the software without specific, written
# prior permission.
#
# SECRET LABS AB AND THE AUTHOR DISCLAIMS ALL WARRANTIES WITH REGARD
# TO THIS SOFTWARE, INCLUDING ALL IMPLIED WARRANTIES OF MERCHANT-
# ABILITY AND FITNESS.  IN NO EVENT SHALL SECRET LABS AB OR THE AUTHOR
# BE LIABLE FOR ANY SPECIAL, INDIRECT OR CONSEQUENTIAL DAMAGES OR ANY
# DAMAGES WHATSOEVER RESULTING FROM LOSS OF USE, DATA OR PROFITS,
# WHETHER IN AN ACTION OF CONTRACT, NEGLIGENCE OR OTHER TORTIOUS
# ACTION, ARISING OUT OF OR IN CONNECTION WITH THE USE OR PERFORMANCE
# OF THIS SOFTWARE.
# --------------------------------------------------------------------

# Licensed to PSF under a Contributor Agreement.
# See https://www.python.org/psf/license for licensing details.
