# Copyright (C) 2001-2006 Python Software Foundation
# Author: Barry Warsaw
# Contact: email-sig@python.org

"""Encodings and related functions."""

__all__ = [
    'encode_7or8bit',
    'encode_base64',
    'encode_noop',
    'encode_quopri',
    ]


from base64 import encodebytes as _bencode
from quopri import encodestring as _encodestring


def _qencode(s):
    enc = _encodestring(s, quotetabs=True)
    # Must encode spaces, which quopri.encodestring() doesn't do
    return enc.replace(b' ', b'=20')


def encode_base64(msg):
    """Encode the message's payload in Base64.

    Also, add an appropriate Content-Transfer-Encoding header.
    """
    orig = msg.get_payload(decode=True)
    encdata = str(_bencode(orig), 'ascii')
    msg.set_payload(encdata)
    msg['Content-Transfer-Encoding'] = 'base64'


def encode_quopri(msg):
    """Encode the message's payload in quoted-printable.

    Also, add an appropriate Content-Transfer-Encoding header.
    """
    orig = msg.get_payload(decode=True)
    encdata = _qencode(orig)
    msg.set_payload(encdata)
    msg['Content-Transfer-Encoding'] = 'quoted-printable'


def encode_7or8bit(msg):
    """Set the Content-Transfer-Encoding header to 7bit or 8bit."""
    orig = msg.get_payload(decode=True)
    if orig is None:
        # There's no payload.  For backwards compatibility we use 7bit
        msg['Content-Transfer-Encoding'] = '7bit'
        return
    # We play a trick to make this go fast.  If decoding from ASCII succeeds,
    # we know the data must be 7bit, otherwise treat it as 8bit.
    try:
        orig.decode('ascii')
    except UnicodeError:
        msg['Content-Transfer-Encoding'] = '8bit'
    else:
        msg['Content-Transfer-Encoding'] = '7bit'


def encode_noop(msg):
    """Do nothing."""
