"""Fixer for generator.throw(E, V, T).

g.throw(E)       -> g.throw(E)
g.throw(E, V)    -> g.throw(E(V))
g.throw(E, V, T) -> g.throw(E(V).with_traceback(T))

g.throw("foo"[, V[, T]]) will warn about string exceptions."""
# Author: Collin Winter

# Local imports
from .. import pytree
from ..pgen2 import token
from .. import fixer_base
from ..fixer_util import Name, Call, ArgList, Attr, is_tuple

class FixThrow(fixer_base.BaseFix):
    BM_compatible = True
    PATTERN = """
    power< any trailer< '.' 'throw' >
           trailer< '(' args=arglist< exc=any ',' val=any [',' tb=any] > ')' >
    >
    |
    power< any trailer< '.' 'throw' > trailer< '(' exc=any ')' > >
    """

    def transform(self, node, results):
        syms = self.syms

        exc = results["exc"].clone()
        if exc.type is token.STRING:
            self.cannot_convert(node, "Python 3 does not support string exceptions")
            return

        # Leave "g.throw(E)" alone
        val = results.get("val")
        if val is None:
            return

        val = val.clone()
        if is_tuple(val):
            args = [c.clone() for c in val.children[1:-1]]
        else:
            val.prefix = ""
            args = [val]

        throw_args = results["args"]

        if "tb" in results:
            tb = results["tb"].clone()
            tb.prefix = ""

            e = Call(exc, args)
            with_tb = Attr(e, Name('with_traceback')) + [ArgList([tb])]
            throw_args.replace(pytree.Node(syms.power, with_tb))
        else:
            throw_args.replace(Call(exc, args))
