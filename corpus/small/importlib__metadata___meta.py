from typing import Protocol
from typing import Any, Dict, Iterator, List, Optional, TypeVar, Union, overload


_T = TypeVar("_T")


class PackageMetadata(Protocol):
    def __len__(self) -> int:
        ...  # pragma: no cover

    def __contains__(self, item: str) -> bool:
        ...  # pragma: no cover

    def __getitem__(self, key: str) -> str:
        ...  # pragma: no cover

    def __iter__(self) -> Iterator[str]:
        ...  # pragma: no cover

    @overload
    def get(self, name: str, failobj: None = None) -> Optional[str]:
        ...  # pragma: no cover

    @overload
    def get(self, name: str, failobj: _T) -> Union[str, _T]:
        ...  # pragma: no cover

    # overload per python/importlib_metadata#435
    @overload
    def get_all(self, name: str, failobj: None = None) -> Optional[List[Any]]:
        ...  # pragma: no cover

    @overload
    def get_all(self, name: str, failobj: _T) -> Union[List[Any], _T]:
        """
        Return all values associated with a possibly multi-valued key.
        """

    @property
    def json(self) -> Dict[str, Union[str, List[str]]]:
        """
        A JSON-compatible form of the metadata.
        """


class SimplePath(Protocol[_T]):
    """
    A minimal subset of pathlib.Path required by PathDistribution.
    """

    def joinpath(self) -> _T:
        ...  # pragma: no cover

    def __truediv__(self, other: Union[str, _T]) -> _T:
        ...  # pragma: no cover

    @property
    def parent(self) -> _T:
        ...  # pragma: no cover

    def read_text(self) -> str:
        ...  # pragma: no cover
