"""Logging configuration."""

import logging


# Name the logger after the package.
logger = logging.getLogger(__package__)
