"""Read resources contained within a package."""

from ._common import (
    as_file,
    files,
    Package,
)

from ._legacy import (
    contents,
    open_binary,
    read_binary,
    open_text,
    read_text,
    is_resource,
    path,
    Resource,
)

from .abc import ResourceReader


__all__ = [
    'Package',
    'Resource',
    'ResourceReader',
    'as_file',
    'contents',
    'files',
    'is_resource',
    'open_binary',
    'open_text',
    'path',
    'read_binary',
    'read_text',
]
