# Copyright 2007 Google, Inc. All Rights Reserved.
# Licensed to PSF under a Contributor Agreement.

"""Fixer for StandardError -> Exception."""

# Local imports
from .. import fixer_base
from ..fixer_util import Name


class FixStandarderror(fixer_base.BaseFix):
    BM_compatible = True
    PATTERN = """
              'StandardError'
              """

    def transform(self, node, results):
        return Name("Exception", prefix=node.prefix)
