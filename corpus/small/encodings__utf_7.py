""" Python 'utf-7' Codec

Written by Brian Quinlan (brian@sweetapp.com).
"""
import codecs

### Codec APIs

encode = codecs.utf_7_encode

def decode(input, errors='strict'):
    return codecs.utf_7_decode(input, errors, True)

class IncrementalEncoder(codecs.IncrementalEncoder):
    def encode(self, input, final=False):
        return codecs.utf_7_encode(input, self.errors)[0]

class IncrementalDecoder(codecs.BufferedIncrementalDecoder):
    _buffer_decode = codecs.utf_7_decode

class StreamWriter(codecs.StreamWriter):
    encode = codecs.utf_7_encode

class StreamReader(codecs.StreamReader):
    decode = codecs.utf_7_decode

### encodings module API

def getregentry():
    return codecs.CodecInfo(
        name='utf-7',
        encode=encode,
        decode=decode,
        incrementalencoder=IncrementalEncoder,
        incrementaldecoder=IncrementalDecoder,
        streamreader=StreamReader,
        streamwriter=StreamWriter,
    )
