"""
Optional fixer to transform set() calls to set literals.
"""

# Author: Benjamin Peterson

from lib2to3 import fixer_base, pytree
from lib2to3.fixer_util import token, syms



class FixSetLiteral(fixer_base.BaseFix):

    BM_compatible = True
    explicit = True

    PATTERN = """power< 'set' trailer< '('
                     (atom=atom< '[' (items=listmaker< any ((',' any)* [',']) >
                                |
                                single=any) ']' >
                     |
                     atom< '(' items=testlist_gexp< any ((',' any)* [',']) > ')' >
                     )
                     ')' > >
              """

    def transform(self, node, results):
        single = results.get("single")
        if single:
            # Make a fake listmaker
            fake = pytree.Node(syms.listmaker, [single.clone()])
            single.replace(fake)
            items = fake
        else:
            items = results["items"]

        # Build the contents of the literal
        literal = [pytree.Leaf(token.LBRACE, "{")]
        literal.extend(n.clone() for n in items.children)
        literal.append(pytree.Leaf(token.RBRACE, "}"))
        # Set the prefix of the right brace to that of the ')' or ']'
        literal[-1].prefix = items.next_sibling.prefix
        maker = pytree.Node(syms.dictsetmaker, literal)
        maker.prefix = node.prefix

        # If the original was a one tuple, we need to remove the extra comma.
        if len(maker.children) == 4:
            n = maker.children[2]
            n.remove()
            maker.children[-1].prefix = n.prefix

        # Finally, replace the set call with our shiny new literal.
        return maker
