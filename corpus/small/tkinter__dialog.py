# dialog.py -- Tkinter interface to the tk_dialog script.

from tkinter import _cnfmerge, Widget, TclError, Button, Pack

__all__ = ["Dialog"]

DIALOG_ICON = 'questhead'


class Dialog(Widget):
    def __init__(self, master=None, cnf={}, **kw):
        cnf = _cnfmerge((cnf, kw))
        self.widgetName = '__dialog__'
        self._setup(master, cnf)
        self.num = self.tk.getint(
                self.tk.call(
                      'tk_dialog', self._w,
                      cnf['title'], cnf['text'],
                      cnf['bitmap'], cnf['default'],
                      *cnf['strings']))
        try: Widget.destroy(self)
        except TclError: pass

    def destroy(self): pass


def _test():
    d = Dialog(None, {'title': 'File Modified',
                      'text':
                      'File "Python.h" has been modified'
                      ' since the last time it was saved.'
                      ' Do you want to save it before'
                      ' exiting the application.',
                      'bitmap': DIALOG_ICON,
                      'default': 0,
                      'strings': ('Save File',
                                  'Discard Changes',
                                  'Return to Editor')})
    print(d.num)


if __name__ == '__main__':
    t = Button(None, {'text': 'Test',
                      'command': _test,
                      Pack: {}})
    q = Button(None, {'text': 'Quit',
                      'command': t.quit,
                      Pack: {}})
    t.mainloop()
