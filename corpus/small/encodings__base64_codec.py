"""Python 'base64_codec' Codec - base64 content transfer encoding.

This codec de/encodes from bytes to bytes.

Written by Marc-Andre Lemburg (mal@lemburg.com).
"""

import codecs
import base64

### Codec APIs

def base64_encode(input, errors='strict'):
    assert errors == 'strict'
    return (base64.encodebytes(input), len(input))

def base64_decode(input, errors='strict'):
    assert errors == 'strict'
    return (base64.decodebytes(input), len(input))

class Codec(codecs.Codec):
    def encode(self, input, errors='strict'):
        return base64_encode(input, errors)
    def decode(self, input, errors='strict'):
        return base64_decode(input, errors)

class IncrementalEncoder(codecs.IncrementalEncoder):
    def encode(self, input, final=False):
        assert self.errors == 'strict'
        return base64.encodebytes(input)

class IncrementalDecoder(codecs.IncrementalDecoder):
    def decode(self, input, final=False):
        assert self.errors == 'strict'
        return base64.decodebytes(input)

class StreamWriter(Codec, codecs.StreamWriter):
    charbuffertype = bytes

class StreamReader(Codec, codecs.StreamReader):
    charbuffertype = bytes

### encodings module API

def getregentry():
    return codecs.CodecInfo(
        name='base64',
        encode=base64_encode,
        decode=base64_decode,
        incrementalencoder=IncrementalEncoder,
        incrementaldecoder=IncrementalDecoder,
        streamwriter=StreamWriter,
        streamreader=StreamReader,
        _is_text_encoding=False,
    )
