# Copyright 2006 Google, Inc. All Rights Reserved.
# Licensed to PSF under a Contributor Agreement.

"""Fixer that turns <> into !=."""

# Local imports
from .. import pytree
from ..pgen2 import token
from .. import fixer_base


class FixNe(fixer_base.BaseFix):
    # This is so simple that we don't need the pattern compiler.

    _accept_type = token.NOTEQUAL

    def match(self, node):
        # Override
        return node.value == "<>"

    def transform(self, node, results):
        new = pytree.Leaf(token.NOTEQUAL, "!=", prefix=node.prefix)
        return new
