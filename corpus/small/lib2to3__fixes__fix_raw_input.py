"""Fixer that changes raw_input(...) into input(...)."""
# Author: Andre Roberge

# Local imports
from .. import fixer_base
from ..fixer_util import Name

class FixRawInput(fixer_base.BaseFix):

    BM_compatible = True
    PATTERN = """
              power< name='raw_input' trailer< '(' [any] ')' > any* >
              """

    def transform(self, node, results):
        name = results["name"]
        name.replace(Name("input", prefix=name.prefix))
