"""The machinery of importlib: finders, loaders, hooks, etc."""

from ._bootstrap import ModuleSpec
from ._bootstrap import BuiltinImporter
from ._bootstrap import FrozenImporter
from ._bootstrap_external import (SOURCE_SUFFIXES, DEBUG_BYTECODE_SUFFIXES,
                     OPTIMIZED_BYTECODE_SUFFIXES, BYTECODE_SUFFIXES,
                     EXTENSION_SUFFIXES)
from ._bootstrap_external import WindowsRegistryFinder
from ._bootstrap_external import PathFinder
from ._bootstrap_external import FileFinder
from ._bootstrap_external import SourceFileLoader
from ._bootstrap_external import SourcelessFileLoader
from ._bootstrap_external import ExtensionFileLoader
from ._bootstrap_external import NamespaceLoader


def all_suffixes():
    """Returns a list of all recognized module suffixes for this process"""
    return SOURCE_SUFFIXES + BYTECODE_SUFFIXES + EXTENSION_SUFFIXES
