import warnings
warnings.warn(f"module {__name__!r} is deprecated",
              DeprecationWarning,
              stacklevel=2)

from re import _compiler as _
globals().update({k: v for k, v in vars(_).items() if k[:2] != '__'})
