"""Fix bound method attributes (method.im_? -> method.__?__).
"""
# Author: Christian Heimes

# Local imports
from .. import fixer_base
from ..fixer_util import Name

MAP = {
    "im_func" : "__func__",
    "im_self" : "__self__",
    "im_class" : "__self__.__class__"
    }

class FixMethodattrs(fixer_base.BaseFix):
    BM_compatible = True
    PATTERN = """
    power< any+ trailer< '.' attr=('im_func' | 'im_self' | 'im_class') > any* >
    """

    def transform(self, node, results):
        attr = results["attr"][0]
        new = MAP[attr.value]
        attr.replace(Name(new, prefix=attr.prefix))
