"""curses.panel

Module for using panels with curses.
"""

from _curses_panel import *
