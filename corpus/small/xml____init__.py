"""Core XML support for Python.

This package contains four sub-packages:

dom -- The W3C Document Object Model.  This supports DOM Level 1 +
       Namespaces.

parsers -- Python wrappers for XML parsers (currently only supports Expat).

sax -- The Simple API for XML, developed by XML-Dev, led by David
       Megginson and ported to Python by Lars Marius Garshol.  This
       supports the SAX 2 API.

etree -- The ElementTree XML library.  This is a subset of the full
       ElementTree XML release.

"""


__all__ = ["dom", "parsers", "sax", "etree"]
