"""Fix function attribute names (f.func_x -> f.__x__)."""
# Author: Collin Winter

# Local imports
from .. import fixer_base
from ..fixer_util import Name


class FixFuncattrs(fixer_base.BaseFix):
    BM_compatible = True

    PATTERN = """
    power< any+ trailer< '.' attr=('func_closure' | 'func_doc' | 'func_globals'
                                  | 'func_name' | 'func_defaults' | 'func_code'
                                  | 'func_dict') > any* >
    """

    def transform(self, node, results):
        attr = results["attr"][0]
        attr.replace(Name(("__%s__" % attr.value[5:]),
                          prefix=attr.prefix))
