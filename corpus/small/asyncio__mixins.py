"""Event loop mixins."""

import threading
from . import events

_global_lock = threading.Lock()


class _LoopBoundMixin:
    _loop = None

    def _get_loop(self):
        loop = events._get_running_loop()

        if self._loop is None:
            with _global_lock:
                if self._loop is None:
                    self._loop = loop
        if loop is not self._loop:
            raise RuntimeError(f'{self!r} is bound to a different event loop')
        return loop
