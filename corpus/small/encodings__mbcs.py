""" Python 'mbcs' Codec for Windows


Cloned by Mark Hammond (mhammond@skippinet.com.au) from ascii.py,
which was written by Marc-Andre Lemburg (mal@lemburg.com).

(c) Copyright CNRI, All Rights Reserved. NO WARRANTY.

"""
# Import them explicitly to cause an ImportError
# on non-Windows systems
from codecs import mbcs_encode, mbcs_decode
# for IncrementalDecoder, IncrementalEncoder, ...
import codecs

### Codec APIs

encode = mbcs_encode

def decode(input, errors='strict'):
    return mbcs_decode(input, errors, True)

class IncrementalEncoder(codecs.IncrementalEncoder):
    def encode(self, input, final=False):
        return mbcs_encode(input, self.errors)[0]

class IncrementalDecoder(codecs.BufferedIncrementalDecoder):
    _buffer_decode = mbcs_decode

class StreamWriter(codecs.StreamWriter):
    encode = mbcs_encode

class StreamReader(codecs.StreamReader):
    decode = mbcs_decode

### encodings module API

def getregentry():
    return codecs.CodecInfo(
        name='mbcs',
        encode=encode,
        decode=decode,
        incrementalencoder=IncrementalEncoder,
        incrementaldecoder=IncrementalDecoder,
        streamreader=StreamReader,
        streamwriter=StreamWriter,
    )
