import collections


# from jaraco.collections 3.3
class FreezableDefaultDict(collections.defaultdict):
    """
    Often it is desirable to prevent the mutation of
    a default dict after its initial construction, such
    as to prevent mutation during iteration.

    >>> dd = FreezableDefaultDict(list)
    >>> dd[0].append('1')
    >>> dd.freeze()
    >>> dd[1]
    []
    >>> len(dd)
    1
    """

    def __missing__(self, key):
        return getattr(self, '_frozen', super().__missing__)(key)

    def freeze(self):
        self._frozen = lambda key: self.default_factory()


class Pair(collections.namedtuple('Pair', 'name value')):
    @classmethod
    def parse(cls, text):
        return cls(*map(str.strip, text.split("=", 1)))
