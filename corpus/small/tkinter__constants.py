# Symbolic constants for Tk

# Booleans
NO=FALSE=OFF=0
YES=TRUE=ON=1

# -anchor and -sticky
N='n'
S='s'
W='w'
E='e'
NW='nw'
SW='sw'
NE='ne'
SE='se'
NS='ns'
EW='ew'
NSEW='nsew'
CENTER='center'

# -fill
NONE='none'
X='x'
Y='y'
BOTH='both'

# -side
LEFT='left'
TOP='top'
RIGHT='right'
BOTTOM='bottom'

# -relief
RAISED='raised'
SUNKEN='sunken'
FLAT='flat'
RIDGE='ridge'
GROOVE='groove'
SOLID = 'solid'

# -orient
HORIZONTAL='horizontal'
VERTICAL='vertical'

# -tabs
NUMERIC='numeric'

# -wrap
CHAR='char'
WORD='word'

# -align
BASELINE='baseline'

# -bordermode
INSIDE='inside'
OUTSIDE='outside'

# Special tags, marks and insert positions
SEL='sel'
SEL_FIRST='sel.first'
SEL_LAST='sel.last'
END='end'
INSERT='insert'
CURRENT='current'
ANCHOR='anchor'
ALL='all' # e.g. Canvas.delete(ALL)

# Text widget and button states
NORMAL='normal'
DISABLED='disabled'
ACTIVE='active'
# Canvas state
HIDDEN='hidden'

# Menu item types
CASCADE='cascade'
CHECKBUTTON='checkbutton'
COMMAND='command'
RADIOBUTTON='radiobutton'
SEPARATOR='separator'

# Selection modes for list boxes
SINGLE='single'
BROWSE='browse'
MULTIPLE='multiple'
EXTENDED='extended'

# Activestyle for list boxes
# NONE='none' is also valid
DOTBOX='dotbox'
UNDERLINE='underline'

# Various canvas styles
PIESLICE='pieslice'
CHORD='chord'
ARC='arc'
FIRST='first'
LAST='last'
BUTT='butt'
PROJECTING='projecting'
ROUND='round'
BEVEL='bevel'
MITER='miter'

# Arguments to xview/yview
MOVETO='moveto'
SCROLL='scroll'
UNITS='units'
PAGES='pages'
