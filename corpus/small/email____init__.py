# Copyright (C) 2001-2007 Python Software Foundation
# Author: Barry Warsaw
# Contact: email-sig@python.org

"""A package for parsing, handling, and generating email messages."""

__all__ = [
    'base64mime',
    'charset',
    'encoders',
    'errors',
    'feedparser',
    'generator',
    'header',
    'iterators',
    'message',
    'message_from_file',
    'message_from_binary_file',
    'message_from_string',
    'message_from_bytes',
    'mime',
    'parser',
    'quoprimime',
    'utils',
    ]


# Some convenience routines.  Don't import Parser and Message as side-effects
# of importing email since those cascadingly import most of the rest of the
# email package.
def message_from_string(s, *args, **kws):
    """Parse a string into a Message object model.

    Optional _class and strict are passed to the Parser constructor.
    """
    from email.parser import Parser
    return Parser(*args, **kws).parsestr(s)

def message_from_bytes(s, *args, **kws):
    """Parse a bytes string into a Message object model.

    Optional _class and strict are passed to the Parser constructor.
    """
    from email.parser import BytesParser
    return BytesParser(*args, **kws).parsebytes(s)

def message_from_file(fp, *args, **kws):
    """Read a file and parse its contents into a Message object model.

    Optional _class and strict are passed to the Parser constructor.
    """
    from email.parser import Parser
    return Parser(*args, **kws).parse(fp)

def message_from_binary_file(fp, *args, **kws):
    """Read a binary file and parse its contents into a Message object model.

    Optional _class and strict are passed to the Parser constructor.
    """
    from email.parser import BytesParser
    return BytesParser(*args, **kws).parse(fp)
