"""Fixer that replaces deprecated unittest method names."""

# Author: Ezio Melotti

from ..fixer_base import BaseFix
from ..fixer_util import Name

NAMES = dict(
    assert_="assertTrue",
    assertEquals="assertEqual",
    assertNotEquals="assertNotEqual",
    assertAlmostEquals="assertAlmostEqual",
    assertNotAlmostEquals="assertNotAlmostEqual",
    assertRegexpMatches="assertRegex",
    assertRaisesRegexp="assertRaisesRegex",
    failUnlessEqual="assertEqual",
    failIfEqual="assertNotEqual",
    failUnlessAlmostEqual="assertAlmostEqual",
    failIfAlmostEqual="assertNotAlmostEqual",
    failUnless="assertTrue",
    failUnlessRaises="assertRaises",
    failIf="assertFalse",
)


class FixAsserts(BaseFix):

    PATTERN = """
              power< any+ trailer< '.' meth=(%s)> any* >
              """ % '|'.join(map(repr, NAMES))

    def transform(self, node, results):
        name = results["meth"][0]
        name.replace(Name(NAMES[str(name)], prefix=name.prefix))
