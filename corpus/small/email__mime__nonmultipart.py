# Copyright (C) 2002-2006 Python Software Foundation
# Author: Barry Warsaw
# Contact: email-sig@python.org

"""Base class for MIME type messages that are not multipart."""

__all__ = ['MIMENonMultipart']

from email import errors
from email.mime.base import MIMEBase


class MIMENonMultipart(MIMEBase):
    """Base class for MIME non-multipart type messages."""

    def attach(self, payload):
        # The public API prohibits attaching multiple subparts to MIMEBase
        # derived subtypes since none of them are, by definition, of content
        # type multipart/*
        raise errors.MultipartConversionError(
            'Cannot attach additional subparts to non-multipart/*')
