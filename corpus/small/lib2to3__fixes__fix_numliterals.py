"""Fixer that turns 1L into 1, 0755 into 0o755.
"""
# Copyright 2007 Georg Brandl.
# Licensed to PSF under a Contributor Agreement.

# Local imports
from ..pgen2 import token
from .. import fixer_base
from ..fixer_util import Number


class FixNumliterals(fixer_base.BaseFix):
    # This is so simple that we don't need the pattern compiler.

    _accept_type = token.NUMBER

    def match(self, node):
        # Override
        return (node.value.startswith("0") or node.value[-1] in "Ll")

    def transform(self, node, results):
        val = node.value
        if val[-1] in 'Ll':
            val = val[:-1]
        elif val.startswith('0') and val.isdigit() and len(set(val)) > 1:
            val = "0o" + val[1:]

        return Number(val, prefix=node.prefix)
