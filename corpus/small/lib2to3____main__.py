import sys
from .main import main

sys.exit(main("lib2to3.fixes"))
