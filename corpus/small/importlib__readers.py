"""
Compatibility shim for .resources.readers as found on Python 3.10.

Consumers that can rely on Python 3.11 should use the other
module directly.
"""

from .resources.readers import (
    FileReader, ZipReader, MultiplexedPath, NamespaceReader,
)

__all__ = ['FileReader', 'ZipReader', 'MultiplexedPath', 'NamespaceReader']
