"""
Generic framework path manipulation
"""

import re

__all__ = ['framework_info']

STRICT_FRAMEWORK_RE = re.compile(r"""(?x)
(?P<location>^.*)(?:^|/)
(?P<name>
    (?P<shortname>\w+).framework/
    (?:Versions/(?P<version>[^/]+)/)?
    (?P=shortname)
    (?:_(?P<suffix>[^_]+))?
)$
""")

def framework_info(filename):
    """
    A framework name can take one of the following four forms:
        Location/Name.framework/Versions/SomeVersion/Name_Suffix
        Location/Name.framework/Versions/SomeVersion/Name
        Location/Name.framework/Name_Suffix
        Location/Name.framework/Name

    returns None if not found, or a mapping equivalent to:
        dict(
            location='Location',
            name='Name.framework/Versions/SomeVersion/Name_Suffix',
            shortname='Name',
            version='SomeVersion',
            suffix='Suffix',
        )

    Note that SomeVersion and Suffix are optional and may be None
    if not present
    """
    is_framework = STRICT_FRAMEWORK_RE.match(filename)
    if not is_framework:
        return None
    return is_framework.groupdict()
