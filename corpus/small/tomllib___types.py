# SPDX-License-Identifier: MIT
# SPDX-FileCopyrightText: 2021 Taneli Hukkinen
# Licensed to PSF under a Contributor Agreement.

from typing import Any, Callable, Tuple

# Type annotations
ParseFloat = Callable[[str], Any]
Key = Tuple[str, ...]
Pos = int
