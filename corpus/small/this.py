s = """Gur Mra bs Clguba, ol Gvz Crgref

Ornhgvshy vf orggre guna htyl.
Rkcyvpvg vf orggre guna vzcyvpvg.
Fvzcyr vf orggre guna pbzcyrk.
Pbzcyrk vf orggre guna pbzcyvpngrq.
Syng vf orggre guna arfgrq.
Fcnefr vf orggre guna qrafr.
Ernqnovyvgl pbhagf.
Fcrpvny pnfrf nera'g fcrpvny rabhtu gb oernx gur ehyrf.
Nygubhtu cenpgvpnyvgl orngf chevgl.
Reebef fubhyq arire cnff fvyragyl.
Hayrff rkcyvpvgyl fvyraprq.
Va gur snpr bs nzovthvgl, ershfr gur grzcgngvba gb thrff.
Gurer fubhyq or bar-- naq cersrenoyl bayl bar --boivbhf jnl gb qb vg.
Nygubhtu gung jnl znl abg or boivbhf ng svefg hayrff lbh'er Qhgpu.
Abj vf orggre guna arire.
Nygubhtu arire vf bsgra orggre guna *evtug* abj.
Vs gur vzcyrzragngvba vf uneq gb rkcynva, vg'f n onq vqrn.
Vs gur vzcyrzragngvba vf rnfl gb rkcynva, vg znl or n tbbq vqrn.
Anzrfcnprf ner bar ubaxvat terng vqrn -- yrg'f qb zber bs gubfr!"""

d = {}
for c in (65, 97):
    for i in range(26):
        d[chr(i+c)] = chr((i+13) % 26 + c)

print("".join([d.get(c, c) for c in s]))
