"""Provide the _gdbm module as a dbm submodule."""

from _gdbm import *
