"""Subset of importlib.abc used to reduce importlib.util imports."""
from . import _bootstrap
import abc


class Loader(metaclass=abc.ABCMeta):

    """Abstract base class for import loaders."""

    def create_module(self, spec):
        """Return a module to initialize and into which to load.

        This method should raise ImportError if anything prevents it
        from creating a new module.  It may return None to indicate
        that the spec should create the new module.
        """
        # By default, defer to default semantics for the new module.
        return None

    # We don't define exec_module() here since that would break
    # hasattr checks we do to support backward compatibility.

    def load_module(self, fullname):
        """Return the loaded module.

        The module must be added to sys.modules and have import-related
        attributes set properly.  The fullname is a str.

        ImportError is raised on failure.

        This method is deprecated in favor of loader.exec_module(). If
        exec_module() exists then it is used to provide a backwards-compatible
        functionality for this method.

        """
        if not hasattr(self, 'exec_module'):
            raise ImportError
        # Warning implemented in _load_module_shim().
        return _bootstrap._load_module_shim(self, fullname)
