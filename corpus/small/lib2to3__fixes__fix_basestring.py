"""Fixer for basestring -> str."""
# Author: Christian Heimes

# Local imports
from .. import fixer_base
from ..fixer_util import Name

class FixBasestring(fixer_base.BaseFix):
    BM_compatible = True

    PATTERN = "'basestring'"

    def transform(self, node, results):
        return Name("str", prefix=node.prefix)
