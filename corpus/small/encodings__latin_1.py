""" Python 'latin-1' Codec


Written by Marc-Andre Lemburg (mal@lemburg.com).

(c) Copyright CNRI, All Rights Reserved. NO WARRANTY.

"""
import codecs

### Codec APIs

class Codec(codecs.Codec):

    # Note: Binding these as C functions will result in the class not
    # converting them to methods. This is intended.
    encode = codecs.latin_1_encode
    decode = codecs.latin_1_decode

class IncrementalEncoder(codecs.IncrementalEncoder):
    def encode(self, input, final=False):
        return codecs.latin_1_encode(input,self.errors)[0]

class IncrementalDecoder(codecs.IncrementalDecoder):
    def decode(self, input, final=False):
        return codecs.latin_1_decode(input,self.errors)[0]

class StreamWriter(Codec,codecs.StreamWriter):
    pass

class StreamReader(Codec,codecs.StreamReader):
    pass

class StreamConverter(StreamWriter,StreamReader):

    encode = codecs.latin_1_decode
    decode = codecs.latin_1_encode

### encodings module API

def getregentry():
    return codecs.CodecInfo(
        name='iso8859-1',
        encode=Codec.encode,
        decode=Codec.decode,
        incrementalencoder=IncrementalEncoder,
        incrementaldecoder=IncrementalDecoder,
        streamreader=StreamReader,
        streamwriter=StreamWriter,
    )
