""" Python 'utf-16-le' Codec


Written by Marc-Andre Lemburg (mal@lemburg.com).

(c) Copyright CNRI, All Rights Reserved. NO WARRANTY.

"""
import codecs

### Codec APIs

encode = codecs.utf_16_le_encode

def decode(input, errors='strict'):
    return codecs.utf_16_le_decode(input, errors, True)

class IncrementalEncoder(codecs.IncrementalEncoder):
    def encode(self, input, final=False):
        return codecs.utf_16_le_encode(input, self.errors)[0]

class IncrementalDecoder(codecs.BufferedIncrementalDecoder):
    _buffer_decode = codecs.utf_16_le_decode

class StreamWriter(codecs.StreamWriter):
    encode = codecs.utf_16_le_encode

class StreamReader(codecs.StreamReader):
    decode = codecs.utf_16_le_decode

### encodings module API

def getregentry():
    return codecs.CodecInfo(
        name='utf-16-le',
        encode=encode,
        decode=decode,
        incrementalencoder=IncrementalEncoder,
        incrementaldecoder=IncrementalDecoder,
        streamreader=StreamReader,
        streamwriter=StreamWriter,
    )
