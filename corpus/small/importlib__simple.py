"""
Compatibility shim for .resources.simple as found on Python 3.10.

Consumers that can rely on Python 3.11 should use the other
module directly.
"""

from .resources.simple import (
    SimpleReader, ResourceHandle, ResourceContainer, TraversableReader,
)

__all__ = [
    'SimpleReader', 'ResourceHandle', 'ResourceContainer', 'TraversableReader',
]
