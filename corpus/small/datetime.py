try:
    from _datetime import *
    from _datetime import __doc__
except ImportError:
    from _pydatetime import *
    from _pydatetime import __doc__

__all__ = ("date", "datetime", "time", "timedelta", "timezone", "tzinfo",
           "MINYEAR", "MAXYEAR", "UTC")
