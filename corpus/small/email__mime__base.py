# Copyright (C) 2001-2006 Python Software Foundation
# Author: Barry Warsaw
# Contact: email-sig@python.org

"""Base class for MIME specializations."""

__all__ = ['MIMEBase']

import email.policy

from email import message


class MIMEBase(message.Message):
    """Base class for MIME specializations."""

    def __init__(self, _maintype, _subtype, *, policy=None, **_params):
        """This constructor adds a Content-Type: and a MIME-Version: header.

        The Content-Type: header is taken from the _maintype and _subtype
        arguments.  Additional parameters for this header are taken from the
        keyword arguments.
        """
        if policy is None:
            policy = email.policy.compat32
        message.Message.__init__(self, policy=policy)
        ctype = '%s/%s' % (_maintype, _subtype)
        self.add_header('Content-Type', ctype, **_params)
        self['MIME-Version'] = '1.0'
