"""WSGI-related types for static type checking"""

from collections.abc import Callable, Iterable, Iterator
from types import TracebackType
from typing import Any, Protocol, TypeAlias

__all__ = [
    "StartResponse",
    "WSGIEnvironment",
    "WSGIApplication",
    "InputStream",
    "ErrorStream",
    "FileWrapper",
]

_ExcInfo: TypeAlias = tuple[type[BaseException], BaseException, TracebackType]
_OptExcInfo: TypeAlias = _ExcInfo | tuple[None, None, None]

class StartResponse(Protocol):
    """start_response() callable as defined in PEP 3333"""
    def __call__(
        self,
        status: str,
        headers: list[tuple[str, str]],
        exc_info: _OptExcInfo | None = ...,
        /,
    ) -> Callable[[bytes], object]: ...

WSGIEnvironment: TypeAlias = dict[str, Any]
WSGIApplication: TypeAlias = Callable[[WSGIEnvironment, StartResponse],
    Iterable[bytes]]

class InputStream(Protocol):
    """WSGI input stream as defined in PEP 3333"""
    def read(self, size: int = ..., /) -> bytes: ...
    def readline(self, size: int = ..., /) -> bytes: ...
    def readlines(self, hint: int = ..., /) -> list[bytes]: ...
    def __iter__(self) -> Iterator[bytes]: ...

class ErrorStream(Protocol):
    """WSGI error stream as defined in PEP 3333"""
    def flush(self) -> object: ...
    def write(self, s: str, /) -> object: ...
    def writelines(self, seq: list[str], /) -> object: ...

class _Readable(Protocol):
    def read(self, size: int = ..., /) -> bytes: ...
    # Optional: def close(self) -> object: ...

class FileWrapper(Protocol):
    """WSGI file wrapper as defined in PEP 3333"""
    def __call__(
        self, file: _Readable, block_size: int = ..., /,
    ) -> Iterable[bytes]: ...
