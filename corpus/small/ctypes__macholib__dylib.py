"""
Generic dylib path manipulation
"""

import re

__all__ = ['dylib_info']

DYLIB_RE = re.compile(r"""(?x)
(?P<location>^.*)(?:^|/)
(?P<name>
    (?P<shortname>\w+?)
    (?:\.(?P<version>[^._]+))?
    (?:_(?P<suffix>[^._]+))?
    \.dylib$
)
""")

def dylib_info(filename):
    """
    A dylib name can take one of the following four forms:
        Location/Name.SomeVersion_Suffix.dylib
        Location/Name.SomeVersion.dylib
        Location/Name_Suffix.dylib
        Location/Name.dylib

    returns None if not found or a mapping equivalent to:
        dict(
            location='Location',
            name='Name.SomeVersion_Suffix.dylib',
            shortname='Name',
            version='SomeVersion',
            suffix='Suffix',
        )

    Note that SomeVersion and Suffix are optional and may be None
    if not present.
    """
    is_dylib = DYLIB_RE.match(filename)
    if not is_dylib:
        return None
    return is_dylib.groupdict()
