"""The asyncio package, tracking PEP 3156."""

# flake8: noqa

import sys

# This relies on each of the submodules having an __all__ variable.
from .base_events import *
from .coroutines import *
from .events import *
from .exceptions import *
from .futures import *
from .locks import *
from .protocols import *
from .runners import *
from .queues import *
from .streams import *
from .subprocess import *
from .tasks import *
from .taskgroups import *
from .timeouts import *
from .threads import *
from .transports import *

__all__ = (base_events.__all__ +
           coroutines.__all__ +
           events.__all__ +
           exceptions.__all__ +
           futures.__all__ +
           locks.__all__ +
           protocols.__all__ +
           runners.__all__ +
           queues.__all__ +
           streams.__all__ +
           subprocess.__all__ +
           tasks.__all__ +
           taskgroups.__all__ +
           threads.__all__ +
           timeouts.__all__ +
           transports.__all__)

if sys.platform == 'win32':  # pragma: no cover
    from .windows_events import *
    __all__ += windows_events.__all__
else:
    from .unix_events import *  # pragma: no cover
    __all__ += unix_events.__all__
