"""Fixer for reload().

reload(s) -> importlib.reload(s)"""

# Local imports
from .. import fixer_base
from ..fixer_util import ImportAndCall, touch_import


class FixReload(fixer_base.BaseFix):
    BM_compatible = True
    order = "pre"

    PATTERN = """
    power< 'reload'
           trailer< lpar='('
                    ( not(arglist | argument<any '=' any>) obj=any
                      | obj=arglist<(not argument<any '=' any>) any ','> )
                    rpar=')' >
           after=any*
    >
    """

    def transform(self, node, results):
        if results:
            # I feel like we should be able to express this logic in the
            # PATTERN above but I don't know how to do it so...
            obj = results['obj']
            if obj:
                if (obj.type == self.syms.argument and
                    obj.children[0].value in {'**', '*'}):
                    return  # Make no change.
        names = ('importlib', 'reload')
        new = ImportAndCall(node, results, names)
        touch_import(None, 'importlib', node)
        return new
