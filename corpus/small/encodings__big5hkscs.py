#
# big5hkscs.py: Python Unicode Codec for BIG5HKSCS
#
# Written by Hye-Shik Chang <perky@FreeBSD.org>
#

import _codecs_hk, codecs
import _multibytecodec as mbc

codec = _codecs_hk.getcodec('big5hkscs')

class Codec(codecs.Codec):
    encode = codec.encode
    decode = codec.decode

class IncrementalEncoder(mbc.MultibyteIncrementalEncoder,
                         codecs.IncrementalEncoder):
    codec = codec

class IncrementalDecoder(mbc.MultibyteIncrementalDecoder,
                         codecs.IncrementalDecoder):
    codec = codec

class StreamReader(Codec, mbc.MultibyteStreamReader, codecs.StreamReader):
    codec = codec

class StreamWriter(Codec, mbc.MultibyteStreamWriter, codecs.StreamWriter):
    codec = codec

def getregentry():
    return codecs.CodecInfo(
        name='big5hkscs',
        encode=Codec().encode,
        decode=Codec().decode,
        incrementalencoder=IncrementalEncoder,
        incrementaldecoder=IncrementalDecoder,
        streamreader=StreamReader,
        streamwriter=StreamWriter,
    )
