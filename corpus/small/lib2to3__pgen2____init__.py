# Copyright 2004-2005 Elemental Security, Inc. All Rights Reserved.
# Licensed to PSF under a Contributor Agreement.

"""The pgen2 package."""
