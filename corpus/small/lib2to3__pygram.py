# Copyright 2006 Google, Inc. All Rights Reserved.
# Licensed to PSF under a Contributor Agreement.

"""Export the Python grammar and symbols."""

# Python imports
import os

# Local imports
from .pgen2 import token
from .pgen2 import driver
from . import pytree

# The grammar file
_GRAMMAR_FILE = os.path.join(os.path.dirname(__file__), "Grammar.txt")
_PATTERN_GRAMMAR_FILE = os.path.join(os.path.dirname(__file__),
                                     "PatternGrammar.txt")


class Symbols(object):

    def __init__(self, grammar):
        """Initializer.

        Creates an attribute for each grammar symbol (nonterminal),
        whose value is the symbol's type (an int >= 256).
        """
        for name, symbol in grammar.symbol2number.items():
            setattr(self, name, symbol)


python_grammar = driver.load_packaged_grammar("lib2to3", _GRAMMAR_FILE)

python_symbols = Symbols(python_grammar)

python_grammar_no_print_statement = python_grammar.copy()
del python_grammar_no_print_statement.keywords["print"]

python_grammar_no_print_and_exec_statement = python_grammar_no_print_statement.copy()
del python_grammar_no_print_and_exec_statement.keywords["exec"]

pattern_grammar = driver.load_packaged_grammar("lib2to3", _PATTERN_GRAMMAR_FILE)
pattern_symbols = Symbols(pattern_grammar)
