"""
Fixer that changes os.getcwdu() to os.getcwd().
"""
# Author: Victor Stinner

# Local imports
from .. import fixer_base
from ..fixer_util import Name

class FixGetcwdu(fixer_base.BaseFix):
    BM_compatible = True

    PATTERN = """
              power< 'os' trailer< dot='.' name='getcwdu' > any* >
              """

    def transform(self, node, results):
        name = results["name"]
        name.replace(Name("getcwd", prefix=name.prefix))
