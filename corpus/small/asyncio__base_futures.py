__all__ = ()

import reprlib

from . import format_helpers

# States for Future.
_PENDING = 'PENDING'
_CANCELLED = 'CANCELLED'
_FINISHED = 'FINISHED'


def isfuture(obj):
    """Check for a Future.

    This returns True when obj is a Future instance or is advertising
    itself as duck-type compatible by setting _asyncio_future_blocking.
    See comment in Future for more details.
    """
    return (hasattr(obj.__class__, '_asyncio_future_blocking') and
            obj._asyncio_future_blocking is not None)


def _format_callbacks(cb):
    """helper function for Future.__repr__"""
    size = len(cb)
    if not size:
        cb = ''

    def format_cb(callback):
        return format_helpers._format_callback_source(callback, ())

    if size == 1:
        cb = format_cb(cb[0][0])
    elif size == 2:
        cb = '{}, {}'.format(format_cb(cb[0][0]), format_cb(cb[1][0]))
    elif size > 2:
        cb = '{}, <{} more>, {}'.format(format_cb(cb[0][0]),
                                        size - 2,
                                        format_cb(cb[-1][0]))
    return f'cb=[{cb}]'


def _future_repr_info(future):
    # (Future) -> str
    """helper function for Future.__repr__"""
    info = [future._state.lower()]
    if future._state == _FINISHED:
        if future._exception is not None:
            info.append(f'exception={future._exception!r}')
        else:
            # use reprlib to limit the length of the output, especially
            # for very long strings
            result = reprlib.repr(future._result)
            info.append(f'result={result}')
    if future._callbacks:
        info.append(_format_callbacks(future._callbacks))
    if future._source_traceback:
        frame = future._source_traceback[-1]
        info.append(f'created at {frame[0]}:{frame[1]}')
    return info


@reprlib.recursive_repr()
def _future_repr(future):
    info = ' '.join(_future_repr_info(future))
    return f'<{future.__class__.__name__} {info}>'
