"""
Fixer that changes zip(seq0, seq1, ...) into list(zip(seq0, seq1, ...)
unless there exists a 'from future_builtins import zip' statement in the
top-level namespace.

We avoid the transformation if the zip() call is directly contained in
iter(<>), list(<>), tuple(<>), sorted(<>), ...join(<>), or for V in <>:.
"""

# Local imports
from .. import fixer_base
from ..pytree import Node
from ..pygram import python_symbols as syms
from ..fixer_util import Name, ArgList, in_special_context


class FixZip(fixer_base.ConditionalFix):

    BM_compatible = True
    PATTERN = """
    power< 'zip' args=trailer< '(' [any] ')' > [trailers=trailer*]
    >
    """

    skip_on = "future_builtins.zip"

    def transform(self, node, results):
        if self.should_skip(node):
            return

        if in_special_context(node):
            return None

        args = results['args'].clone()
        args.prefix = ""

        trailers = []
        if 'trailers' in results:
            trailers = [n.clone() for n in results['trailers']]
            for n in trailers:
                n.prefix = ""

        new = Node(syms.power, [Name("zip"), args], prefix="")
        new = Node(syms.power, [Name("list"), ArgList([new])] + trailers)
        new.prefix = node.prefix
        return new
