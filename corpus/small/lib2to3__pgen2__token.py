#! /usr/bin/env python3

"""Token constants (from "token.h")."""

#  Taken from Python (r53757) and modified to include some tokens
#   originally monkeypatched in by pgen2.tokenize

#--start constants--
ENDMARKER = 0
NAME = 1
NUMBER = 2
STRING = 3
NEWLINE = 4
INDENT = 5
DEDENT = 6
LPAR = 7
RPAR = 8
LSQB = 9
RSQB = 10
COLON = 11
COMMA = 12
SEMI = 13
PLUS = 14
MINUS = 15
STAR = 16
SLASH = 17
VBAR = 18
AMPER = 19
LESS = 20
GREATER = 21
EQUAL = 22
DOT = 23
PERCENT = 24
BACKQUOTE = 25
LBRACE = 26
RBRACE = 27
EQEQUAL = 28
NOTEQUAL = 29
LESSEQUAL = 30
GREATEREQUAL = 31
TILDE = 32
CIRCUMFLEX = 33
LEFTSHIFT = 34
RIGHTSHIFT = 35
DOUBLESTAR = 36
PLUSEQUAL = 37
MINEQUAL = 38
STAREQUAL = 39
SLASHEQUAL = 40
PERCENTEQUAL = 41
AMPEREQUAL = 42
VBAREQUAL = 43
CIRCUMFLEXEQUAL = 44
LEFTSHIFTEQUAL = 45
RIGHTSHIFTEQUAL = 46
DOUBLESTAREQUAL = 47
DOUBLESLASH = 48
DOUBLESLASHEQUAL = 49
AT = 50
ATEQUAL = 51
OP = 52
COMMENT = 53
NL = 54
RARROW = 55
AWAIT = 56
ASYNC = 57
ERRORTOKEN = 58
COLONEQUAL = 59
N_TOKENS = 60
NT_OFFSET = 256
#--end constants--

tok_name = {}
for _name, _value in list(globals().items()):
    if isinstance(_value, int):
        tok_name[_value] = _name


def ISTERMINAL(x):
    return x < NT_OFFSET

def ISNONTERMINAL(x):
    return x >= NT_OFFSET

def ISEOF(x):
    return x == ENDMARKER
