"""Fixer that adds parentheses where they are required

This converts ``[x for x in 1, 2]`` to ``[x for x in (1, 2)]``."""

# By Taek Joo Kim and Benjamin Peterson

# Local imports
from .. import fixer_base
from ..fixer_util import LParen, RParen

# XXX This doesn't support nested for loops like [x for x in 1, 2 for x in 1, 2]
class FixParen(fixer_base.BaseFix):
    BM_compatible = True

    PATTERN = """
        atom< ('[' | '(')
            (listmaker< any
                comp_for<
                    'for' NAME 'in'
                    target=testlist_safe< any (',' any)+ [',']
                     >
                    [any]
                >
            >
            |
            testlist_gexp< any
                comp_for<
                    'for' NAME 'in'
                    target=testlist_safe< any (',' any)+ [',']
                     >
                    [any]
                >
            >)
        (']' | ')') >
    """

    def transform(self, node, results):
        target = results["target"]

        lparen = LParen()
        lparen.prefix = target.prefix
        target.prefix = "" # Make it hug the parentheses
        target.insert_child(0, lparen)
        target.append_child(RParen())
