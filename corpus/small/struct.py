__all__ = [
    # Functions
    'calcsize', 'pack', 'pack_into', 'unpack', 'unpack_from',
    'iter_unpack',

    # Classes
    'Struct',

    # Exceptions
    'error'
    ]

from _struct import *
from _struct import _clearcache
from _struct import __doc__
