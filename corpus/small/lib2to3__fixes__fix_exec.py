# Copyright 2006 Google, Inc. All Rights Reserved.
# Licensed to PSF under a Contributor Agreement.

"""Fixer for exec.

This converts usages of the exec statement into calls to a built-in
exec() function.

exec code in ns1, ns2 -> exec(code, ns1, ns2)
"""

# Local imports
from .. import fixer_base
from ..fixer_util import Comma, Name, Call


class FixExec(fixer_base.BaseFix):
    BM_compatible = True

    PATTERN = """
    exec_stmt< 'exec' a=any 'in' b=any [',' c=any] >
    |
    exec_stmt< 'exec' (not atom<'(' [any] ')'>) a=any >
    """

    def transform(self, node, results):
        assert results
        syms = self.syms
        a = results["a"]
        b = results.get("b")
        c = results.get("c")
        args = [a.clone()]
        args[0].prefix = ""
        if b is not None:
            args.extend([Comma(), b.clone()])
        if c is not None:
            args.extend([Comma(), c.clone()])

        return Call(Name("exec"), args, prefix=node.prefix)
