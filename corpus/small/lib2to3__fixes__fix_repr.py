# Copyright 2006 Google, Inc. All Rights Reserved.
# Licensed to PSF under a Contributor Agreement.

"""Fixer that transforms `xyzzy` into repr(xyzzy)."""

# Local imports
from .. import fixer_base
from ..fixer_util import Call, Name, parenthesize


class FixRepr(fixer_base.BaseFix):

    BM_compatible = True
    PATTERN = """
              atom < '`' expr=any '`' >
              """

    def transform(self, node, results):
        expr = results["expr"].clone()

        if expr.type == self.syms.testlist1:
            expr = parenthesize(expr)
        return Call(Name("repr"), [expr], prefix=node.prefix)
