import io
import os

from .context import reduction, set_spawning_popen
from . import popen_fork
from . import spawn
from . import util

__all__ = ['Popen']


#
# Wrapper for an fd used while launching a process
#

class _DupFd(object):
    def __init__(self, fd):
        self.fd = fd
    def detach(self):
        return self.fd

#
# Start child process using a fresh interpreter
#

class Popen(popen_fork.Popen):
    method = 'spawn'
    DupFd = _DupFd

    def __init__(self, process_obj):
        self._fds = []
        super().__init__(process_obj)

    def duplicate_for_child(self, fd):
        self._fds.append(fd)
        return fd

    def _launch(self, process_obj):
        from . import resource_tracker
        tracker_fd = resource_tracker.getfd()
        self._fds.append(tracker_fd)
        prep_data = spawn.get_preparation_data(process_obj._name)
        fp = io.BytesIO()
        set_spawning_popen(self)
        try:
            reduction.dump(prep_data, fp)
            reduction.dump(process_obj, fp)
        finally:
            set_spawning_popen(None)

        parent_r = child_w = child_r = parent_w = None
        try:
            parent_r, child_w = os.pipe()
            child_r, parent_w = os.pipe()
            cmd = spawn.get_command_line(tracker_fd=tracker_fd,
                                         pipe_handle=child_r)
            self._fds.extend([child_r, child_w])
            self.pid = util.spawnv_passfds(spawn.get_executable(),
                                           cmd, self._fds)
            self.sentinel = parent_r
            with open(parent_w, 'wb', closefd=False) as f:
                f.write(fp.getbuffer())
        finally:
            fds_to_close = []
            for fd in (parent_r, parent_w):
                if fd is not None:
                    fds_to_close.append(fd)
            self.finalizer = util.Finalize(self, util.close_fds, fds_to_close)

            for fd in (child_r, child_w):
                if fd is not None:
                    os.close(fd)
