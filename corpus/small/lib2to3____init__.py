import warnings


warnings.warn(
    "lib2to3 package is deprecated and may not be able to parse Python 3.10+",
    DeprecationWarning,
    stacklevel=2,
)
