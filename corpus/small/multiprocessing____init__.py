#
# Package analogous to 'threading.py' but using processes
#
# multiprocessing/__init__.py
#
# This package is intended to duplicate the functionality (and much of
# the API) of threading.py but uses processes instead of threads.  A
# subpackage 'multiprocessing.dummy' has the same API but is a simple
# wrapper for 'threading'.
#
# Copyright (c) 2006-2008, R Oudkerk
# Licensed to PSF under a Contributor Agreement.
#

import sys
from . import context

#
# Copy stuff from default context
#

__all__ = [x for x in dir(context._default_context) if not x.startswith('_')]
globals().update((name, getattr(context._default_context, name)) for name in __all__)

#
# XXX These should not really be documented or public.
#

SUBDEBUG = 5
SUBWARNING = 25

#
# Alias for main module -- will be reset by bootstrapping child processes
#

if '__main__' in sys.modules:
    sys.modules['__mp_main__'] = sys.modules['__main__']
