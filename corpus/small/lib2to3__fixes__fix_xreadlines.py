"""Fix "for x in f.xreadlines()" -> "for x in f".

This fixer will also convert g(f.xreadlines) into g(f.__iter__)."""
# Author: Collin Winter

# Local imports
from .. import fixer_base
from ..fixer_util import Name


class FixXreadlines(fixer_base.BaseFix):
    BM_compatible = True
    PATTERN = """
    power< call=any+ trailer< '.' 'xreadlines' > trailer< '(' ')' > >
    |
    power< any+ trailer< '.' no_call='xreadlines' > >
    """

    def transform(self, node, results):
        no_call = results.get("no_call")

        if no_call:
            no_call.replace(Name("__iter__", prefix=no_call.prefix))
        else:
            node.replace([x.clone() for x in results["call"]])
