""" Python 'ascii' Codec


Written by Marc-Andre Lemburg (mal@lemburg.com).

(c) Copyright CNRI, All Rights Reserved. NO WARRANTY.

"""
import codecs

### Codec APIs

class Codec(codecs.Codec):

    # Note: Binding these as C functions will result in the class not
    # converting them to methods. This is intended.
    encode = codecs.ascii_encode
    decode = codecs.ascii_decode

class IncrementalEncoder(codecs.IncrementalEncoder):
    def encode(self, input, final=False):
        return codecs.ascii_encode(input, self.errors)[0]

class IncrementalDecoder(codecs.IncrementalDecoder):
    def decode(self, input, final=False):
        return codecs.ascii_decode(input, self.errors)[0]

class StreamWriter(Codec,codecs.StreamWriter):
    pass

class StreamReader(Codec,codecs.StreamReader):
    pass

class StreamConverter(StreamWriter,StreamReader):

    encode = codecs.ascii_decode
    decode = codecs.ascii_encode

### encodings module API

def getregentry():
    return codecs.CodecInfo(
        name='ascii',
        encode=Codec.encode,
        decode=Codec.decode,
        incrementalencoder=IncrementalEncoder,
        incrementaldecoder=IncrementalDecoder,
        streamwriter=StreamWriter,
        streamreader=StreamReader,
    )
