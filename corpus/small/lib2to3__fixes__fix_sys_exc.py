"""Fixer for sys.exc_{type, value, traceback}

sys.exc_type -> sys.exc_info()[0]
sys.exc_value -> sys.exc_info()[1]
sys.exc_traceback -> sys.exc_info()[2]
"""

# By Jeff Balogh and Benjamin Peterson

# Local imports
from .. import fixer_base
from ..fixer_util import Attr, Call, Name, Number, Subscript, Node, syms

class FixSysExc(fixer_base.BaseFix):
    # This order matches the ordering of sys.exc_info().
    exc_info = ["exc_type", "exc_value", "exc_traceback"]
    BM_compatible = True
    PATTERN = """
              power< 'sys' trailer< dot='.' attribute=(%s) > >
              """ % '|'.join("'%s'" % e for e in exc_info)

    def transform(self, node, results):
        sys_attr = results["attribute"][0]
        index = Number(self.exc_info.index(sys_attr.value))

        call = Call(Name("exc_info"), prefix=sys_attr.prefix)
        attr = Attr(Name("sys"), call)
        attr[1].children[0].prefix = results["dot"].prefix
        attr.append(Subscript(index))
        return Node(syms.power, attr, prefix=node.prefix)
