# Dummy file to make this directory a package.
