# Copyright 2007 Google, Inc. All Rights Reserved.
# Licensed to PSF under a Contributor Agreement.

"""Fixer that changes buffer(...) into memoryview(...)."""

# Local imports
from .. import fixer_base
from ..fixer_util import Name


class FixBuffer(fixer_base.BaseFix):
    BM_compatible = True

    explicit = True # The user must ask for this fixer

    PATTERN = """
              power< name='buffer' trailer< '(' [any] ')' > any* >
              """

    def transform(self, node, results):
        name = results["name"]
        name.replace(Name("memoryview", prefix=name.prefix))
