"""Interface to the Expat non-validating XML parser."""
import sys

from pyexpat import *

# provide pyexpat submodules as xml.parsers.expat submodules
sys.modules['xml.parsers.expat.model'] = model
sys.modules['xml.parsers.expat.errors'] = errors
