# Copyright 2006 Georg Brandl.
# Licensed to PSF under a Contributor Agreement.

"""Fixer for intern().

intern(s) -> sys.intern(s)"""

# Local imports
from .. import fixer_base
from ..fixer_util import ImportAndCall, touch_import


class FixIntern(fixer_base.BaseFix):
    BM_compatible = True
    order = "pre"

    PATTERN = """
    power< 'intern'
           trailer< lpar='('
                    ( not(arglist | argument<any '=' any>) obj=any
                      | obj=arglist<(not argument<any '=' any>) any ','> )
                    rpar=')' >
           after=any*
    >
    """

    def transform(self, node, results):
        if results:
            # I feel like we should be able to express this logic in the
            # PATTERN above but I don't know how to do it so...
            obj = results['obj']
            if obj:
                if (obj.type == self.syms.argument and
                    obj.children[0].value in {'**', '*'}):
                    return  # Make no change.
        names = ('sys', 'intern')
        new = ImportAndCall(node, results, names)
        touch_import(None, 'sys', node)
        return new
