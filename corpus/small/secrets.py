"""Generate cryptographically strong pseudo-random numbers suitable for
managing secrets such as account authentication, tokens, and similar.

See PEP 506 for more information.
https://peps.python.org/pep-0506/

"""

__all__ = ['choice', 'randbelow', 'randbits', 'SystemRandom',
           'token_bytes', 'token_hex', 'token_urlsafe',
           'compare_digest',
           ]


import base64

from hmac import compare_digest
from random import SystemRandom

_sysrand = SystemRandom()

randbits = _sysrand.getrandbits
choice = _sysrand.choice

def randbelow(exclusive_upper_bound):
    """Return a random int in the range [0, n)."""
    if exclusive_upper_bound <= 0:
        raise ValueError("Upper bound must be positive.")
    return _sysrand._randbelow(exclusive_upper_bound)

DEFAULT_ENTROPY = 32  # number of bytes to return by default

def token_bytes(nbytes=None):
    """Return a random byte string containing *nbytes* bytes.

    If *nbytes* is ``None`` or not supplied, a reasonable
    default is used.

    >>> token_bytes(16)  #doctest:+SKIP
    b'\\xebr\\x17D*t\\xae\\xd4\\xe3S\\xb6\\xe2\\xebP1\\x8b'

    """
    if nbytes is None:
        nbytes = DEFAULT_ENTROPY
    return _sysrand.randbytes(nbytes)

def token_hex(nbytes=None):
    """Return a random text string, in hexadecimal.

    The string has *nbytes* random bytes, each byte converted to two
    hex digits.  If *nbytes* is ``None`` or not supplied, a reasonable
    default is used.

    >>> token_hex(16)  #doctest:+SKIP
    'f9bf78b9a18ce6d46a0cd2b0b86df9da'

    """
    return token_bytes(nbytes).hex()

def token_urlsafe(nbytes=None):
    """Return a random URL-safe text string, in Base64 encoding.

    The string has *nbytes* random bytes.  If *nbytes* is ``None``
    or not supplied, a reasonable default is used.

    >>> token_urlsafe(16)  #doctest:+SKIP
    'Drmhze6EPcv0fN_81Bj-nA'

    """
    tok = token_bytes(nbytes)
    return base64.urlsafe_b64encode(tok).rstrip(b'=').decode('ascii')
