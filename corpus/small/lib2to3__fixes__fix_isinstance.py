# Copyright 2008 Armin Ronacher.
# Licensed to PSF under a Contributor Agreement.

"""Fixer that cleans up a tuple argument to isinstance after the tokens
in it were fixed.  This is mainly used to remove double occurrences of
tokens as a leftover of the long -> int / unicode -> str conversion.

eg.  isinstance(x, (int, long)) -> isinstance(x, (int, int))
       -> isinstance(x, int)
"""

from .. import fixer_base
from ..fixer_util import token


class FixIsinstance(fixer_base.BaseFix):
    BM_compatible = True
    PATTERN = """
    power<
        'isinstance'
        trailer< '(' arglist< any ',' atom< '('
            args=testlist_gexp< any+ >
        ')' > > ')' >
    >
    """

    run_order = 6

    def transform(self, node, results):
        names_inserted = set()
        testlist = results["args"]
        args = testlist.children
        new_args = []
        iterator = enumerate(args)
        for idx, arg in iterator:
            if arg.type == token.NAME and arg.value in names_inserted:
                if idx < len(args) - 1 and args[idx + 1].type == token.COMMA:
                    next(iterator)
                    continue
            else:
                new_args.append(arg)
                if arg.type == token.NAME:
                    names_inserted.add(arg.value)
        if new_args and new_args[-1].type == token.COMMA:
            del new_args[-1]
        if len(new_args) == 1:
            atom = testlist.parent
            new_args[0].prefix = atom.prefix
            atom.replace(new_args[0])
        else:
            args[:] = new_args
            node.changed()
