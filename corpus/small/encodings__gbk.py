#
# gbk.py: Python Unicode Codec for GBK
#
# Written by Hye-Shik Chang <perky@FreeBSD.org>
#

import _codecs_cn, codecs
import _multibytecodec as mbc

codec = _codecs_cn.getcodec('gbk')

class Codec(codecs.Codec):
    encode = codec.encode
    decode = codec.decode

class IncrementalEncoder(mbc.MultibyteIncrementalEncoder,
                         codecs.IncrementalEncoder):
    codec = codec

class IncrementalDecoder(mbc.MultibyteIncrementalDecoder,
                         codecs.IncrementalDecoder):
    codec = codec

class StreamReader(Codec, mbc.MultibyteStreamReader, codecs.StreamReader):
    codec = codec

class StreamWriter(Codec, mbc.MultibyteStreamWriter, codecs.StreamWriter):
    codec = codec

def getregentry():
    return codecs.CodecInfo(
        name='gbk',
        encode=Codec().encode,
        decode=Codec().decode,
        incrementalencoder=IncrementalEncoder,
        incrementaldecoder=IncrementalDecoder,
        streamreader=StreamReader,
        streamwriter=StreamWriter,
    )
