"""Python interfaces to XML parsers.

This package contains one module:

expat -- Python wrapper for James Clark's Expat parser, with namespace
         support.

"""
