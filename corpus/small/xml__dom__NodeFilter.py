# This is the Python mapping for interface NodeFilter from
# DOM2-Traversal-Range. It contains only constants.

class NodeFilter:
    """
    This is the DOM2 NodeFilter interface. It contains only constants.
    """
    FILTER_ACCEPT = 1
    FILTER_REJECT = 2
    FILTER_SKIP   = 3

    SHOW_ALL                    = 0xFFFFFFFF
    SHOW_ELEMENT                = 0x00000001
    SHOW_ATTRIBUTE              = 0x00000002
    SHOW_TEXT                   = 0x00000004
    SHOW_CDATA_SECTION          = 0x00000008
    SHOW_ENTITY_REFERENCE       = 0x00000010
    SHOW_ENTITY                 = 0x00000020
    SHOW_PROCESSING_INSTRUCTION = 0x00000040
    SHOW_COMMENT                = 0x00000080
    SHOW_DOCUMENT               = 0x00000100
    SHOW_DOCUMENT_TYPE          = 0x00000200
    SHOW_DOCUMENT_FRAGMENT      = 0x00000400
    SHOW_NOTATION               = 0x00000800

    def acceptNode(self, node):
        raise NotImplementedError
