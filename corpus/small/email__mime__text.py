# Copyright (C) 2001-2006 Python Software Foundation
# Author: Barry Warsaw
# Contact: email-sig@python.org

"""Class representing text/* type MIME documents."""

__all__ = ['MIMEText']

from email.mime.nonmultipart import MIMENonMultipart


class MIMEText(MIMENonMultipart):
    """Class for generating text/* type MIME documents."""

    def __init__(self, _text, _subtype='plain', _charset=None, *, policy=None):
        """Create a text/* type MIME document.

        _text is the string for this message object.

        _subtype is the MIME sub content type, defaulting to "plain".

        _charset is the character set parameter added to the Content-Type
        header.  This defaults to "us-ascii".  Note that as a side-effect, the
        Content-Transfer-Encoding header will also be set.
        """

        # If no _charset was specified, check to see if there are non-ascii
        # characters present. If not, use 'us-ascii', otherwise use utf-8.
        # XXX: This can be removed once #7304 is fixed.
        if _charset is None:
            try:
                _text.encode('us-ascii')
                _charset = 'us-ascii'
            except UnicodeEncodeError:
                _charset = 'utf-8'

        MIMENonMultipart.__init__(self, 'text', _subtype, policy=policy,
                                  charset=str(_charset))

        self.set_payload(_text, _charset)
