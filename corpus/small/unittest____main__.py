"""Main entry point"""

import sys
if sys.argv[0].endswith("__main__.py"):
    import os.path
    # We change sys.argv[0] to make help message more useful
    # use executable without path, unquoted
    # (it's just a hint anyway)
    # (if you have spaces in your executable you get what you deserve!)
    executable = os.path.basename(sys.executable)
    sys.argv[0] = executable + " -m unittest"
    del os

__unittest = True

from .main import main

main(module=None)
