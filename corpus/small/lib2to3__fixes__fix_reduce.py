# Copyright 2008 Armin Ronacher.
# Licensed to PSF under a Contributor Agreement.

"""Fixer for reduce().

Makes sure reduce() is imported from the functools module if reduce is
used in that module.
"""

from lib2to3 import fixer_base
from lib2to3.fixer_util import touch_import



class FixReduce(fixer_base.BaseFix):

    BM_compatible = True
    order = "pre"

    PATTERN = """
    power< 'reduce'
        trailer< '('
            arglist< (
                (not(argument<any '=' any>) any ','
                 not(argument<any '=' any>) any) |
                (not(argument<any '=' any>) any ','
                 not(argument<any '=' any>) any ','
                 not(argument<any '=' any>) any)
            ) >
        ')' >
    >
    """

    def transform(self, node, results):
        touch_import('functools', 'reduce', node)
