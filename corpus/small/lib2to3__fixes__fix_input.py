"""Fixer that changes input(...) into eval(input(...))."""
# Author: Andre Roberge

# Local imports
from .. import fixer_base
from ..fixer_util import Call, Name
from .. import patcomp


context = patcomp.compile_pattern("power< 'eval' trailer< '(' any ')' > >")


class FixInput(fixer_base.BaseFix):
    BM_compatible = True
    PATTERN = """
              power< 'input' args=trailer< '(' [any] ')' > >
              """

    def transform(self, node, results):
        # If we're already wrapped in an eval() call, we're done.
        if context.match(node.parent.parent):
            return

        new = node.clone()
        new.prefix = ""
        return Call(Name("eval"), [new], prefix=node.prefix)
