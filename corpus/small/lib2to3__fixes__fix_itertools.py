""" Fixer for itertools.(imap|ifilter|izip) --> (map|filter|zip) and
    itertools.ifilterfalse --> itertools.filterfalse (bugs 2360-2363)

    imports from itertools are fixed in fix_itertools_import.py

    If itertools is imported as something else (ie: import itertools as it;
    it.izip(spam, eggs)) method calls will not get fixed.
    """

# Local imports
from .. import fixer_base
from ..fixer_util import Name

class FixItertools(fixer_base.BaseFix):
    BM_compatible = True
    it_funcs = "('imap'|'ifilter'|'izip'|'izip_longest'|'ifilterfalse')"
    PATTERN = """
              power< it='itertools'
                  trailer<
                     dot='.' func=%(it_funcs)s > trailer< '(' [any] ')' > >
              |
              power< func=%(it_funcs)s trailer< '(' [any] ')' > >
              """ %(locals())

    # Needs to be run after fix_(map|zip|filter)
    run_order = 6

    def transform(self, node, results):
        prefix = None
        func = results['func'][0]
        if ('it' in results and
            func.value not in ('ifilterfalse', 'izip_longest')):
            dot, it = (results['dot'], results['it'])
            # Remove the 'itertools'
            prefix = it.prefix
            it.remove()
            # Replace the node which contains ('.', 'function') with the
            # function (to be consistent with the second part of the pattern)
            dot.remove()
            func.parent.replace(func)

        prefix = prefix or func.prefix
        func.replace(Name(func.value[1:], prefix=prefix))
