# Copyright 2007 Google, Inc. All Rights Reserved.
# Licensed to PSF under a Contributor Agreement.

"""Fixer for removing uses of the types module.

These work for only the known names in the types module.  The forms above
can include types. or not.  ie, It is assumed the module is imported either as:

    import types
    from types import ... # either * or specific types

The import statements are not modified.

There should be another fixer that handles at least the following constants:

   type([]) -> list
   type(()) -> tuple
   type('') -> str

"""

# Local imports
from .. import fixer_base
from ..fixer_util import Name

_TYPE_MAPPING = {
        'BooleanType' : 'bool',
        'BufferType' : 'memoryview',
        'ClassType' : 'type',
        'ComplexType' : 'complex',
        'DictType': 'dict',
        'DictionaryType' : 'dict',
        'EllipsisType' : 'type(Ellipsis)',
        #'FileType' : 'io.IOBase',
        'FloatType': 'float',
        'IntType': 'int',
        'ListType': 'list',
        'LongType': 'int',
        'ObjectType' : 'object',
        'NoneType': 'type(None)',
        'NotImplementedType' : 'type(NotImplemented)',
        'SliceType' : 'slice',
        'StringType': 'bytes', # XXX ?
        'StringTypes' : '(str,)', # XXX ?
        'TupleType': 'tuple',
        'TypeType' : 'type',
        'UnicodeType': 'str',
        'XRangeType' : 'range',
    }

_pats = ["power< 'types' trailer< '.' name='%s' > >" % t for t in _TYPE_MAPPING]

class FixTypes(fixer_base.BaseFix):
    BM_compatible = True
    PATTERN = '|'.join(_pats)

    def transform(self, node, results):
        new_value = _TYPE_MAPPING.get(results["name"].value)
        if new_value:
            return Name(new_value, prefix=node.prefix)
        return None
