""" Python 'oem' Codec for Windows

"""
# Import them explicitly to cause an ImportError
# on non-Windows systems
from codecs import oem_encode, oem_decode
# for IncrementalDecoder, IncrementalEncoder, ...
import codecs

### Codec APIs

encode = oem_encode

def decode(input, errors='strict'):
    return oem_decode(input, errors, True)

class IncrementalEncoder(codecs.IncrementalEncoder):
    def encode(self, input, final=False):
        return oem_encode(input, self.errors)[0]

class IncrementalDecoder(codecs.BufferedIncrementalDecoder):
    _buffer_decode = oem_decode

class StreamWriter(codecs.StreamWriter):
    encode = oem_encode

class StreamReader(codecs.StreamReader):
    decode = oem_decode

### encodings module API

def getregentry():
    return codecs.CodecInfo(
        name='oem',
        encode=encode,
        decode=decode,
        incrementalencoder=IncrementalEncoder,
        incrementaldecoder=IncrementalDecoder,
        streamreader=StreamReader,
        streamwriter=StreamWriter,
    )
