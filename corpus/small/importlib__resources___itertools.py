# from more_itertools 9.0
def only(iterable, default=None, too_long=None):
    """If *iterable* has only one item, return it.
    If it has zero items, return *default*.
    If it has more than one item, raise the exception given by *too_long*,
    which is ``ValueError`` by default.
    >>> only([], default='missing')
    'missing'
    >>> only([1])
    1
    >>> only([1, 2])  # doctest: +IGNORE_EXCEPTION_DETAIL
    Traceback (most recent call last):
    ...
    ValueError: Expected exactly one item in iterable, but got 1, 2,
     and perhaps more.'
    >>> only([1, 2], too_long=TypeError)  # doctest: +IGNORE_EXCEPTION_DETAIL
    Traceback (most recent call last):
    ...
    TypeError
    Note that :func:`only` attempts to advance *iterable* twice to ensure there
    is only one item.  See :func:`spy` or :func:`peekable` to check
    iterable contents less destructively.
    """
    it = iter(iterable)
    first_value = next(it, default)

    try:
        second_value = next(it)
    except StopIteration:
        pass
    else:
        msg = (
            'Expected exactly one item in iterable, but got {!r}, {!r}, '
            'and perhaps more.'.format(first_value, second_value)
        )
        raise too_long or ValueError(msg)

    return first_value
