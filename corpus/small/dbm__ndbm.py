"""Provide the _dbm module as a dbm submodule."""

from _dbm import *
