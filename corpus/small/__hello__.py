initialized = True

class TestFrozenUtf8_1:
    """\u00b6"""

class TestFrozenUtf8_2:
    """\u03c0"""

class TestFrozenUtf8_4:
    """\U0001f600"""

def main():
    print("Hello world!")

if __name__ == '__main__':
    main()
