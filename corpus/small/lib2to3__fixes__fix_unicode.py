r"""Fixer for unicode.

* Changes unicode to str and unichr to chr.

* If "...\u..." is not unicode literal change it into "...\\u...".

* Change u"..." into "...".

"""

from ..pgen2 import token
from .. import fixer_base

_mapping = {"unichr" : "chr", "unicode" : "str"}

class FixUnicode(fixer_base.BaseFix):
    BM_compatible = True
    PATTERN = "STRING | 'unicode' | 'unichr'"

    def start_tree(self, tree, filename):
        super(FixUnicode, self).start_tree(tree, filename)
        self.unicode_literals = 'unicode_literals' in tree.future_features

    def transform(self, node, results):
        if node.type == token.NAME:
            new = node.clone()
            new.value = _mapping[node.value]
            return new
        elif node.type == token.STRING:
            val = node.value
            if not self.unicode_literals and val[0] in '\'"' and '\\' in val:
                val = r'\\'.join([
                    v.replace('\\u', r'\\u').replace('\\U', r'\\U')
                    for v in val.split(r'\\')
                ])
            if val[0] in 'uU':
                val = val[1:]
            if val == node.value:
                return node
            new = node.clone()
            new.value = val
            return new
