""" Python 'raw-unicode-escape' Codec


Written by Marc-Andre Lemburg (mal@lemburg.com).

(c) Copyright CNRI, All Rights Reserved. NO WARRANTY.

"""
import codecs

### Codec APIs

class Codec(codecs.Codec):

    # Note: Binding these as C functions will result in the class not
    # converting them to methods. This is intended.
    encode = codecs.raw_unicode_escape_encode
    decode = codecs.raw_unicode_escape_decode

class IncrementalEncoder(codecs.IncrementalEncoder):
    def encode(self, input, final=False):
        return codecs.raw_unicode_escape_encode(input, self.errors)[0]

class IncrementalDecoder(codecs.BufferedIncrementalDecoder):
    def _buffer_decode(self, input, errors, final):
        return codecs.raw_unicode_escape_decode(input, errors, final)

class StreamWriter(Codec,codecs.StreamWriter):
    pass

class StreamReader(Codec,codecs.StreamReader):
    def decode(self, input, errors='strict'):
        return codecs.raw_unicode_escape_decode(input, errors, False)

### encodings module API

def getregentry():
    return codecs.CodecInfo(
        name='raw-unicode-escape',
        encode=Codec.encode,
        decode=Codec.decode,
        incrementalencoder=IncrementalEncoder,
        incrementaldecoder=IncrementalDecoder,
        streamwriter=StreamWriter,
        streamreader=StreamReader,
    )
