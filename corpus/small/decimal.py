
try:
    from _decimal import *
    from _decimal import __doc__
    from _decimal import __version__
    from _decimal import __libmpdec_version__
except ImportError:
    from _pydecimal import *
    from _pydecimal import __doc__
    from _pydecimal import __version__
    from _pydecimal import __libmpdec_version__
