# Copyright 2004-2005 Elemental Security, Inc. All Rights Reserved.
# Licensed to PSF under a Contributor Agreement.

"""Safely evaluate Python string literals without using eval()."""

import re

simple_escapes = {"a": "\a",
                  "b": "\b",
                  "f": "\f",
                  "n": "\n",
                  "r": "\r",
                  "t": "\t",
                  "v": "\v",
                  "'": "'",
                  '"': '"',
                  "\\": "\\"}

def escape(m):
    all, tail = m.group(0, 1)
    assert all.startswith("\\")
    esc = simple_escapes.get(tail)
    if esc is not None:
        return esc
    if tail.startswith("x"):
        hexes = tail[1:]
        if len(hexes) < 2:
            raise ValueError("invalid hex string escape ('\\%s')" % tail)
        try:
            i = int(hexes, 16)
        except ValueError:
            raise ValueError("invalid hex string escape ('\\%s')" % tail) from None
    else:
        try:
            i = int(tail, 8)
        except ValueError:
            raise ValueError("invalid octal string escape ('\\%s')" % tail) from None
    return chr(i)

def evalString(s):
    assert s.startswith("'") or s.startswith('"'), repr(s[:1])
    q = s[0]
    if s[:3] == q*3:
        q = q*3
    assert s.endswith(q), repr(s[-len(q):])
    assert len(s) >= 2*len(q)
    s = s[len(q):-len(q)]
    return re.sub(r"\\(\'|\"|\\|[abfnrtv]|x.{0,2}|[0-7]{1,3})", escape, s)

def test():
    for i in range(256):
        c = chr(i)
        s = repr(c)
        e = evalString(s)
        if e != c:
            print(i, c, s, e)


if __name__ == "__main__":
    test()
