"""Fixer for __nonzero__ -> __bool__ methods."""
# Author: Collin Winter

# Local imports
from .. import fixer_base
from ..fixer_util import Name

class FixNonzero(fixer_base.BaseFix):
    BM_compatible = True
    PATTERN = """
    classdef< 'class' any+ ':'
              suite< any*
                     funcdef< 'def' name='__nonzero__'
                              parameters< '(' NAME ')' > any+ >
                     any* > >
    """

    def transform(self, node, results):
        name = results["name"]
        new = Name("__bool__", prefix=name.prefix)
        name.replace(new)
