# Copyright (C) 2001-2006 Python Software Foundation
# Author: Keith Dart
# Contact: email-sig@python.org

"""Class representing application/* type MIME documents."""

__all__ = ["MIMEApplication"]

from email import encoders
from email.mime.nonmultipart import MIMENonMultipart


class MIMEApplication(MIMENonMultipart):
    """Class for generating application/* MIME documents."""

    def __init__(self, _data, _subtype='octet-stream',
                 _encoder=encoders.encode_base64, *, policy=None, **_params):
        """Create an application/* type MIME document.

        _data contains the bytes for the raw application data.

        _subtype is the MIME content type subtype, defaulting to
        'octet-stream'.

        _encoder is a function which will perform the actual encoding for
        transport of the application data, defaulting to base64 encoding.

        Any additional keyword arguments are passed to the base class
        constructor, which turns them into parameters on the Content-Type
        header.
        """
        if _subtype is None:
            raise TypeError('Invalid application MIME subtype')
        MIMENonMultipart.__init__(self, 'application', _subtype, policy=policy,
                                  **_params)
        self.set_payload(_data)
        _encoder(self)
