from __future__ import annotations

import warnings
from typing import TYPE_CHECKING

from docutils.utils import assemble_option_dict

from sphinx.deprecation import RemovedInSphinx11Warning
from sphinx.ext.autodoc._sentinels import ALL, EMPTY, SUPPRESS
from sphinx.locale import __

if TYPE_CHECKING:
    from collections.abc import Iterable, Iterator, Mapping, Set
    from typing import Any, Final, Literal, Self

    from sphinx.ext.autodoc._property_types import _AutodocObjType
    from sphinx.ext.autodoc._sentinels import ALL_T, EMPTY_T, SUPPRESS_T
    from sphinx.util.typing import OptionSpec


# common option names for autodoc directives
AUTODOC_DEFAULT_OPTIONS = (
    'members',
    'undoc-members',
    'no-index',
    'no-index-entry',
    'inherited-members',
    'show-inheritance',
    'private-members',
    'special-members',
    'ignore-module-all',
    'exclude-members',
    'member-order',
    'imported-members',
    'class-doc-from',
    'no-value',
)

AUTODOC_EXTENDABLE_OPTIONS = frozenset({
    'members',
    'private-members',
    'special-members',
    'exclude-members',
})


class _AutoDocumenterOptions:
    # TODO: make immutable.

    no_index: Literal[True] | None = None
    no_index_entry: Literal[True] | None = None
    _tab_width: int = 8

    # module-like options
    members: ALL_T | list[str] | None = None
    undoc_members: Literal[True] | None = None
    inherited_members: Set[str] | None = None
    show_inheritance: Literal[True] | None = None
    synopsis: str | None = None
    platform: str | None = None
    deprecated: Literal[True] | None = None
    member_order: Literal['alphabetical', 'bysource', 'groupwise'] | None = None
    exclude_members: EMPTY_T | set[str] | None = None
    private_members: ALL_T | list[str] | None = None
    special_members: ALL_T | list[str] | None = None
    imported_members: Literal[True] | None = None
    ignore_module_all: Literal[True] | None = None
    no_value: Literal[True] | None = None

    # class-like options (class, exception)
    class_doc_from: Literal['both', 'class', 'init'] | None = None

    # assignment-like (data, attribute)
    annotation: SUPPRESS_T | str | None = None

    noindex: Literal[True] | None = None

    def __init__(self, **kwargs: Any) -> None:
        vars(self).update(kwargs)

    def __repr__(self) -> str:
        args = ', '.join(f'{k}={v!r}' for k, v in vars(self).items())
        return f'_AutoDocumenterOptions({args})'

    def __getattr__(self, name: str) -> object:
        return None  # return None for missing attributes

    def copy(self) -> Self:
        return self.__class__(**vars(self))

    @classmethod
    def from_directive_options(cls, opts: Mapping[str, Any], /) -> Self:
        return cls(**{k.replace('-', '_'): v for k, v in opts.items() if v is not None})

    # Mapping interface:

    def __getitem__(self, item: str) -> Any:
        warnings.warn(
            'The mapping interface for autodoc options objects is deprecated, '
            'and will be removed in Sphinx 11. Use attribute access instead.',
            RemovedInSphinx11Warning,
            stacklevel=2,
        )
        try:
            return getattr(self, item)
        except AttributeError:
            raise KeyError(item) from None

    def __setitem__(self, key: str, value: Any) -> None:
        msg = f'{self.__class__.__name__!r} object does not support indexed assignment'
        raise TypeError(msg)

    def __delitem__(self, key: str) -> None:
        msg = f'{self.__class__.__name__!r} object does not support indexed deletion'
        raise TypeError(msg)

    def __contains__(self, item: str) -> bool:
        warnings.warn(
            'The mapping interface for autodoc options objects is deprecated, '
            'and will be removed in Sphinx 11. Use attribute access instead.',
            RemovedInSphinx11Warning,
            stacklevel=2,
        )
        return hasattr(self, item)

    def __keys(self) -> list[str]:
        return [key for key in dir(self) if not key.startswith('_')]

    def __iter__(self) -> Iterator[str]:
        warnings.warn(
            'The mapping interface for autodoc options objects is deprecated, '
            'and will be removed in Sphinx 11. Use attribute access instead.',
            RemovedInSphinx11Warning,
            stacklevel=2,
        )
        yield from self.__keys()

    def __len__(self) -> int:
        warnings.warn(
            'The mapping interface for autodoc options objects is deprecated, '
            'and will be removed in Sphinx 11. Use attribute access instead.',
            RemovedInSphinx11Warning,
            stacklevel=2,
        )
        return len(self.__keys())

    def keys(self) -> Iterable[str]:
        warnings.warn(
            'The mapping interface for autodoc options objects is deprecated, '
            'and will be removed in Sphinx 11. Use attribute access instead.',
            RemovedInSphinx11Warning,
            stacklevel=2,
        )
        yield from self.__keys()

    def items(self) -> Iterable[tuple[str, Any]]:
        warnings.warn(
            'The mapping interface for autodoc options objects is deprecated, '
            'and will be removed in Sphinx 11. Use attribute access instead.',
            RemovedInSphinx11Warning,
            stacklevel=2,
        )
        for key in self.__keys():
            yield key, getattr(self, key)

    def values(self) -> Iterable[Any]:
        warnings.warn(
            'The mapping interface for autodoc options objects is deprecated, '
            'and will be removed in Sphinx 11. Use attribute access instead.',
            RemovedInSphinx11Warning,
            stacklevel=2,
        )
        for key in self.__keys():
            yield getattr(self, key)

    def get(self, key: str, default: Any | None = None) -> Any | None:
        warnings.warn(
            'The mapping interface for autodoc options objects is deprecated, '
            'and will be removed in Sphinx 11. Use attribute access instead.',
            RemovedInSphinx11Warning,
            stacklevel=2,
        )
        try:
            return getattr(self, key)
        except AttributeError:
            return default


def identity(x: Any) -> Any:
    return x


def members_option(arg: str | None) -> ALL_T | list[str] | None:
    """Used to convert the :members: option to auto directives."""
    if arg is None or arg is True:
        return ALL
    if arg is False:
        return None
    return [stripped for x in arg.split(',') if (stripped := x.strip())]


def exclude_members_option(arg: str | None) -> EMPTY_T | set[str]:
    """Used to convert the :exclude-members: option."""
    if arg is None or arg is True:
        return EMPTY
    return {stripped for x in arg.split(',') if (stripped := x.strip())}


def inherited_members_option(arg: str | None) -> set[str]:
    """Used to convert the :inherited-members: option to auto directives."""
    if arg is None or arg is True:
        return {'object'}
    if arg:
        return {x.strip() for x in arg.split(',')}
    return set()


def member_order_option(
    arg: str | None,
) -> Literal['alphabetical', 'bysource', 'groupwise'] | None:
    """Used to convert the :member-order: option to auto directives."""
    if arg is None or arg is True:
        return None
    if arg in {'alphabetical', 'bysource', 'groupwise'}:
        return arg  # type: ignore[return-value]
    raise ValueError(__('invalid value for member-order option: %s') % arg)


def class_doc_from_option(arg: str | None) -> Literal['both', 'class', 'init']:
    """Used to convert the :class-doc-from: option to autoclass directives."""
    if arg in {'both', 'class', 'init'}:
        return arg  # type: ignore[return-value]
    raise ValueError(__('invalid value for class-doc-from option: %s') % arg)


def annotation_option(arg: str | None) -> SUPPRESS_T | str | Literal[False]:
    if arg is None or arg is True:
        # suppress showing the representation of the object
        return SUPPRESS
    return arg


def bool_option(arg: str | None) -> bool:
    """Used to convert flag options to auto directives.  (Instead of
    directives.flag(), which returns None).
    """
    return True


def merge_members_option(options: dict[str, Any]) -> None:
    """Merge :private-members: and :special-members: options to the
    :members: option.
    """
    if options.get('members') is ALL:
        # merging is not needed when members: ALL
        return

    members = options.setdefault('members', [])
    for key in ('private-members', 'special-members'):
        other_members = options.get(key)
        if other_members is not None and other_members is not ALL:
            for member in other_members:
                if member not in members:
                    members.append(member)


_OPTION_SPEC_COMMON: Final[OptionSpec] = {
    'no-index': bool_option,
    'no-index-entry': bool_option,
}
_OPTION_SPEC_HAS_MEMBERS: Final[OptionSpec] = _OPTION_SPEC_COMMON | {
    'members': members_option,
    'exclude-members': exclude_members_option,
    'undoc-members': bool_option,
    'private-members': members_option,
    'special-members': members_option,
    'member-order': member_order_option,
}
_OPTION_SPEC_MODULE_SPECIFIC: Final[OptionSpec] = {
    'ignore-module-all': bool_option,
    'imported-members': bool_option,
    'deprecated': bool_option,
    'platform': identity,
    'synopsis': identity,
}
_OPTION_SPEC_CLASS_SPECIFIC: Final[OptionSpec] = {
    'class-doc-from': class_doc_from_option,
    'show-inheritance': bool_option,
    'inherited-members': inherited_members_option,
}
_OPTION_SPEC_ASSIGNMENT: Final[OptionSpec] = _OPTION_SPEC_COMMON | {
    'annotation': annotation_option,
    'no-value': bool_option,
}
_OPTION_SPEC_DEPRECATED: Final[OptionSpec] = {
    'noindex': bool_option,
}
_OPTION_SPEC_FUNCTION_DEF: Final = _OPTION_SPEC_COMMON | _OPTION_SPEC_DEPRECATED
_OPTION_SPECS: Final[Mapping[_AutodocObjType, OptionSpec]] = {
    'module': _OPTION_SPEC_HAS_MEMBERS
    | _OPTION_SPEC_MODULE_SPECIFIC
    | {'show-inheritance': bool_option}  # special case
    | {'inherited-members': inherited_members_option}  # special case
    | {'no-value': bool_option}  # special case
    | _OPTION_SPEC_DEPRECATED,
    'class': _OPTION_SPEC_HAS_MEMBERS
    | _OPTION_SPEC_CLASS_SPECIFIC
    | _OPTION_SPEC_DEPRECATED,
    'exception': _OPTION_SPEC_HAS_MEMBERS
    | _OPTION_SPEC_CLASS_SPECIFIC
    | _OPTION_SPEC_DEPRECATED,
    'function': _OPTION_SPEC_FUNCTION_DEF,
    'decorator': _OPTION_SPEC_FUNCTION_DEF,
    'method': _OPTION_SPEC_FUNCTION_DEF,
    'property': _OPTION_SPEC_FUNCTION_DEF,
    'attribute': _OPTION_SPEC_ASSIGNMENT | _OPTION_SPEC_DEPRECATED,
    'data': _OPTION_SPEC_ASSIGNMENT | _OPTION_SPEC_DEPRECATED,
    'type': _OPTION_SPEC_ASSIGNMENT,
}


def _process_documenter_options(
    *,
    obj_type: _AutodocObjType,
    default_options: Mapping[str, str | bool],
    options: dict[str, str | None],
) -> _AutoDocumenterOptions:
    """Recognize options of object type from user input."""
    option_spec = _OPTION_SPECS[obj_type]
    for name in AUTODOC_DEFAULT_OPTIONS:
        if name not in option_spec:
            continue

        negated = options.pop(f'no-{name}', True) is None
        if name in default_options and not negated:
            if name in options and isinstance(default_options[name], str):
                # take value from options if present or extend it
                # with autodoc_default_options if necessary
                if name in AUTODOC_EXTENDABLE_OPTIONS:
                    opt_value = options[name]
                    if opt_value is not None and opt_value.startswith('+'):
                        options[name] = f'{default_options[name]},{opt_value[1:]}'
            else:
                options[name] = default_options[name]  # type: ignore[assignment]
        elif (opt_value := options.get(name)) is not None:
            # remove '+' from option argument if there's nothing to merge it with
            options[name] = opt_value.removeprefix('+')

    opts = assemble_option_dict(options.items(), option_spec)  # type: ignore[arg-type]
    return _AutoDocumenterOptions.from_directive_options(opts)
