"""Translation layer between pyproject config and setuptools distribution and
metadata objects.

The distribution and metadata objects are modeled after (an old version of)
core metadata, therefore configs in the format specified for ``pyproject.toml``
need to be processed before being applied.

**PRIVATE MODULE**: API reserved for setuptools internal usage only.
"""

from __future__ import annotations

import logging
import os
from collections.abc import Callable, Mapping
from email.headerregistry import Address
from functools import partial, reduce
from inspect import cleandoc
from itertools import chain
from types import MappingProxyType
from typing import TYPE_CHECKING, Any, TypeVar

from .. import _static
from .._path import StrPath
from ..errors import InvalidConfigError, RemovedConfigError
from ..extension import Extension
from ..warnings import SetuptoolsDeprecationWarning, SetuptoolsWarning

if TYPE_CHECKING:
    from typing import TypeAlias

    from setuptools._importlib import metadata
    from setuptools.dist import Distribution

    from distutils.dist import _OptionsList  # Comes from typeshed


EMPTY: Mapping = MappingProxyType({})  # Immutable dict-like
_ProjectReadmeValue: TypeAlias = str | dict[str, str]
_Correspondence: TypeAlias = Callable[["Distribution", Any, StrPath | None], None]
_T = TypeVar("_T")

_logger = logging.getLogger(__name__)


def apply(dist: Distribution, config: dict, filename: StrPath) -> Distribution:
    """Apply configuration dict read with :func:`read_configuration`"""

    if not config:
        return dist  # short-circuit unrelated pyproject.toml file

    root_dir = os.path.dirname(filename) or "."

    _apply_project_table(dist, config, root_dir)
    _apply_tool_table(dist, config, filename)

    current_directory = os.getcwd()
    os.chdir(root_dir)
    try:
        dist._finalize_requires()
        dist._finalize_license_expression()
        dist._finalize_license_files()
    finally:
        os.chdir(current_directory)

    return dist


def _apply_project_table(dist: Distribution, config: dict, root_dir: StrPath):
    orig_config = config.get("project", {})
    if not orig_config:
        return  # short-circuit

    project_table = {k: _static.attempt_conversion(v) for k, v in orig_config.items()}
    _handle_missing_dynamic(dist, project_table)
    _unify_entry_points(project_table)

    for field, value in project_table.items():
        norm_key = json_compatible_key(field)
        corresp = PYPROJECT_CORRESPONDENCE.get(norm_key, norm_key)
        if callable(corresp):
            corresp(dist, value, root_dir)
        else:
            _set_config(dist, corresp, value)


def _apply_tool_table(dist: Distribution, config: dict, filename: StrPath):
    tool_table = config.get("tool", {}).get("setuptools", {})
    if not tool_table:
        return  # short-circuit

    if "license-files" in tool_table:
        if "license-files" in config.get("project", {}):
            # https://github.com/pypa/setuptools/pull/4837#discussion_r2004983349
            raise InvalidConfigError(
                "'project.license-files' is defined already. "
                "Remove 'tool.setuptools.license-files'."
            )

        pypa_guides = "guides/writing-pyproject-toml/#license-files"
        SetuptoolsDeprecationWarning.emit(
            "'tool.setuptools.license-files' is deprecated in favor of "
            "'project.license-files' (available on setuptools>=77.0.0).",
            see_url=f"https://packaging.python.org/en/latest/{pypa_guides}",
            due_date=(2027, 2, 18),  # Warning introduced on 2025-02-18
        )

    for field, value in tool_table.items():
        norm_key = json_compatible_key(field)

        if norm_key in TOOL_TABLE_REMOVALS:
            suggestion = cleandoc(TOOL_TABLE_REMOVALS[norm_key])
            msg = f"""
            The parameter `tool.setuptools.{field}` was long deprecated
            and has been removed from `pyproject.toml`.
            """
            raise RemovedConfigError("\n".join([cleandoc(msg), suggestion]))

        norm_key = TOOL_TABLE_RENAMES.get(norm_key, norm_key)
        corresp = TOOL_TABLE_CORRESPONDENCE.get(norm_key, norm_key)
        if callable(corresp):
            corresp(dist, value)
        else:
            _set_config(dist, corresp, value)

    _copy_command_options(config, dist, filename)


def _handle_missing_dynamic(dist: Distribution, project_table: dict):
    """Be temporarily forgiving with ``dynamic`` fields not listed in ``dynamic``"""
    dynamic = set(project_table.get("dynamic", []))
    for field, getter in _PREVIOUSLY_DEFINED.items():
        if not (field in project_table or field in dynamic):
            value = getter(dist)
            if value:
                _MissingDynamic.emit(field=field, value=value)
                project_table[field] = _RESET_PREVIOUSLY_DEFINED.get(field)


def json_compatible_key(key: str) -> str:
    """As defined in :pep:`566#json-compatible-metadata`"""
    return key.lower().replace("-", "_")


def _set_config(dist: Distribution, field: str, value: Any):
    val = _PREPROCESS.get(field, _noop)(dist, value)
    setter = getattr(dist.metadata, f"set_{field}", None)
    if setter:
        setter(val)
    elif hasattr(dist.metadata, field) or field in SETUPTOOLS_PATCHES:
        setattr(dist.metadata, field, val)
    else:
        setattr(dist, field, val)


_CONTENT_TYPES = {
    ".md": "text/markdown",
    ".rst": "text/x-rst",
    ".txt": "text/plain",
}


def _guess_content_type(file: str) -> str | None:
    _, ext = os.path.splitext(file.lower())
    if not ext:
        return None

    if ext in _CONTENT_TYPES:
        return _static.Str(_CONTENT_TYPES[ext])

    valid = ", ".join(f"{k} ({v})" for k, v in _CONTENT_TYPES.items())
    msg = f"only the following file extensions are recognized: {valid}."
    raise ValueError(f"Undefined content type for {file}, {msg}")


def _long_description(
    dist: Distribution, val: _ProjectReadmeValue, root_dir: StrPath | None
):
    from setuptools.config import expand

    file: str | tuple[()]
    if isinstance(val, str):
        file = val
        text = expand.read_files(file, root_dir)
        ctype = _guess_content_type(file)
    else:
        file = val.get("file") or ()
        text = val.get("text") or expand.read_files(file, root_dir)
        ctype = val["content-type"]

    # XXX: Is it completely safe to assume static?
    _set_config(dist, "long_description", _static.Str(text))

    if ctype:
        _set_config(dist, "long_description_content_type", _static.Str(ctype))

    if file:
        dist._referenced_files.add(file)


def _license(dist: Distribution, val: str | dict, root_dir: StrPath | None):
    from setuptools.config import expand

    if isinstance(val, str):
        if getattr(dist.metadata, "license", None):
            SetuptoolsWarning.emit("`license` overwritten by `pyproject.toml`")
            dist.metadata.license = None
        _set_config(dist, "license_expression", _static.Str(val))
    else:
        pypa_guides = "guides/writing-pyproject-toml/#license"
        SetuptoolsDeprecationWarning.emit(
            "`project.license` as a TOML table is deprecated",
            "Please use a simple string containing a SPDX expression for "
            "`project.license`. You can also use `project.license-files`. "
            "(Both options available on setuptools>=77.0.0).",
            see_url=f"https://packaging.python.org/en/latest/{pypa_guides}",
            due_date=(2027, 2, 18),  # Introduced on 2025-02-18
        )
        if "file" in val:
            # XXX: Is it completely safe to assume static?
            value = expand.read_files([val["file"]], root_dir)
            _set_config(dist, "license", _static.Str(value))
            dist._referenced_files.add(val["file"])
        else:
            _set_config(dist, "license", _static.Str(val["text"]))


def _people(dist: Distribution, val: list[dict], _root_dir: StrPath | None, kind: str):
    field = []
    email_field = []
    for person in val:
        if "name" not in person:
            email_field.append(person["email"])
        elif "email" not in person:
            field.append(person["name"])
        else:
            addr = Address(display_name=person["name"], addr_spec=person["email"])
            email_field.append(str(addr))

    if field:
        _set_config(dist, kind, _static.Str(", ".join(field)))
    if email_field:
        _set_config(dist, f"{kind}_email", _static.Str(", ".join(email_field)))


def _project_urls(dist: Distribution, val: dict, _root_dir: StrPath | None):
    _set_config(dist, "project_urls", val)


def _python_requires(dist: Distribution, val: str, _root_dir: StrPath | None):
    _set_config(dist, "python_requires", _static.SpecifierSet(val))


def _dependencies(dist: Distribution, val: list, _root_dir: StrPath | None):
    if getattr(dist, "install_requires", []):
        msg = "`install_requires` overwritten in `pyproject.toml` (dependencies)"
        SetuptoolsWarning.emit(msg)
    dist.install_requires = val


def _optional_dependencies(dist: Distribution, val: dict, _root_dir: StrPath | None):
    if getattr(dist, "extras_require", None):
        msg = "`extras_require` overwritten in `pyproject.toml` (optional-dependencies)"
        SetuptoolsWarning.emit(msg)
    dist.extras_require = val


def _ext_modules(dist: Distribution, val: list[dict]) -> list[Extension]:
    existing = dist.ext_modules or []
    args = ({k.replace("-", "_"): v for k, v in x.items()} for x in val)
    new = (Extension(**_adjust_ext_attrs(kw)) for kw in args)
    return [*existing, *new]


def _adjust_ext_attrs(attrs: dict) -> dict:
    # https://github.com/pypa/setuptools/issues/4810
    # In TOML there is no differentiation between tuples and lists,
    # and distutils requires tuples...
    attrs["define_macros"] = list(map(tuple, attrs.get("define_macros") or []))
    return attrs


def _noop(_dist: Distribution, val: _T) -> _T:
    return val


def _identity(val: _T) -> _T:
    return val


def _unify_entry_points(project_table: dict):
    project = project_table
    given = project.pop("entry-points", project.pop("entry_points", {}))
    entry_points = dict(given)  # Avoid problems with static
    renaming = {"scripts": "console_scripts", "gui_scripts": "gui_scripts"}
    for key, value in list(project.items()):  # eager to allow modifications
        norm_key = json_compatible_key(key)
        if norm_key in renaming:
            # Don't skip even if value is empty (reason: reset missing `dynamic`)
            entry_points[renaming[norm_key]] = project.pop(key)

    if entry_points:
        project["entry-points"] = {
            name: [f"{k} = {v}" for k, v in group.items()]
            for name, group in entry_points.items()
            if group  # now we can skip empty groups
        }
        # Sometimes this will set `project["entry-points"] = {}`, and that is
        # intentional (for resetting configurations that are missing `dynamic`).


def _copy_command_options(pyproject: dict, dist: Distribution, filename: StrPath):
    tool_table = pyproject.get("tool", {})
    cmdclass = tool_table.get("setuptools", {}).get("cmdclass", {})
    valid_options = _valid_command_options(cmdclass)

    cmd_opts = dist.command_options
    for cmd, config in pyproject.get("tool", {}).get("distutils", {}).items():
        cmd = json_compatible_key(cmd)
        valid = valid_options.get(cmd, set())
        cmd_opts.setdefault(cmd, {})
        for key, value in config.items():
            key = json_compatible_key(key)
            cmd_opts[cmd][key] = (str(filename), value)
            if key not in valid:
                # To avoid removing options that are specified dynamically we
                # just log a warn...
                _logger.warning(f"Command option {cmd}.{key} is not defined")


def _valid_command_options(cmdclass: Mapping = EMPTY) -> dict[str, set[str]]:
    from setuptools.dist import Distribution

    from .._importlib import metadata

    valid_options = {"global": _normalise_cmd_options(Distribution.global_options)}

    unloaded_entry_points = metadata.entry_points(group='distutils.commands')
    loaded_entry_points = (_load_ep(ep) for ep in unloaded_entry_points)
    entry_points = (ep for ep in loaded_entry_points if ep)
    for cmd, cmd_class in chain(entry_points, cmdclass.items()):
        opts = valid_options.get(cmd, set())
        opts = opts | _normalise_cmd_options(getattr(cmd_class, "user_options", []))
        valid_options[cmd] = opts

    return valid_options


def _load_ep(ep: metadata.EntryPoint) -> tuple[str, type] | None:
    if ep.value.startswith("wheel.bdist_wheel"):
        # Ignore deprecated entrypoint from wheel and avoid warning pypa/wheel#631
        # TODO: remove check when `bdist_wheel` has been fully removed from pypa/wheel
        return None

    # Ignore all the errors
    try:
        return (ep.name, ep.load())
    except Exception as ex:  # noqa: BLE001 # intentional broad fallback
        msg = f"{ex.__class__.__name__} while trying to load entry-point {ep.name}"
        _logger.warning(f"{msg}: {ex}")
        return None


def _normalise_cmd_option_key(name: str) -> str:
    return json_compatible_key(name).strip("_=")


def _normalise_cmd_options(desc: _OptionsList) -> set[str]:
    return {_normalise_cmd_option_key(fancy_option[0]) for fancy_option in desc}


def _get_previous_entrypoints(dist: Distribution) -> dict[str, list]:
    ignore = ("console_scripts", "gui_scripts")
    value = getattr(dist, "entry_points", None) or {}
    return {k: v for k, v in value.items() if k not in ignore}


def _get_previous_scripts(dist: Distribution) -> list | None:
    value = getattr(dist, "entry_points", None) or {}
    return value.get("console_scripts")


def _get_previous_gui_scripts(dist: Distribution) -> list | None:
    value = getattr(dist, "entry_points", None) or {}
    return value.get("gui_scripts")


def _set_static_list_metadata(attr: str, dist: Distribution, val: list) -> None:
    """Apply distutils metadata validation but preserve "static" behaviour"""
    meta = dist.metadata
    setter, getter = getattr(meta, f"set_{attr}"), getattr(meta, f"get_{attr}")
    setter(val)
    setattr(meta, attr, _static.List(getter()))


def _attrgetter(attr):
    """
    Similar to ``operator.attrgetter`` but returns None if ``attr`` is not found
    >>> from types import SimpleNamespace
    >>> obj = SimpleNamespace(a=42, b=SimpleNamespace(c=13))
    >>> _attrgetter("a")(obj)
    42
    >>> _attrgetter("b.c")(obj)
    13
    >>> _attrgetter("d")(obj) is None
    True
    """
    return partial(reduce, lambda acc, x: getattr(acc, x, None), attr.split("."))


def _some_attrgetter(*items):
    """
    Return the first "truth-y" attribute or None
    >>> from types import SimpleNamespace
    >>> obj = SimpleNamespace(a=42, b=SimpleNamespace(c=13))
    >>> _some_attrgetter("d", "a", "b.c")(obj)
    42
    >>> _some_attrgetter("d", "e", "b.c", "a")(obj)
    13
    >>> _some_attrgetter("d", "e", "f")(obj) is None
    True
    """

    def _acessor(obj):
        values = (_attrgetter(i)(obj) for i in items)
        return next((i for i in values if i is not None), None)

    return _acessor


PYPROJECT_CORRESPONDENCE: dict[str, _Correspondence] = {
    "readme": _long_description,
    "license": _license,
    "authors": partial(_people, kind="author"),
    "maintainers": partial(_people, kind="maintainer"),
    "urls": _project_urls,
    "dependencies": _dependencies,
    "optional_dependencies": _optional_dependencies,
    "requires_python": _python_requires,
}

TOOL_TABLE_RENAMES = {"script_files": "scripts"}
TOOL_TABLE_REMOVALS = {
    "namespace_packages": """
        Please migrate to implicit native namespaces instead.
        See https://packaging.python.org/en/latest/guides/packaging-namespace-packages/.
        """,
}
TOOL_TABLE_CORRESPONDENCE = {
    # Fields with corresponding core metadata need to be marked as static:
    "obsoletes": partial(_set_static_list_metadata, "obsoletes"),
    "provides": partial(_set_static_list_metadata, "provides"),
    "platforms": partial(_set_static_list_metadata, "platforms"),
}

SETUPTOOLS_PATCHES = {
    "long_description_content_type",
    "project_urls",
    "provides_extras",
    "license_file",
    "license_files",
    "license_expression",
}

_PREPROCESS = {
    "ext_modules": _ext_modules,
}

_PREVIOUSLY_DEFINED = {
    "name": _attrgetter("metadata.name"),
    "version": _attrgetter("metadata.version"),
    "description": _attrgetter("metadata.description"),
    "readme": _attrgetter("metadata.long_description"),
    "requires-python": _some_attrgetter("python_requires", "metadata.python_requires"),
    "license": _some_attrgetter("metadata.license_expression", "metadata.license"),
    # XXX: `license-file` is currently not considered in the context of `dynamic`.
    #      See TestPresetField.test_license_files_exempt_from_dynamic
    "authors": _some_attrgetter("metadata.author", "metadata.author_email"),
    "maintainers": _some_attrgetter("metadata.maintainer", "metadata.maintainer_email"),
    "keywords": _attrgetter("metadata.keywords"),
    "classifiers": _attrgetter("metadata.classifiers"),
    "urls": _attrgetter("metadata.project_urls"),
    "entry-points": _get_previous_entrypoints,
    "scripts": _get_previous_scripts,
    "gui-scripts": _get_previous_gui_scripts,
    "dependencies": _attrgetter("install_requires"),
    "optional-dependencies": _attrgetter("extras_require"),
}


_RESET_PREVIOUSLY_DEFINED: dict = {
    # Fix improper setting: given in `setup.py`, but not listed in `dynamic`
    # Use "immutable" data structures to avoid in-place modification.
    # dict: pyproject name => value to which reset
    "license": "",
    # XXX: `license-file` is currently not considered in the context of `dynamic`.
    #      See TestPresetField.test_license_files_exempt_from_dynamic
    "authors": _static.EMPTY_LIST,
    "maintainers": _static.EMPTY_LIST,
    "keywords": _static.EMPTY_LIST,
    "classifiers": _static.EMPTY_LIST,
    "urls": _static.EMPTY_DICT,
    "entry-points": _static.EMPTY_DICT,
    "scripts": _static.EMPTY_DICT,
    "gui-scripts": _static.EMPTY_DICT,
    "dependencies": _static.EMPTY_LIST,
    "optional-dependencies": _static.EMPTY_DICT,
}


class _MissingDynamic(SetuptoolsWarning):
    _SUMMARY = "`{field}` defined outside of `pyproject.toml` is ignored."

    _DETAILS = """
    The following seems to be defined outside of `pyproject.toml`:

    `{field} = {value!r}`

    According to the spec (see the link below), however, setuptools CANNOT
    consider this value unless `{field}` is listed as `dynamic`.

    https://packaging.python.org/en/latest/specifications/pyproject-toml/#declaring-project-metadata-the-project-table

    To prevent this problem, you can list `{field}` under `dynamic` or alternatively
    remove the `[project]` table from your file and rely entirely on other means of
    configuration.
    """
    # TODO: Consider removing this check in the future?
    #       There is a trade-off here between improving "debug-ability" and the cost
    #       of running/testing/maintaining these unnecessary checks...

    @classmethod
    def details(cls, field: str, value: Any) -> str:
        return cls._DETAILS.format(field=field, value=value)
