"""Windows."""

from __future__ import annotations

import os
import sys
from functools import cache
from pathlib import Path
from typing import TYPE_CHECKING, Final

from .api import PlatformDirsABC

if TYPE_CHECKING:
    from collections.abc import Callable

# Not exposed by CPython; defined in the Windows SDK (shlobj_core.h)
_KF_FLAG_DONT_VERIFY: Final[int] = 0x00004000


class Windows(PlatformDirsABC):  # ruff:ignore[too-many-public-methods]
    """`MSDN on where to store app data files <https://learn.microsoft.com/en-us/windows/win32/shell/knownfolderid>`_.

    Makes use of the `appname <platformdirs.api.PlatformDirsABC.appname>`, `appauthor
    <platformdirs.api.PlatformDirsABC.appauthor>`, `version <platformdirs.api.PlatformDirsABC.version>`, `roaming
    <platformdirs.api.PlatformDirsABC.roaming>`, `opinion <platformdirs.api.PlatformDirsABC.opinion>`, `ensure_exists
    <platformdirs.api.PlatformDirsABC.ensure_exists>`.

    """

    @property
    def user_data_dir(self) -> str:
        r"""Data directory tied to the user, e.g. ``%USERPROFILE%\AppData\Local\$appauthor\$appname`` (not roaming) or ``%USERPROFILE%\AppData\Roaming\$appauthor\$appname`` (roaming)."""
        const = "CSIDL_APPDATA" if self.roaming else "CSIDL_LOCAL_APPDATA"
        path = os.path.normpath(get_win_folder(const))
        return self._append_parts(path)

    def _append_parts(self, path: str, *, opinion_value: str | None = None) -> str:
        params = []
        if self.appname:
            if self.appauthor is not False:
                author = self.appauthor or self.appname
                params.append(author)
            params.append(self.appname)
            if opinion_value is not None and self.opinion:
                params.append(opinion_value)
            if self.version:
                params.append(self.version)
        path = os.path.join(path, *params)  # ruff:ignore[os-path-join]
        self._optionally_create_directory(path)
        return path

    @property
    def site_data_dir(self) -> str:
        r"""Data directory shared by users, e.g. ``C:\ProgramData\$appauthor\$appname``."""
        path = os.path.normpath(get_win_folder("CSIDL_COMMON_APPDATA"))
        return self._append_parts(path)

    @property
    def user_config_dir(self) -> str:
        """Config directory tied to the user, same as `user_data_dir`."""
        return self.user_data_dir

    @property
    def site_config_dir(self) -> str:
        """Config directory shared by users, same as `site_data_dir`."""
        return self.site_data_dir

    @property
    def user_cache_dir(self) -> str:
        r"""Cache directory tied to the user (if opinionated with ``Cache`` folder within ``$appname``) e.g. ``%USERPROFILE%\AppData\Local\$appauthor\$appname\Cache\$version``."""
        path = os.path.normpath(get_win_folder("CSIDL_LOCAL_APPDATA"))
        return self._append_parts(path, opinion_value="Cache")

    @property
    def site_cache_dir(self) -> str:
        r"""Cache directory shared by users, e.g. ``C:\ProgramData\$appauthor\$appname\Cache\$version``."""
        path = os.path.normpath(get_win_folder("CSIDL_COMMON_APPDATA"))
        return self._append_parts(path, opinion_value="Cache")

    @property
    def user_state_dir(self) -> str:
        """State directory tied to the user, same as `user_data_dir`."""
        return self.user_data_dir

    @property
    def site_state_dir(self) -> str:
        """State directory shared by users, same as `site_data_dir`."""
        return self.site_data_dir

    @property
    def user_log_dir(self) -> str:
        """Log directory tied to the user, same as `user_data_dir` if not opinionated else ``Logs`` in it."""
        path = self.user_data_dir
        if self.opinion:
            path = os.path.join(path, "Logs")  # ruff:ignore[os-path-join]
            self._optionally_create_directory(path)
        return path

    @property
    def site_log_dir(self) -> str:
        """Log directory shared by users, same as `site_data_dir` if not opinionated else ``Logs`` in it."""
        path = self.site_data_dir
        if self.opinion:
            path = os.path.join(path, "Logs")  # ruff:ignore[os-path-join]
            self._optionally_create_directory(path)
        return path

    @property
    def user_documents_dir(self) -> str:
        r"""Documents directory tied to the user e.g. ``%USERPROFILE%\Documents``."""
        return os.path.normpath(get_win_folder("CSIDL_PERSONAL"))

    @property
    def user_downloads_dir(self) -> str:
        r"""Downloads directory tied to the user e.g. ``%USERPROFILE%\Downloads``."""
        return os.path.normpath(get_win_folder("CSIDL_DOWNLOADS"))

    @property
    def user_pictures_dir(self) -> str:
        r"""Pictures directory tied to the user e.g. ``%USERPROFILE%\Pictures``."""
        return os.path.normpath(get_win_folder("CSIDL_MYPICTURES"))

    @property
    def user_videos_dir(self) -> str:
        r"""Videos directory tied to the user e.g. ``%USERPROFILE%\Videos``."""
        return os.path.normpath(get_win_folder("CSIDL_MYVIDEO"))

    @property
    def user_music_dir(self) -> str:
        r"""Music directory tied to the user e.g. ``%USERPROFILE%\Music``."""
        return os.path.normpath(get_win_folder("CSIDL_MYMUSIC"))

    @property
    def user_desktop_dir(self) -> str:
        r"""Desktop directory tied to the user, e.g. ``%USERPROFILE%\Desktop``."""
        return os.path.normpath(get_win_folder("CSIDL_DESKTOPDIRECTORY"))

    @property
    def user_projects_dir(self) -> str:
        r"""Projects directory tied to the user, e.g. ``%USERPROFILE%\Projects``."""
        return os.path.normpath(os.path.expanduser("~/Projects"))  # ruff:ignore[os-path-expanduser]

    @property
    def user_publicshare_dir(self) -> str:
        r"""Public share directory e.g. ``C:\Users\Public``."""
        return os.path.normpath(os.environ.get("PUBLIC", str(Path("~").expanduser().parent / "Public")))

    @property
    def user_templates_dir(self) -> str:
        r"""Templates directory tied to the user e.g. ``%APPDATA%\Microsoft\Windows\Templates``."""
        return os.path.normpath(str(Path(get_win_folder("CSIDL_APPDATA")) / "Microsoft" / "Windows" / "Templates"))

    @property
    def user_fonts_dir(self) -> str:
        r"""Fonts directory tied to the user e.g. ``%LOCALAPPDATA%\Microsoft\Windows\Fonts``."""
        return os.path.normpath(str(Path(get_win_folder("CSIDL_LOCAL_APPDATA")) / "Microsoft" / "Windows" / "Fonts"))

    @property
    def user_preference_dir(self) -> str:
        r"""Preference directory tied to the user, same as ``user_config_dir``."""
        return self.user_config_dir

    @property
    def user_bin_dir(self) -> str:
        r"""Bin directory tied to the user, e.g. ``%LOCALAPPDATA%\Programs``."""
        return os.path.normpath(os.path.join(get_win_folder("CSIDL_LOCAL_APPDATA"), "Programs"))  # ruff:ignore[os-path-join]

    @property
    def site_bin_dir(self) -> str:
        r"""Bin directory shared by users, e.g. ``C:\ProgramData\bin``."""
        return os.path.normpath(os.path.join(get_win_folder("CSIDL_COMMON_APPDATA"), "bin"))  # ruff:ignore[os-path-join]

    @property
    def user_applications_dir(self) -> str:
        r"""Applications directory tied to the user, e.g. ``Start Menu\Programs``."""
        return os.path.normpath(get_win_folder("CSIDL_PROGRAMS"))

    @property
    def site_applications_dir(self) -> str:
        r"""Applications directory shared by users, e.g. ``C:\ProgramData\Microsoft\Windows\Start Menu\Programs``."""
        return os.path.normpath(get_win_folder("CSIDL_COMMON_PROGRAMS"))

    @property
    def user_runtime_dir(self) -> str:
        r"""Runtime directory tied to the user, e.g. ``%USERPROFILE%\AppData\Local\Temp\$appauthor\$appname``."""
        path = os.path.normpath(os.path.join(get_win_folder("CSIDL_LOCAL_APPDATA"), "Temp"))  # ruff:ignore[os-path-join]
        return self._append_parts(path)

    @property
    def site_runtime_dir(self) -> str:
        """Runtime directory shared by users, same as `user_runtime_dir`."""
        return self.user_runtime_dir


def get_win_folder_from_env_vars(csidl_name: str) -> str:
    """Get folder from environment variables."""
    result = get_win_folder_if_csidl_name_not_env_var(csidl_name)
    if result is not None:
        return result

    env_var_name = {
        "CSIDL_APPDATA": "APPDATA",
        "CSIDL_COMMON_APPDATA": "ALLUSERSPROFILE",
        "CSIDL_LOCAL_APPDATA": "LOCALAPPDATA",
    }.get(csidl_name)
    if env_var_name is None:
        msg = f"Unknown CSIDL name: {csidl_name}"
        raise ValueError(msg)
    result = os.environ.get(env_var_name)
    if result is None:
        msg = f"Unset environment variable: {env_var_name}"
        raise ValueError(msg)
    return result


def get_win_folder_if_csidl_name_not_env_var(csidl_name: str) -> str | None:  # ruff:ignore[too-many-return-statements]
    """Get a folder for a CSIDL name that does not exist as an environment variable."""
    if csidl_name == "CSIDL_PERSONAL":
        return os.path.join(os.path.normpath(os.environ["USERPROFILE"]), "Documents")  # ruff:ignore[os-path-join]

    if csidl_name == "CSIDL_DOWNLOADS":
        return os.path.join(os.path.normpath(os.environ["USERPROFILE"]), "Downloads")  # ruff:ignore[os-path-join]

    if csidl_name == "CSIDL_MYPICTURES":
        return os.path.join(os.path.normpath(os.environ["USERPROFILE"]), "Pictures")  # ruff:ignore[os-path-join]

    if csidl_name == "CSIDL_MYVIDEO":
        return os.path.join(os.path.normpath(os.environ["USERPROFILE"]), "Videos")  # ruff:ignore[os-path-join]

    if csidl_name == "CSIDL_MYMUSIC":
        return os.path.join(os.path.normpath(os.environ["USERPROFILE"]), "Music")  # ruff:ignore[os-path-join]

    if csidl_name == "CSIDL_DESKTOPDIRECTORY":
        return os.path.join(os.path.normpath(os.environ["USERPROFILE"]), "Desktop")  # ruff:ignore[os-path-join]

    if csidl_name == "CSIDL_PROGRAMS":
        return os.path.join(  # ruff:ignore[os-path-join]
            os.path.normpath(os.environ["APPDATA"]),
            "Microsoft",
            "Windows",
            "Start Menu",
            "Programs",
        )

    if csidl_name == "CSIDL_COMMON_PROGRAMS":
        return os.path.join(  # ruff:ignore[os-path-join]
            os.path.normpath(os.environ.get("PROGRAMDATA", os.environ.get("ALLUSERSPROFILE", "C:\\ProgramData"))),
            "Microsoft",
            "Windows",
            "Start Menu",
            "Programs",
        )
    return None


def get_win_folder_from_registry(csidl_name: str) -> str:
    """Get folder from the registry.

    This is a fallback technique at best. I'm not sure if using the registry for these guarantees us the correct answer
    for all CSIDL_* names.

    """
    machine_names = {
        "CSIDL_COMMON_APPDATA",
        "CSIDL_COMMON_PROGRAMS",
    }
    shell_folder_name = {
        "CSIDL_APPDATA": "AppData",
        "CSIDL_COMMON_APPDATA": "Common AppData",
        "CSIDL_LOCAL_APPDATA": "Local AppData",
        "CSIDL_PERSONAL": "Personal",
        "CSIDL_DOWNLOADS": "{374DE290-123F-4565-9164-39C4925E467B}",
        "CSIDL_MYPICTURES": "My Pictures",
        "CSIDL_MYVIDEO": "My Video",
        "CSIDL_MYMUSIC": "My Music",
        "CSIDL_DESKTOPDIRECTORY": "Desktop",
        "CSIDL_PROGRAMS": "Programs",
        "CSIDL_COMMON_PROGRAMS": "Common Programs",
    }.get(csidl_name)
    if shell_folder_name is None:
        msg = f"Unknown CSIDL name: {csidl_name}"
        raise ValueError(msg)
    if sys.platform != "win32":  # only needed for mypy type checker to know that this code runs only on Windows
        raise NotImplementedError
    import winreg  # ruff:ignore[import-outside-top-level]

    # Use HKEY_LOCAL_MACHINE for system-wide folders, HKEY_CURRENT_USER for user-specific folders
    hkey = winreg.HKEY_LOCAL_MACHINE if csidl_name in machine_names else winreg.HKEY_CURRENT_USER

    with winreg.OpenKey(hkey, r"Software\Microsoft\Windows\CurrentVersion\Explorer\Shell Folders") as key:
        directory, _ = winreg.QueryValueEx(key, shell_folder_name)
    return str(directory)


_KNOWN_FOLDER_GUIDS: dict[str, str] = {
    "CSIDL_APPDATA": "{3EB685DB-65F9-4CF6-A03A-E3EF65729F3D}",
    "CSIDL_COMMON_APPDATA": "{62AB5D82-FDC1-4DC3-A9DD-070D1D495D97}",
    "CSIDL_LOCAL_APPDATA": "{F1B32785-6FBA-4FCF-9D55-7B8E7F157091}",
    "CSIDL_PERSONAL": "{FDD39AD0-238F-46AF-ADB4-6C85480369C7}",
    "CSIDL_MYPICTURES": "{33E28130-4E1E-4676-835A-98395C3BC3BB}",
    "CSIDL_MYVIDEO": "{18989B1D-99B5-455B-841C-AB7C74E4DDFC}",
    "CSIDL_MYMUSIC": "{4BD8D571-6D19-48D3-BE97-422220080E43}",
    "CSIDL_DOWNLOADS": "{374DE290-123F-4565-9164-39C4925E467B}",
    "CSIDL_DESKTOPDIRECTORY": "{B4BFCC3A-DB2C-424C-B029-7FE99A87C641}",
    "CSIDL_PROGRAMS": "{A77F5D77-2E2B-44C3-A6A2-ABA601054A51}",
    "CSIDL_COMMON_PROGRAMS": "{0139D44E-6AFE-49F2-8690-3DAFCAE6FFB8}",
}


@cache
def _build_get_win_folder_via_ctypes() -> Callable[[str], str]:
    """Build the resolver once; a fresh ``_GUID`` per call leaks ctypes pointer types.

    See https://github.com/tox-dev/platformdirs/issues/501.

    """
    if sys.platform != "win32":  # only needed for type checker to know that this code runs only on Windows
        raise NotImplementedError
    from ctypes import (  # ruff:ignore[import-outside-top-level]
        HRESULT,
        POINTER,
        Structure,
        WinDLL,
        byref,
        create_unicode_buffer,
        wintypes,
    )

    class _GUID(Structure):
        _fields_ = [
            ("Data1", wintypes.DWORD),
            ("Data2", wintypes.WORD),
            ("Data3", wintypes.WORD),
            ("Data4", wintypes.BYTE * 8),
        ]

    ole32 = WinDLL("ole32")
    ole32.CLSIDFromString.restype = HRESULT
    ole32.CLSIDFromString.argtypes = [wintypes.LPCOLESTR, POINTER(_GUID)]
    ole32.CoTaskMemFree.restype = None
    ole32.CoTaskMemFree.argtypes = [wintypes.LPVOID]

    shell32 = WinDLL("shell32")
    shell32.SHGetKnownFolderPath.restype = HRESULT
    shell32.SHGetKnownFolderPath.argtypes = [POINTER(_GUID), wintypes.DWORD, wintypes.HANDLE, POINTER(wintypes.LPWSTR)]

    kernel32 = WinDLL("kernel32")
    kernel32.GetShortPathNameW.restype = wintypes.DWORD
    kernel32.GetShortPathNameW.argtypes = [wintypes.LPWSTR, wintypes.LPWSTR, wintypes.DWORD]

    def resolve(csidl_name: str) -> str:
        folder_guid = _KNOWN_FOLDER_GUIDS.get(csidl_name)
        if folder_guid is None:
            msg = f"Unknown CSIDL name: {csidl_name}"
            raise ValueError(msg)

        guid = _GUID()
        ole32.CLSIDFromString(folder_guid, byref(guid))

        path_ptr = wintypes.LPWSTR()
        shell32.SHGetKnownFolderPath(byref(guid), _KF_FLAG_DONT_VERIFY, None, byref(path_ptr))
        result = path_ptr.value
        ole32.CoTaskMemFree(path_ptr)

        if result is None:
            msg = f"SHGetKnownFolderPath returned NULL for {csidl_name}"
            raise ValueError(msg)

        if any(ord(c) > 255 for c in result):  # ruff:ignore[magic-value-comparison]
            buf = create_unicode_buffer(1024)
            if kernel32.GetShortPathNameW(result, buf, 1024):
                result = buf.value

        return result

    return resolve


def get_win_folder_via_ctypes(csidl_name: str) -> str:
    """Get folder via :func:`SHGetKnownFolderPath`.

    See https://learn.microsoft.com/en-us/windows/win32/api/shlobj_core/nf-shlobj_core-shgetknownfolderpath.

    """
    return _build_get_win_folder_via_ctypes()(csidl_name)


def _pick_get_win_folder() -> Callable[[str], str]:
    """Select the best method to resolve Windows folder paths: ctypes, then registry, then environment variables."""
    try:
        import ctypes  # ruff:ignore[import-outside-top-level, unused-import]
    except ImportError:
        pass
    else:
        return get_win_folder_via_ctypes
    try:
        import winreg  # ruff:ignore[import-outside-top-level, unused-import]
    except ImportError:
        return get_win_folder_from_env_vars
    else:
        return get_win_folder_from_registry


_resolve_win_folder = _pick_get_win_folder()


def get_win_folder(csidl_name: str) -> str:
    """Get a Windows folder path, checking for ``WIN_PD_OVERRIDE_*`` environment variable overrides first.

    For example, ``CSIDL_LOCAL_APPDATA`` can be overridden by setting ``WIN_PD_OVERRIDE_LOCAL_APPDATA``.

    """
    env_var = f"WIN_PD_OVERRIDE_{csidl_name.removeprefix('CSIDL_')}"
    if override := os.environ.get(env_var, "").strip():
        return override
    return _resolve_win_folder(csidl_name)


__all__ = [
    "Windows",
]
