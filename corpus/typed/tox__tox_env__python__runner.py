"""A tox run environment that handles the Python language."""

from __future__ import annotations

import logging
from abc import ABC
from functools import partial
from typing import TYPE_CHECKING, Literal, TypeAlias, get_args

from packaging.utils import canonicalize_name

from tox.config.loader.str_convert import StrConvert
from tox.config.types import Command
from tox.execute import Outcome
from tox.report import HandledError
from tox.session.cmd.run.single import run_command_set
from tox.tox_env.errors import Fail, Skip
from tox.tox_env.python.pip.req_file import PythonDeps
from tox.tox_env.python.pylock import Pylock
from tox.tox_env.runner import RunToxEnv

from .api import Python
from .dependency_groups import resolve as resolve_dependency_groups
from .extras import resolve_extras_static

PackageType: TypeAlias = Literal[
    "wheel", "sdist", "sdist-wheel", "editable", "editable-legacy", "deps-only", "skip", "external"
]
"""Package installation modes tox itself supports; subclasses may define additional ones."""


if TYPE_CHECKING:
    from pathlib import Path

    from tox.config.cli.parser import Parsed
    from tox.config.main import Config
    from tox.config.sets import CoreConfigSet, EnvConfigSet
    from tox.tox_env.api import ToxEnvCreateArgs
    from tox.tox_env.package import Package


class PythonRun(Python, RunToxEnv, ABC):
    def __init__(self, create_args: ToxEnvCreateArgs) -> None:
        super().__init__(create_args)

    def register_config(self) -> None:
        super().register_config()
        root = self.core["toxinidir"]
        self.conf.add_config(
            keys=["deps"],
            of_type=PythonDeps,
            factory=partial(PythonDeps.factory, root),
            default=PythonDeps("", root),
            desc="python dependencies with optional version specifiers, as specified by PEP-440",
        )
        self.conf.add_config(
            keys=["dependency_groups"],
            of_type=set[str],
            default=set(),
            desc="dependency groups to install of the target package",
            post_process=_normalize_extras,
        )
        self.conf.add_config(
            keys=["extras"],
            of_type=set[str],
            default=set(),
            desc="extras to install of the target package",
            post_process=_normalize_extras,
        )

        def _validate_pylock_not_with_deps(value: str) -> str:
            if value and self.conf["deps"].lines():
                msg = "cannot use both 'deps' and 'pylock' in the same environment"
                raise Fail(msg)
            return value

        self.conf.add_config(
            keys=["pylock"],
            of_type=str,
            default="",
            desc="PEP 751 pylock.toml lock file path to install locked dependencies from",
            post_process=_validate_pylock_not_with_deps,
        )
        self.conf.add_config(
            keys=["extra_setup_commands"],
            of_type=list[Command],
            default=[],
            desc="commands to execute after setup (deps and package install) but before test commands",
        )
        add_skip_missing_interpreters_to_core(self.core, self.options)
        add_skip_missing_interpreters_to_env(self.conf, self.core, self.options)

    @property
    def _package_types(self) -> tuple[str, ...]:
        # tuple[str, ...] rather than tuple[PackageType, ...] so subclasses can add their own package types
        return get_args(PackageType)

    def _register_package_conf(self) -> bool:
        # provision package type
        desc = f"package installation mode - {' | '.join(i for i in self._package_types)} "
        if not super()._register_package_conf():
            self.conf.add_constant(["package"], desc, "skip")
            return False
        if getattr(self.options, "install_pkg", None) is not None:
            self.conf.add_constant(["package"], desc, "external")
        else:
            self.conf.add_config(
                keys=["use_develop", "usedevelop"],
                desc="use develop mode",
                default=False,
                of_type=bool,
            )
            develop_mode = self.conf["use_develop"] or getattr(self.options, "develop", False)
            if develop_mode:
                self.conf.add_constant(["package"], desc, "editable")
            else:
                self.conf.add_config(keys="package", of_type=str, default=self.default_pkg_type, desc=desc)

        return self.pkg_type != "skip"

    @property
    def default_pkg_type(self) -> str:
        return "sdist"

    @property
    def pkg_type(self) -> str:
        pkg_type: str = self.conf["package"]
        if pkg_type not in self._package_types:
            values = ", ".join(self._package_types)
            msg = f"invalid package config type {pkg_type} requested, must be one of {values}"
            raise HandledError(msg)
        return pkg_type

    def _setup_pkg(self) -> None:
        if self.pkg_type == "deps-only":
            self._install_package_deps_only()
            return
        super()._setup_pkg()

    def _install_package_deps_only(self) -> None:
        extras: set[str] = self.conf["extras"]
        root: Path = self.core["package_root"]
        if (deps := resolve_extras_static(root, extras)) is None:
            package_env = self.package_env
            assert package_env is not None  # ruff:ignore[assert]
            with package_env.display_context(self._has_display_suspended):
                deps = package_env.load_deps_for_env(self.conf)
        if deps and not self.options.package_only:
            self._install(deps, PythonRun.__name__, "package_deps")

    def _setup_env(self) -> None:
        super()._setup_env()
        if getattr(self.options, "skip_env_install", False):
            logging.warning("skip installing dependencies and package")
            return
        if self.conf["pylock"]:
            self._install_pylock()
        else:
            self._install_deps()
            self._install_dependency_groups()

    def _install_deps(self) -> None:
        requirements_file: PythonDeps = self.conf["deps"]
        self._install(requirements_file, PythonRun.__name__, "deps")

    def _install_dependency_groups(self) -> None:
        groups: set[str] = self.conf["dependency_groups"]
        if not groups:
            return
        try:
            root: Path = self.core["package_root"]
        except KeyError:
            root = self.core["tox_root"]
        requirements = resolve_dependency_groups(root, groups)
        self._install(list(requirements), PythonRun.__name__, "dependency-groups")

    def _install_pylock(self) -> None:
        pylock_path: str = self.conf["pylock"]
        try:
            root: Path = self.core["package_root"]
        except KeyError:
            root = self.core["tox_root"]
        if not (path := root / pylock_path).exists():
            msg = f"pylock file {pylock_path!r} not found at {path}"
            raise Fail(msg)
        info = self.base_python
        marker_env = {
            "implementation_name": info.impl_lower,
            "platform_python_implementation": info.implementation,
            "python_version": info.version_dot,
            "python_full_version": f"{info.version_info.major}.{info.version_info.minor}.{info.version_info.micro}",
            "sys_platform": info.platform,
        }
        extras: set[str] = self.conf["extras"]
        groups: set[str] = self.conf["dependency_groups"]
        pylock = Pylock(path=path, extras=frozenset(extras), groups=frozenset(groups), marker_env=marker_env)
        self._install(pylock, PythonRun.__name__, "pylock")

    def _setup_with_env(self) -> None:
        super()._setup_with_env()
        self._run_extra_setup_commands()

    def _run_extra_setup_commands(self) -> None:
        command_set: list[Command] = self.conf["extra_setup_commands"]
        if not command_set:
            return
        chdir: Path = self.conf["change_dir"]
        chdir.mkdir(exist_ok=True, parents=True)
        ignore_errors: bool = self.conf["ignore_errors"]
        outcomes: list[Outcome] = []
        exit_code = run_command_set(self, "extra_setup_commands", chdir, ignore_errors, outcomes)
        if exit_code != Outcome.OK and not ignore_errors:
            msg = "extra_setup_commands failed"
            raise Fail(msg)

    def _build_packages(self) -> list[Package]:
        package_env = self.package_env
        assert package_env is not None  # ruff:ignore[assert]
        with package_env.display_context(self._has_display_suspended):
            try:
                packages = package_env.perform_packaging(self.conf)
            except Skip as exception:
                msg = f"{exception.args[0]} for package environment {package_env.conf['env_name']}"
                raise Skip(msg) from exception
        return packages


def add_skip_missing_interpreters_to_core(core: CoreConfigSet, options: Parsed) -> None:
    def skip_missing_interpreters_post_process(value: bool) -> bool:  # ruff:ignore[boolean-type-hint-positional-argument]
        if getattr(options, "skip_missing_interpreters", "config") != "config":
            return StrConvert().to_bool(str(options.skip_missing_interpreters))
        return value

    core.add_config(
        keys=["skip_missing_interpreters"],
        default=False,
        of_type=bool,
        post_process=skip_missing_interpreters_post_process,
        desc="skip running missing interpreters",
    )


def add_skip_missing_interpreters_to_env(conf: EnvConfigSet, core: CoreConfigSet, options: Parsed) -> None:
    def _default_skip_missing(conf: Config, env_name: str | None) -> bool:  # ruff:ignore[unused-function-argument]
        return core.get("skip_missing_interpreters", bool)

    def _post_process(value: bool) -> bool:  # ruff:ignore[boolean-type-hint-positional-argument]
        if getattr(options, "skip_missing_interpreters", "config") != "config":
            return StrConvert().to_bool(str(options.skip_missing_interpreters))
        return value

    conf.add_config(
        keys=["skip_missing_interpreters"],
        default=_default_skip_missing,
        of_type=bool,
        post_process=_post_process,
        desc="override core skip_missing_interpreters for this environment",
    )


def add_extras_to_env(conf: EnvConfigSet) -> None:
    conf.add_config(
        keys=["extras"],
        of_type=set[str],
        default=set(),
        desc="extras to install of the target package",
        post_process=_normalize_extras,
    )


def _normalize_extras(values: set[str]) -> set[str]:
    # although _ and . is allowed this will be normalized during packaging to -
    # https://packaging.python.org/en/latest/specifications/dependency-specifiers/#grammar
    return {canonicalize_name(v) for v in values}


__all__ = [
    "PackageType",
    "PythonRun",
    "add_extras_to_env",
    "add_skip_missing_interpreters_to_core",
    "add_skip_missing_interpreters_to_env",
]
