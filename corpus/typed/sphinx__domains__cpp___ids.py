"""Important note on ids
----------------------------------------------------------------------------

Multiple id generation schemes are used due to backwards compatibility.
- v1: 1.2.3 <= version < 1.3
      The style used before the rewrite.
      It is not the actual old code, but a replication of the behaviour.
- v2: 1.3 <= version < now
      Standardised mangling scheme from
      https://itanium-cxx-abi.github.io/cxx-abi/abi.html#mangling
      though not completely implemented.
All versions are generated and attached to elements. The newest is used for
the index. All of the versions should work as permalinks.


Signature Nodes and Tagnames
----------------------------------------------------------------------------

Each signature is in a desc_signature node, where all children are
desc_signature_line nodes. Each of these lines will have the attribute
'sphinx_line_type' set to one of the following (prioritized):
- 'declarator', if the line contains the name of the declared object.
- 'templateParams', if the line starts a template parameter list,
- 'templateParams', if the line has template parameters
  Note: such lines might get a new tag in the future.
- 'templateIntroduction, if the line is on the form 'conceptName{...}'
No other desc_signature nodes should exist (so far).


Grammar
----------------------------------------------------------------------------

See https://www.nongnu.org/hcb/ for the grammar,
and https://github.com/cplusplus/draft/blob/master/source/grammar.tex,
and https://github.com/cplusplus/concepts-ts
for the newest grammar.

common grammar things:
    template-declaration ->
        "template" "<" template-parameter-list ">" declaration
    template-parameter-list ->
          template-parameter
        | template-parameter-list "," template-parameter
    template-parameter ->
          type-parameter
        | parameter-declaration # i.e., same as a function argument

    type-parameter ->
          "class"    "..."[opt] identifier[opt]
        | "class"               identifier[opt] "=" type-id
        | "typename" "..."[opt] identifier[opt]
        | "typename"            identifier[opt] "=" type-id
        | "template" "<" template-parameter-list ">"
            "class"  "..."[opt] identifier[opt]
        | "template" "<" template-parameter-list ">"
            "class"             identifier[opt] "=" id-expression
        # also, from C++17 we can have "typename" in template templates
    templateDeclPrefix ->
        "template" "<" template-parameter-list ">"

    simple-declaration ->
        attribute-specifier-seq[opt] decl-specifier-seq[opt]
            init-declarator-list[opt] ;
    # Make the semicolon optional.
    # For now: drop the attributes (TODO).
    # Use at most 1 init-declarator.
    -> decl-specifier-seq init-declarator
    -> decl-specifier-seq declarator initializer

    decl-specifier ->
          storage-class-specifier ->
             (  "static" (only for member_object and function_object)
              | "extern" (only for member_object and function_object)
              | "register"
             )
             thread_local[opt] (only for member_object)
                               (it can also appear before the others)

        | type-specifier -> trailing-type-specifier
        | function-specifier -> "inline" | "virtual" | "explicit" (only
          for function_object)
        | "friend" (only for function_object)
        | "constexpr" (only for member_object and function_object)
    trailing-type-specifier ->
          simple-type-specifier
        | elaborated-type-specifier
        | typename-specifier
        | cv-qualifier -> "const" | "volatile"
    stricter grammar for decl-specifier-seq (with everything, each object
    uses a subset):
        visibility storage-class-specifier function-specifier "friend"
        "constexpr" "volatile" "const" trailing-type-specifier
        # where trailing-type-specifier can no be cv-qualifier
    # Inside e.g., template parameters a strict subset is used
    # (see type-specifier-seq)
    trailing-type-specifier ->
          simple-type-specifier ->
            ::[opt] nested-name-specifier[opt] type-name
          | ::[opt] nested-name-specifier "template" simple-template-id
          | "char" | "bool" | etc.
          | decltype-specifier
        | elaborated-type-specifier ->
            class-key attribute-specifier-seq[opt] ::[opt]
            nested-name-specifier[opt] identifier
          | class-key ::[opt] nested-name-specifier[opt] template[opt]
            simple-template-id
          | "enum" ::[opt] nested-name-specifier[opt] identifier
        | typename-specifier ->
            "typename" ::[opt] nested-name-specifier identifier
          | "typename" ::[opt] nested-name-specifier template[opt]
            simple-template-id
    class-key -> "class" | "struct" | "union"
    type-name ->* identifier | simple-template-id
    # ignoring attributes and decltype, and then some left-factoring
    trailing-type-specifier ->
        rest-of-trailing
        ("class" | "struct" | "union" | "typename") rest-of-trailing
        built-in -> "char" | "bool" | etc.
        decltype-specifier
    rest-of-trailing -> (with some simplification)
        "::"[opt] list-of-elements-separated-by-::
    element ->
        "template"[opt] identifier ("<" template-argument-list ">")[opt]
    template-argument-list ->
          template-argument "..."[opt]
        | template-argument-list "," template-argument "..."[opt]
    template-argument ->
          constant-expression
        | type-specifier-seq abstract-declarator
        | id-expression


    declarator ->
          ptr-declarator
        | noptr-declarator parameters-and-qualifiers trailing-return-type
    ptr-declarator ->
          noptr-declarator
        | ptr-operator ptr-declarator
    noptr-declarator ->
          declarator-id attribute-specifier-seq[opt] ->
                "..."[opt] id-expression
              | rest-of-trailing
        | noptr-declarator parameters-and-qualifiers
        | noptr-declarator "[" constant-expression[opt] "]"
          attribute-specifier-seq[opt]
        | "(" ptr-declarator ")"
    ptr-operator ->
          "*"  attribute-specifier-seq[opt] cv-qualifier-seq[opt]
        | "&   attribute-specifier-seq[opt]
        | "&&" attribute-specifier-seq[opt]
        | "::"[opt] nested-name-specifier "*" attribute-specifier-seq[opt]
            cv-qualifier-seq[opt]
    # function_object must use a parameters-and-qualifiers, the others may
    # use it (e.g., function pointers)
    parameters-and-qualifiers ->
        "(" parameter-clause ")" attribute-specifier-seq[opt]
        cv-qualifier-seq[opt] ref-qualifier[opt]
        exception-specification[opt]
    ref-qualifier -> "&" | "&&"
    exception-specification ->
        "noexcept" ("(" constant-expression ")")[opt]
        "throw" ("(" type-id-list ")")[opt]
    # TODO: we don't implement attributes
    # member functions can have initializers, but we fold them into here
    memberFunctionInit -> "=" "0"
    # (note: only "0" is allowed as the value, according to the standard,
    # right?)

    enum-head ->
        enum-key attribute-specifier-seq[opt] nested-name-specifier[opt]
            identifier enum-base[opt]
    enum-key -> "enum" | "enum struct" | "enum class"
    enum-base ->
        ":" type
    enumerator-definition ->
          identifier
        | identifier "=" constant-expression

We additionally add the possibility for specifying the visibility as the
first thing.

concept_object:
    goal:
        just a declaration of the name (for now)

    grammar: only a single template parameter list, and the nested name
        may not have any template argument lists

        "template" "<" template-parameter-list ">"
        nested-name-specifier

type_object:
    goal:
        either a single type (e.g., "MyClass:Something_T" or a typedef-like
        thing (e.g. "Something Something_T" or "int I_arr[]"
    grammar, single type: based on a type in a function parameter, but
    without a name:
           parameter-declaration
        -> attribute-specifier-seq[opt] decl-specifier-seq
           abstract-declarator[opt]
        # Drop the attributes
        -> decl-specifier-seq abstract-declarator[opt]
    grammar, typedef-like: no initializer
        decl-specifier-seq declarator
    Can start with a templateDeclPrefix.

member_object:
    goal: as a type_object which must have a declarator, and optionally
    with a initializer
    grammar:
        decl-specifier-seq declarator initializer
    Can start with a templateDeclPrefix.

function_object:
    goal: a function declaration, TODO: what about templates? for now: skip
    grammar: no initializer
       decl-specifier-seq declarator
    Can start with a templateDeclPrefix.

class_object:
    goal: a class declaration, but with specification of a base class
    grammar:
          attribute-specifier-seq[opt]
              nested-name "final"[opt] (":" base-specifier-list)[opt]
        base-specifier-list ->
          base-specifier "..."[opt]
        | base-specifier-list, base-specifier "..."[opt]
        base-specifier ->
          base-type-specifier
        | "virtual" access-spe"cifier[opt]    base-type-specifier
        | access-specifier[opt] "virtual"[opt] base-type-specifier
    Can start with a templateDeclPrefix.

enum_object:
    goal: an unscoped enum or a scoped enum, optionally with the underlying
          type specified
    grammar:
        ("class" | "struct")[opt] visibility[opt]
            attribute-specifier-seq[opt] nested-name (":" type)[opt]
enumerator_object:
    goal: an element in a scoped or unscoped enum. The name should be
          injected according to the scopedness.
    grammar:
        nested-name ("=" constant-expression)

namespace_object:
    goal: a directive to put all following declarations in a specific scope
    grammar:
        nested-name
"""

from __future__ import annotations

import re
from typing import TYPE_CHECKING

if TYPE_CHECKING:
    from collections.abc import Sequence, Set

udl_identifier_re = re.compile(
    r'[a-zA-Z_][a-zA-Z0-9_]*\b'  # note, no word boundary in the beginning
)
_string_re = re.compile(
    r"[LuU8]?('([^'\\]*(?:\\.[^'\\]*)*)'"
    r'|"([^"\\]*(?:\\.[^"\\]*)*)")',
    re.DOTALL,
)
_visibility_re = re.compile(r'\b(public|private|protected)\b')
_operator_re = re.compile(
    r"""
        \[\s*\]
    |   \(\s*\)
    |   \+\+ | --
    |   ->\*? | \,
    |   (<<|>>)=? | && | \|\|
    |   <=>
    |   [!<>=/*%+|&^~-]=?
    |   (\b(and|and_eq|bitand|bitor|compl|not|not_eq|or|or_eq|xor|xor_eq)\b)
    """,
    re.VERBOSE,
)
_fold_operator_re = re.compile(
    r"""
        ->\*    |    \.\*    |    \,
    |   (<<|>>)=?    |    &&    |    \|\|
    |   !=
    |   [<>=/*%+|&^~-]=?
    """,
    re.VERBOSE,
)
# see https://en.cppreference.com/w/cpp/keyword
_keywords: Set[str] = frozenset({
    'alignas', 'alignof', 'and', 'and_eq', 'asm', 'auto',
    'bitand', 'bitor', 'bool', 'break',
    'case', 'catch', 'class', 'compl', 'concept', 'continue',
    'char', 'char8_t', 'char16_t', 'char32_t',
    'const', 'const_cast', 'consteval', 'constexpr', 'constinit',
    'decltype', 'default', 'delete', 'do', 'double', 'dynamic_cast',
    'else', 'enum', 'explicit', 'export', 'extern',
    'false', 'float', 'for', 'friend',
    'goto',
    'if', 'inline', 'int',
    'long',
    'mutable',
    'namespace', 'new', 'noexcept', 'not', 'not_eq', 'nullptr',
    'operator', 'or', 'or_eq',
    'private', 'protected', 'public',
    'register', 'reinterpret_cast', 'requires', 'return',
    'short', 'signed', 'sizeof', 'static',
    'static_assert', 'static_cast', 'struct', 'switch',
    'template', 'this', 'thread_local', 'throw',
    'true', 'try', 'typedef', 'typeid', 'typename',
    'union', 'unsigned', 'using',
    'virtual', 'void', 'volatile',
    'wchar_t', 'while',
    'xor', 'xor_eq',
})  # fmt: skip


_simple_type_specifiers_re = re.compile(
    r"""
    \b(
    auto|void|bool
    |signed|unsigned
    |short|long
    |char|wchar_t|char(8|16|32)_t
    |int
    |__int(64|128)  # extension
    |float|double
    |__float80|_Float64x|__float128|_Float128  # extension
    |_Complex|_Imaginary  # extension
    )\b
    """,
    re.VERBOSE,
)

_max_id = 4
_id_prefix: Sequence[str] = ('', '', '_CPPv2', '_CPPv3', '_CPPv4')
# Ids are used in lookup keys which are used across pickled files,
# so when _max_id changes, make sure to update the ENV_VERSION.

# ------------------------------------------------------------------------------
# Id v1 constants
# ------------------------------------------------------------------------------

_id_fundamental_v1 = {
    'char': 'c',
    'signed char': 'c',
    'unsigned char': 'C',
    'int': 'i',
    'signed int': 'i',
    'unsigned int': 'U',
    'long': 'l',
    'signed long': 'l',
    'unsigned long': 'L',
    'bool': 'b',
}
_id_shorthands_v1 = {
    'std::string': 'ss',
    'std::ostream': 'os',
    'std::istream': 'is',
    'std::iostream': 'ios',
    'std::vector': 'v',
    'std::map': 'm',
}
_id_operator_v1 = {
    'new': 'new-operator',
    'new[]': 'new-array-operator',
    'delete': 'delete-operator',
    'delete[]': 'delete-array-operator',
    # the arguments will make the difference between unary and binary
    # '+(unary)' : 'ps',
    # '-(unary)' : 'ng',
    # '&(unary)' : 'ad',
    # '*(unary)' : 'de',
    '~': 'inv-operator',
    '+': 'add-operator',
    '-': 'sub-operator',
    '*': 'mul-operator',
    '/': 'div-operator',
    '%': 'mod-operator',
    '&': 'and-operator',
    '|': 'or-operator',
    '^': 'xor-operator',
    '=': 'assign-operator',
    '+=': 'add-assign-operator',
    '-=': 'sub-assign-operator',
    '*=': 'mul-assign-operator',
    '/=': 'div-assign-operator',
    '%=': 'mod-assign-operator',
    '&=': 'and-assign-operator',
    '|=': 'or-assign-operator',
    '^=': 'xor-assign-operator',
    '<<': 'lshift-operator',
    '>>': 'rshift-operator',
    '<<=': 'lshift-assign-operator',
    '>>=': 'rshift-assign-operator',
    '==': 'eq-operator',
    '!=': 'neq-operator',
    '<': 'lt-operator',
    '>': 'gt-operator',
    '<=': 'lte-operator',
    '>=': 'gte-operator',
    '!': 'not-operator',
    '&&': 'sand-operator',
    '||': 'sor-operator',
    '++': 'inc-operator',
    '--': 'dec-operator',
    ',': 'comma-operator',
    '->*': 'pointer-by-pointer-operator',
    '->': 'pointer-operator',
    '()': 'call-operator',
    '[]': 'subscript-operator',
}

# ------------------------------------------------------------------------------
# Id v > 1 constants
# ------------------------------------------------------------------------------

_id_fundamental_v2 = {
    # not all of these are actually parsed as fundamental types, TODO: do that
    'void': 'v',
    'bool': 'b',
    'char': 'c',
    'signed char': 'a',
    'unsigned char': 'h',
    'wchar_t': 'w',
    'char32_t': 'Di',
    'char16_t': 'Ds',
    'char8_t': 'Du',
    'short': 's',
    'short int': 's',
    'signed short': 's',
    'signed short int': 's',
    'unsigned short': 't',
    'unsigned short int': 't',
    'int': 'i',
    'signed': 'i',
    'signed int': 'i',
    'unsigned': 'j',
    'unsigned int': 'j',
    'long': 'l',
    'long int': 'l',
    'signed long': 'l',
    'signed long int': 'l',
    'unsigned long': 'm',
    'unsigned long int': 'm',
    'long long': 'x',
    'long long int': 'x',
    'signed long long': 'x',
    'signed long long int': 'x',
    '__int64': 'x',
    'unsigned long long': 'y',
    'unsigned long long int': 'y',
    '__int128': 'n',
    'signed __int128': 'n',
    'unsigned __int128': 'o',
    'float': 'f',
    'double': 'd',
    'long double': 'e',
    '__float80': 'e',
    '_Float64x': 'e',
    '__float128': 'g',
    '_Float128': 'g',
    '_Complex float': 'Cf',
    '_Complex double': 'Cd',
    '_Complex long double': 'Ce',
    '_Imaginary float': 'f',
    '_Imaginary double': 'd',
    '_Imaginary long double': 'e',
    'auto': 'Da',
    'decltype(auto)': 'Dc',
    'std::nullptr_t': 'Dn',
}
_id_operator_v2 = {
    'new': 'nw',
    'new[]': 'na',
    'delete': 'dl',
    'delete[]': 'da',
    # the arguments will make the difference between unary and binary
    # in operator definitions
    # '+(unary)' : 'ps',
    # '-(unary)' : 'ng',
    # '&(unary)' : 'ad',
    # '*(unary)' : 'de',
    '~': 'co',
    'compl': 'co',
    '+': 'pl',
    '-': 'mi',
    '*': 'ml',
    '/': 'dv',
    '%': 'rm',
    '&': 'an',
    'bitand': 'an',
    '|': 'or',
    'bitor': 'or',
    '^': 'eo',
    'xor': 'eo',
    '=': 'aS',
    '+=': 'pL',
    '-=': 'mI',
    '*=': 'mL',
    '/=': 'dV',
    '%=': 'rM',
    '&=': 'aN',
    'and_eq': 'aN',
    '|=': 'oR',
    'or_eq': 'oR',
    '^=': 'eO',
    'xor_eq': 'eO',
    '<<': 'ls',
    '>>': 'rs',
    '<<=': 'lS',
    '>>=': 'rS',
    '==': 'eq',
    '!=': 'ne',
    'not_eq': 'ne',
    '<': 'lt',
    '>': 'gt',
    '<=': 'le',
    '>=': 'ge',
    '<=>': 'ss',
    '!': 'nt',
    'not': 'nt',
    '&&': 'aa',
    'and': 'aa',
    '||': 'oo',
    'or': 'oo',
    '++': 'pp',
    '--': 'mm',
    ',': 'cm',
    '->*': 'pm',
    '->': 'pt',
    '()': 'cl',
    '[]': 'ix',
    '.*': 'ds',  # this one is not overloadable, but we need it for expressions
    '?': 'qu',
}
_id_operator_unary_v2 = {
    '++': 'pp_',
    '--': 'mm_',
    '*': 'de',
    '&': 'ad',
    '+': 'ps',
    '-': 'ng',
    '!': 'nt',
    'not': 'nt',
    '~': 'co',
    'compl': 'co',
}
_id_char_from_prefix: dict[str | None, str] = {
    None: 'c',
    'u8': 'c',
    'u': 'Ds',
    'U': 'Di',
    'L': 'w',
}
# these are ordered by preceedence
_expression_bin_ops: Sequence[tuple[str, ...]] = [
    ('||', 'or'),
    ('&&', 'and'),
    ('|', 'bitor'),
    ('^', 'xor'),
    ('&', 'bitand'),
    ('==', '!=', 'not_eq'),
    ('<=>', '<=', '>=', '<', '>'),
    ('<<', '>>'),
    ('+', '-'),
    ('*', '/', '%'),
    ('.*', '->*'),
]
_expression_unary_ops: Sequence[str] = [
    '++',
    '--',
    '*',
    '&',
    '+',
    '-',
    '!',
    'not',
    '~',
    'compl',
]
_expression_assignment_ops: Sequence[str] = [
    '=',
    '*=',
    '/=',
    '%=',
    '+=',
    '-=',
    '>>=',
    '<<=',
    '&=',
    'and_eq',
    '^=',
    '|=',
    'xor_eq',
    'or_eq',
]
_id_explicit_cast = {
    'dynamic_cast': 'dc',
    'static_cast': 'sc',
    'const_cast': 'cc',
    'reinterpret_cast': 'rc',
}
