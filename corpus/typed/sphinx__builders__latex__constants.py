"""constants for LaTeX builder."""

from __future__ import annotations

from typing import TYPE_CHECKING

if TYPE_CHECKING:
    from typing import Any

PDFLATEX_DEFAULT_FONTPKG = r"""
\usepackage{tgtermes}
\usepackage{tgheros}
\renewcommand{\ttdefault}{txtt}
"""

PDFLATEX_DEFAULT_FONTSUBSTITUTION = r"""
\expandafter\ifx\csname T@LGR\endcsname\relax
\else
% LGR was declared as font encoding
  \substitutefont{LGR}{\rmdefault}{cmr}
  \substitutefont{LGR}{\sfdefault}{cmss}
  \substitutefont{LGR}{\ttdefault}{cmtt}
\fi
\expandafter\ifx\csname T@X2\endcsname\relax
  \expandafter\ifx\csname T@T2A\endcsname\relax
  \else
  % T2A was declared as font encoding
    \substitutefont{T2A}{\rmdefault}{cmr}
    \substitutefont{T2A}{\sfdefault}{cmss}
    \substitutefont{T2A}{\ttdefault}{cmtt}
  \fi
\else
% X2 was declared as font encoding
  \substitutefont{X2}{\rmdefault}{cmr}
  \substitutefont{X2}{\sfdefault}{cmss}
  \substitutefont{X2}{\ttdefault}{cmtt}
\fi
"""

XELATEX_DEFAULT_FONTPKG = r"""
\setmainfont{FreeSerif}[
  Extension      = .otf,
  UprightFont    = *,
  ItalicFont     = *Italic,
  BoldFont       = *Bold,
  BoldItalicFont = *BoldItalic
]
\setsansfont{FreeSans}[
  Extension      = .otf,
  UprightFont    = *,
  ItalicFont     = *Oblique,
  BoldFont       = *Bold,
  BoldItalicFont = *BoldOblique,
]
\setmonofont{FreeMono}[Scale=0.9,
  Extension      = .otf,
  UprightFont    = *,
  ItalicFont     = *Oblique,
  BoldFont       = *Bold,
  BoldItalicFont = *BoldOblique,
]
"""

XELATEX_GREEK_DEFAULT_FONTPKG = (
    XELATEX_DEFAULT_FONTPKG
    + '\n\\newfontfamily\\greekfont{FreeSerif}'
    + '\n\\newfontfamily\\greekfontsf{FreeSans}'
    + '\n\\newfontfamily\\greekfonttt{FreeMono}'
)

LUALATEX_DEFAULT_FONTPKG = XELATEX_DEFAULT_FONTPKG

DEFAULT_SETTINGS: dict[str, Any] = {
    'latex_engine':    'pdflatex',
    'papersize':       '',
    'pointsize':       '',
    'pxunit':          '.75bp',
    'classoptions':    '',
    'extraclassoptions': '',
    'maxlistdepth':    '',
    'sphinxpkgoptions':     '',
    'sphinxsetup':     '',
    'fvset':           '\\fvset{fontsize=auto}',
    'passoptionstopackages': '',
    'geometry':        '\\usepackage{geometry}',
    'inputenc':        '',
    'utf8extra':       '',
    'cmappkg':         '\\usepackage{cmap}',
    'fontenc':         '\\usepackage[T1]{fontenc}',
    'amsmath':         '\\usepackage{amsmath,amssymb,amstext}',
    'multilingual':    '',
    'babel':           '\\usepackage{babel}',
    'polyglossia':     '',
    'fontpkg':         PDFLATEX_DEFAULT_FONTPKG,
    'fontsubstitution': PDFLATEX_DEFAULT_FONTSUBSTITUTION,
    'substitutefont':  '',
    'textcyrillic':    '',
    'textgreek':       '\\usepackage{textalpha}',
    'fncychap':        '\\usepackage[Bjarne]{fncychap}',
    'hyperref':        ('% Include hyperref last.\n'
                        '\\usepackage{hyperref}\n'
                        '% Fix anchor placement for figures with captions.\n'
                        '\\usepackage{hypcap}% it must be loaded after hyperref.\n'
                        '% Set up styles of URL: it should be placed after hyperref.\n'
                        '\\urlstyle{same}'),
    'contentsname':    '',
    'extrapackages':   '',
    'preamble':        '',
    'title':           '',
    'release':         '',
    'author':          '',
    'releasename':     '',
    'makeindex':       '\\makeindex',
    'shorthandoff':    '',
    'maketitle':       '\\sphinxmaketitle',
    'tableofcontents': '\\sphinxtableofcontents',
    'atendofbody':     '',
    'printindex':      '\\printindex',
    'transition':      '\n\n\\bigskip\\hrule\\bigskip\n\n',
    'figure_align':    'htbp',
    'tocdepth':        '',
    'secnumdepth':     '',
}  # fmt: skip

ADDITIONAL_SETTINGS: dict[Any, dict[str, Any]] = {
    'pdflatex': {
        'inputenc':     '\\usepackage[utf8]{inputenc}',
        'utf8extra':   ('\\ifdefined\\DeclareUnicodeCharacter\n'
                        '% support both utf8 and utf8x syntaxes\n'
                        '  \\ifdefined\\DeclareUnicodeCharacterAsOptional\n'
                        '    \\def\\sphinxDUC#1{\\DeclareUnicodeCharacter{"#1}}\n'
                        '  \\else\n'
                        '    \\let\\sphinxDUC\\DeclareUnicodeCharacter\n'
                        '  \\fi\n'
                        '  \\sphinxDUC{00A0}{\\nobreakspace}\n'
                        '  \\sphinxDUC{2500}{\\sphinxunichar{2500}}\n'
                        '  \\sphinxDUC{2502}{\\sphinxunichar{2502}}\n'
                        '  \\sphinxDUC{2514}{\\sphinxunichar{2514}}\n'
                        '  \\sphinxDUC{251C}{\\sphinxunichar{251C}}\n'
                        '  \\sphinxDUC{2572}{\\textbackslash}\n'
                        '\\fi'),
    },
    'xelatex': {
        'latex_engine': 'xelatex',
        'polyglossia':  '\\usepackage{polyglossia}',
        'babel':        '',
        'fontenc':     ('\\usepackage{fontspec}\n'
                        '\\defaultfontfeatures[\\rmfamily,\\sffamily,\\ttfamily]{}'),
        'fontpkg':      XELATEX_DEFAULT_FONTPKG,
        'fontsubstitution': '',
        'textgreek':    '',
        'utf8extra':   ('\\catcode`^^^^00a0\\active\\protected\\def^^^^00a0'
                        '{\\leavevmode\\nobreak\\ }'),
    },
    'lualatex': {
        'latex_engine': 'lualatex',
        'polyglossia':  '\\usepackage{polyglossia}',
        'babel':        '',
        'fontenc':     ('\\usepackage{fontspec}\n'
                        '\\defaultfontfeatures[\\rmfamily,\\sffamily,\\ttfamily]{}'),
        'fontpkg':      LUALATEX_DEFAULT_FONTPKG,
        'fontsubstitution': '',
        'textgreek':    '',
        'utf8extra':   ('\\catcode`^^^^00a0\\active\\protected\\def^^^^00a0'
                        '{\\leavevmode\\nobreak\\ }'),
    },
    'platex': {
        'latex_engine': 'platex',
        'babel':        '',
        'classoptions': ',dvipdfmx',
        'fontpkg':      PDFLATEX_DEFAULT_FONTPKG,
        'fontsubstitution': '',
        'textgreek':    '',
        'fncychap':     '',
        'geometry':     '\\usepackage[dvipdfm]{geometry}',
    },
    'uplatex': {
        'latex_engine': 'uplatex',
        'babel':        '',
        'classoptions': ',dvipdfmx',
        'fontpkg':      PDFLATEX_DEFAULT_FONTPKG,
        'fontsubstitution': '',
        'textgreek':    '',
        'fncychap':     '',
        'geometry':     '\\usepackage[dvipdfm]{geometry}',
    },

    # special settings for latex_engine + language_code
    ('lualatex', 'fr'): {
        # use babel instead of polyglossia by default
        'polyglossia':  '',
        'babel':        '\\usepackage{babel}',
    },
    ('xelatex', 'fr'): {
        # use babel instead of polyglossia by default
        'polyglossia':  '',
        'babel':        '\\usepackage{babel}',
    },
    ('xelatex', 'zh'): {
        'polyglossia':  '',
        'babel':        '\\usepackage{babel}',
        'fontenc':      '\\usepackage{xeCJK}',
        # set formatcom=\xeCJKVerbAddon to prevent xeCJK from adding extra spaces in
        # fancyvrb Verbatim environment.
        'fvset':        '\\fvset{fontsize=\\small,formatcom=\\xeCJKVerbAddon}',
    },
    ('xelatex', 'el'): {
        'fontpkg':      XELATEX_GREEK_DEFAULT_FONTPKG,
    },
}  # fmt: skip


SHORTHANDOFF = r"""
\ifdefined\shorthandoff
  \ifnum\catcode`\=\string=\active\shorthandoff{=}\fi
  \ifnum\catcode`\"=\active\shorthandoff{"}\fi
\fi
"""
