from __future__ import annotations

import sys
import textwrap
from difflib import unified_diff
from typing import TYPE_CHECKING

from docutils import nodes
from docutils.parsers.rst import directives

from sphinx import addnodes
from sphinx.directives import optional_int
from sphinx.locale import __
from sphinx.util import logging
from sphinx.util._lines import parse_line_num_spec
from sphinx.util._pathlib import _StrPath
from sphinx.util.docutils import SphinxDirective

if TYPE_CHECKING:
    import os
    from typing import Any, ClassVar

    from docutils.nodes import Element, Node

    from sphinx.application import Sphinx
    from sphinx.config import Config
    from sphinx.util.typing import ExtensionMetadata, OptionSpec

logger = logging.getLogger(__name__)


class Highlight(SphinxDirective):
    """Directive to set the highlighting language for code blocks, as well
    as the threshold for line numbers.
    """

    has_content = False
    required_arguments = 1
    optional_arguments = 0
    final_argument_whitespace = False
    option_spec: ClassVar[OptionSpec] = {
        'force': directives.flag,
        'linenothreshold': directives.positive_int,
    }

    def run(self) -> list[Node]:
        language = self.arguments[0].strip()
        linenothreshold = self.options.get('linenothreshold', sys.maxsize)
        force = 'force' in self.options

        self.env.current_document.highlight_language = language
        return [
            addnodes.highlightlang(
                lang=language, force=force, linenothreshold=linenothreshold
            )
        ]


def dedent_lines(
    lines: list[str], dedent: int | None, location: tuple[str, int] | None = None
) -> list[str]:
    if dedent is None:
        return textwrap.dedent(''.join(lines)).splitlines(True)

    if any(s[:dedent].strip() for s in lines):
        logger.warning(__('non-whitespace stripped by dedent'), location=location)

    new_lines = []
    for line in lines:
        new_line = line[dedent:]
        if line.endswith('\n') and not new_line:
            new_line = '\n'  # keep CRLF
        new_lines.append(new_line)

    return new_lines


def container_wrapper(
    directive: SphinxDirective, literal_node: Node, caption: str
) -> nodes.container:
    container_node = nodes.container(
        '', literal_block=True, classes=['literal-block-wrapper']
    )
    parsed = directive.parse_text_to_nodes(caption, offset=directive.content_offset)
    node = parsed[0]
    if isinstance(node, nodes.system_message):
        msg = __('Invalid caption: %s') % node.astext()
        raise ValueError(msg)  # NoQA: TRY004
    if isinstance(node, nodes.Element):
        caption_node = nodes.caption(node.rawsource, '', *node.children)
        caption_node.source = literal_node.source
        caption_node.line = literal_node.line
        container_node += caption_node
        container_node += literal_node
        return container_node
    raise RuntimeError  # never reached


class CodeBlock(SphinxDirective):
    """Directive for a code block with special highlighting or line numbering
    settings.
    """

    has_content = True
    required_arguments = 0
    optional_arguments = 1
    final_argument_whitespace = False
    option_spec: ClassVar[OptionSpec] = {
        'force': directives.flag,
        'linenos': directives.flag,
        'dedent': optional_int,
        'lineno-start': int,
        'emphasize-lines': directives.unchanged_required,
        'caption': directives.unchanged_required,
        'class': directives.class_option,
        'name': directives.unchanged,
    }

    def run(self) -> list[Node]:
        document = self.state.document
        code = '\n'.join(self.content)
        source, line = self.state_machine.get_source_and_line(self.lineno)
        location: tuple[str, int] | None = (
            (source, line) if source is not None and line is not None else None
        )

        linespec = self.options.get('emphasize-lines')
        if linespec:
            try:
                nlines = len(self.content)
                hl_lines = parse_line_num_spec(linespec, nlines)
                if any(i >= nlines for i in hl_lines):
                    logger.warning(
                        __('line number spec is out of range(1-%d): %r'),
                        nlines,
                        self.options['emphasize-lines'],
                        location=location,
                    )

                hl_lines = [x + 1 for x in hl_lines if x < nlines]
            except ValueError as err:
                return [document.reporter.warning(err, line=self.lineno)]
        else:
            hl_lines = None

        if 'dedent' in self.options:
            lines = code.splitlines(True)
            lines = dedent_lines(lines, self.options['dedent'], location=location)
            code = ''.join(lines)

        literal: Element = nodes.literal_block(code, code)
        if 'linenos' in self.options or 'lineno-start' in self.options:
            literal['linenos'] = True
        literal['classes'] += self.options.get('class', [])
        literal['force'] = 'force' in self.options
        if self.arguments:
            # highlight language specified
            literal['language'] = self.arguments[0]
        else:
            # no highlight language specified.  Then this directive refers the current
            # highlight setting via ``highlight`` directive or ``highlight_language``
            # configuration.
            literal['language'] = (
                self.env.current_document.highlight_language
                or self.config.highlight_language
            )
        extra_args = literal['highlight_args'] = {}
        if hl_lines is not None:
            extra_args['hl_lines'] = hl_lines
        if 'lineno-start' in self.options:
            extra_args['linenostart'] = self.options['lineno-start']
        self.set_source_info(literal)

        caption = self.options.get('caption')
        if caption:
            try:
                literal = container_wrapper(self, literal, caption)
            except ValueError as exc:
                return [document.reporter.warning(exc, line=self.lineno)]

        # literal will be note_implicit_target that is linked from caption and numref.
        # when options['name'] is provided, it should be primary ID.
        self.add_name(literal)

        return [literal]


class LiteralIncludeReader:
    INVALID_OPTIONS_PAIR = [
        ('lineno-match', 'lineno-start'),
        ('lineno-match', 'append'),
        ('lineno-match', 'prepend'),
        ('start-after', 'start-at'),
        ('end-before', 'end-at'),
        ('diff', 'pyobject'),
        ('diff', 'lineno-start'),
        ('diff', 'lineno-match'),
        ('diff', 'lines'),
        ('diff', 'start-after'),
        ('diff', 'end-before'),
        ('diff', 'start-at'),
        ('diff', 'end-at'),
    ]

    def __init__(
        self, filename: str | os.PathLike[str], options: dict[str, Any], config: Config
    ) -> None:
        self.filename = _StrPath(filename)
        self.options = options
        self.encoding = options.get('encoding', config.source_encoding)
        self.lineno_start = self.options.get('lineno-start', 1)

        self.parse_options()

    def parse_options(self) -> None:
        for option1, option2 in self.INVALID_OPTIONS_PAIR:
            if option1 in self.options and option2 in self.options:
                msg = __('Cannot use both "%s" and "%s" options') % (option1, option2)
                raise ValueError(msg)

    def read_file(
        self, filename: str | os.PathLike[str], location: tuple[str, int] | None = None
    ) -> list[str]:
        filename = _StrPath(filename)
        try:
            with open(filename, encoding=self.encoding, errors='strict') as f:
                text = f.read()
            if 'tab-width' in self.options:
                text = text.expandtabs(self.options['tab-width'])

            return text.splitlines(True)
        except OSError as exc:
            msg = __("Include file '%s' not found or reading it failed") % filename
            raise OSError(msg) from exc
        except UnicodeError as exc:
            msg = __(
                "Encoding %r used for reading included file '%s' seems to "
                'be wrong, try giving an :encoding: option'
            ) % (self.encoding, filename)
            raise UnicodeError(msg) from exc

    def read(self, location: tuple[str, int] | None = None) -> tuple[str, int]:
        if 'diff' in self.options:
            lines = self.show_diff()
        else:
            filters = [
                self.pyobject_filter,
                self.start_filter,
                self.end_filter,
                self.lines_filter,
                self.dedent_filter,
                self.prepend_filter,
                self.append_filter,
            ]
            lines = self.read_file(self.filename, location=location)
            for func in filters:
                lines = func(lines, location=location)

        return ''.join(lines), len(lines)

    def show_diff(self, location: tuple[str, int] | None = None) -> list[str]:
        new_lines = self.read_file(self.filename)
        old_filename = self.options['diff']
        old_lines = self.read_file(old_filename)
        diff = unified_diff(old_lines, new_lines, str(old_filename), str(self.filename))
        return list(diff)

    def pyobject_filter(
        self, lines: list[str], location: tuple[str, int] | None = None
    ) -> list[str]:
        pyobject = self.options.get('pyobject')
        if pyobject:
            from sphinx.pycode import ModuleAnalyzer

            analyzer = ModuleAnalyzer.for_file(self.filename, '')
            tags = analyzer.find_tags()
            if pyobject not in tags:
                msg = __('Object named %r not found in include file %r') % (
                    pyobject,
                    self.filename,
                )
                raise ValueError(msg)
            start = tags[pyobject][1]
            end = tags[pyobject][2]
            lines = lines[start - 1 : end]
            if 'lineno-match' in self.options:
                self.lineno_start = start

        return lines

    def lines_filter(
        self, lines: list[str], location: tuple[str, int] | None = None
    ) -> list[str]:
        linespec = self.options.get('lines')
        if linespec:
            linelist = parse_line_num_spec(linespec, len(lines))
            if any(i >= len(lines) for i in linelist):
                logger.warning(
                    __('line number spec is out of range(1-%d): %r'),
                    len(lines),
                    linespec,
                    location=location,
                )

            if 'lineno-match' in self.options:
                # make sure the line list is not "disjoint".
                first = linelist[0]
                if all(first + i == n for i, n in enumerate(linelist)):
                    self.lineno_start += linelist[0]
                else:
                    msg = __('Cannot use "lineno-match" with a disjoint set of "lines"')
                    raise ValueError(msg)

            lines = [lines[n] for n in linelist if n < len(lines)]
            if not lines:
                msg = __('Line spec %r: no lines pulled from include file %r') % (
                    linespec,
                    self.filename,
                )
                raise ValueError(msg)

        return lines

    def start_filter(
        self, lines: list[str], location: tuple[str, int] | None = None
    ) -> list[str]:
        if 'start-at' in self.options:
            start = self.options.get('start-at')
            inclusive = False
        elif 'start-after' in self.options:
            start = self.options.get('start-after')
            inclusive = True
        else:
            start = None

        if start:
            for lineno, line in enumerate(lines):
                if start in line:
                    if inclusive:
                        if 'lineno-match' in self.options:
                            self.lineno_start += lineno + 1

                        return lines[lineno + 1 :]
                    else:
                        if 'lineno-match' in self.options:
                            self.lineno_start += lineno

                        return lines[lineno:]

            if inclusive is True:
                raise ValueError('start-after pattern not found: %s' % start)
            else:
                raise ValueError('start-at pattern not found: %s' % start)

        return lines

    def end_filter(
        self, lines: list[str], location: tuple[str, int] | None = None
    ) -> list[str]:
        if 'end-at' in self.options:
            end = self.options.get('end-at')
            inclusive = True
        elif 'end-before' in self.options:
            end = self.options.get('end-before')
            inclusive = False
        else:
            end = None

        if end:
            for lineno, line in enumerate(lines):
                if end in line:
                    if inclusive:
                        return lines[: lineno + 1]
                    else:
                        if lineno == 0:
                            pass  # end-before ignores first line
                        else:
                            return lines[:lineno]
            if inclusive is True:
                raise ValueError('end-at pattern not found: %s' % end)
            else:
                raise ValueError('end-before pattern not found: %s' % end)

        return lines

    def prepend_filter(
        self, lines: list[str], location: tuple[str, int] | None = None
    ) -> list[str]:
        prepend = self.options.get('prepend')
        if prepend:
            lines.insert(0, prepend + '\n')

        return lines

    def append_filter(
        self, lines: list[str], location: tuple[str, int] | None = None
    ) -> list[str]:
        append = self.options.get('append')
        if append:
            lines.append(append + '\n')

        return lines

    def dedent_filter(
        self, lines: list[str], location: tuple[str, int] | None = None
    ) -> list[str]:
        if 'dedent' in self.options:
            return dedent_lines(lines, self.options.get('dedent'), location=location)
        else:
            return lines


class LiteralInclude(SphinxDirective):
    """Like ``.. include:: :literal:``, but only warns if the include file is
    not found, and does not raise errors.  Also has several options for
    selecting what to include.
    """

    has_content = False
    required_arguments = 1
    optional_arguments = 0
    final_argument_whitespace = True
    option_spec: ClassVar[OptionSpec] = {
        'dedent': optional_int,
        'linenos': directives.flag,
        'lineno-start': int,
        'lineno-match': directives.flag,
        'tab-width': int,
        'language': directives.unchanged_required,
        'force': directives.flag,
        'encoding': directives.encoding,
        'pyobject': directives.unchanged_required,
        'lines': directives.unchanged_required,
        'start-after': directives.unchanged_required,
        'end-before': directives.unchanged_required,
        'start-at': directives.unchanged_required,
        'end-at': directives.unchanged_required,
        'prepend': directives.unchanged_required,
        'append': directives.unchanged_required,
        'emphasize-lines': directives.unchanged_required,
        'caption': directives.unchanged,
        'class': directives.class_option,
        'name': directives.unchanged,
        'diff': directives.unchanged_required,
    }

    def run(self) -> list[Node]:
        document = self.state.document
        if not document.settings.file_insertion_enabled:
            return [
                document.reporter.warning('File insertion disabled', line=self.lineno)
            ]
        # convert options['diff'] to absolute path
        if 'diff' in self.options:
            _, path = self.env.relfn2path(self.options['diff'])
            self.options['diff'] = path

        try:
            source, line = self.state_machine.get_source_and_line(self.lineno)
            location: tuple[str, int] | None = (
                (source, line) if source is not None and line is not None else None
            )
            rel_filename, filename = self.env.relfn2path(self.arguments[0])
            self.env.note_dependency(rel_filename)

            reader = LiteralIncludeReader(filename, self.options, self.config)
            text, lines = reader.read(location=location)

            retnode: Element = nodes.literal_block(text, text, source=filename)
            retnode['force'] = 'force' in self.options
            self.set_source_info(retnode)
            if self.options.get('diff'):  # if diff is set, set udiff
                retnode['language'] = 'udiff'
            elif 'language' in self.options:
                retnode['language'] = self.options['language']
            if (
                'linenos' in self.options
                or 'lineno-start' in self.options
                or 'lineno-match' in self.options
            ):
                retnode['linenos'] = True
            retnode['classes'] += self.options.get('class', [])
            extra_args = retnode['highlight_args'] = {}
            if 'emphasize-lines' in self.options:
                hl_lines = parse_line_num_spec(self.options['emphasize-lines'], lines)
                if any(i >= lines for i in hl_lines):
                    logger.warning(
                        __('line number spec is out of range(1-%d): %r'),
                        lines,
                        self.options['emphasize-lines'],
                        location=location,
                    )
                extra_args['hl_lines'] = [x + 1 for x in hl_lines if x < lines]
            extra_args['linenostart'] = reader.lineno_start

            if 'caption' in self.options:
                caption = self.options['caption'] or self.arguments[0]
                retnode = container_wrapper(self, retnode, caption)

            # retnode will be note_implicit_target that is linked from caption and numref.
            # when options['name'] is provided, it should be primary ID.
            self.add_name(retnode)

            return [retnode]
        except Exception as exc:
            return [document.reporter.warning(exc, line=self.lineno)]


def setup(app: Sphinx) -> ExtensionMetadata:
    directives.register_directive('highlight', Highlight)
    directives.register_directive('code-block', CodeBlock)
    directives.register_directive('sourcecode', CodeBlock)
    directives.register_directive('literalinclude', LiteralInclude)

    return {
        'version': 'builtin',
        'parallel_read_safe': True,
        'parallel_write_safe': True,
    }
