"""The composite types for Sphinx."""

from __future__ import annotations

import dataclasses
import sys
import types
import typing
from collections.abc import Callable, Sequence
from typing import TYPE_CHECKING, TypeAliasType

from docutils import nodes
from docutils.parsers.rst.states import Inliner

from sphinx.util import logging

if TYPE_CHECKING:
    from collections.abc import Mapping
    from typing import Annotated, Any, Final, Literal, Protocol

    from typing_extensions import TypeIs

    from sphinx.application import Sphinx
    from sphinx.util.inventory import _InventoryItem

    type _RestifyMode = Literal[
        'fully-qualified-except-typing',
        'smart',
    ]
    type _StringifyMode = Literal[
        'fully-qualified-except-typing',
        'fully-qualified',
        'smart',
    ]

AnyTypeAliasType: tuple[type, ...] = (TypeAliasType,)

try:
    import typing_extensions
except ImportError:
    pass
else:
    AnyTypeAliasType += (typing_extensions.TypeAliasType,)

logger = logging.getLogger(__name__)


# classes that have an incorrect .__module__ attribute
# Map of (__module__, __qualname__) to the correct fully-qualified name
_INVALID_BUILTIN_CLASSES: Final[Mapping[tuple[str, str], str]] = {
    # types from 'contextvars'
    ('_contextvars', 'Context'): 'contextvars.Context',
    ('_contextvars', 'ContextVar'): 'contextvars.ContextVar',
    ('_contextvars', 'Token'): 'contextvars.Token',
    # types from 'ctypes':
    ('_ctypes', 'Array'): 'ctypes.Array',
    ('_ctypes', 'Structure'): 'ctypes.Structure',
    ('_ctypes', 'Union'): 'ctypes.Union',
    # types from 'io':
    ('_io', 'BufferedRandom'): 'io.BufferedRandom',
    ('_io', 'BufferedReader'): 'io.BufferedReader',
    ('_io', 'BufferedRWPair'): 'io.BufferedRWPair',
    ('_io', 'BufferedWriter'): 'io.BufferedWriter',
    ('_io', 'BytesIO'): 'io.BytesIO',
    ('_io', 'FileIO'): 'io.FileIO',
    ('_io', 'StringIO'): 'io.StringIO',
    ('_io', 'TextIOWrapper'): 'io.TextIOWrapper',
    # types from 'json':
    ('json.decoder', 'JSONDecoder'): 'json.JSONDecoder',
    ('json.encoder', 'JSONEncoder'): 'json.JSONEncoder',
    # types from 'lzma':
    ('_lzma', 'LZMACompressor'): 'lzma.LZMACompressor',
    ('_lzma', 'LZMADecompressor'): 'lzma.LZMADecompressor',
    # types from 'multiprocessing':
    ('multiprocessing.context', 'Process'): 'multiprocessing.Process',
    # types from 'pathlib':
    ('pathlib._local', 'Path'): 'pathlib.Path',
    ('pathlib._local', 'PosixPath'): 'pathlib.PosixPath',
    ('pathlib._local', 'PurePath'): 'pathlib.PurePath',
    ('pathlib._local', 'PurePosixPath'): 'pathlib.PurePosixPath',
    ('pathlib._local', 'PureWindowsPath'): 'pathlib.PureWindowsPath',
    ('pathlib._local', 'WindowsPath'): 'pathlib.WindowsPath',
    # types from 'pickle':
    ('_pickle', 'Pickler'): 'pickle.Pickler',
    ('_pickle', 'Unpickler'): 'pickle.Unpickler',
    # types from 'struct':
    ('_struct', 'Struct'): 'struct.Struct',
    # types from 'types':
    ('builtins', 'async_generator'): 'types.AsyncGeneratorType',
    ('builtins', 'builtin_function_or_method'): 'types.BuiltinMethodType',
    ('builtins', 'cell'): 'types.CellType',
    ('builtins', 'classmethod_descriptor'): 'types.ClassMethodDescriptorType',
    ('builtins', 'code'): 'types.CodeType',
    ('builtins', 'coroutine'): 'types.CoroutineType',
    ('builtins', 'ellipsis'): 'types.EllipsisType',
    ('builtins', 'frame'): 'types.FrameType',
    ('builtins', 'function'): 'types.LambdaType',
    ('builtins', 'generator'): 'types.GeneratorType',
    ('builtins', 'getset_descriptor'): 'types.GetSetDescriptorType',
    ('builtins', 'mappingproxy'): 'types.MappingProxyType',
    ('builtins', 'member_descriptor'): 'types.MemberDescriptorType',
    ('builtins', 'method'): 'types.MethodType',
    ('builtins', 'method-wrapper'): 'types.MethodWrapperType',
    ('builtins', 'method_descriptor'): 'types.MethodDescriptorType',
    ('builtins', 'module'): 'types.ModuleType',
    ('builtins', 'NoneType'): 'types.NoneType',
    ('builtins', 'NotImplementedType'): 'types.NotImplementedType',
    ('builtins', 'traceback'): 'types.TracebackType',
    ('builtins', 'wrapper_descriptor'): 'types.WrapperDescriptorType',
    # types from 'weakref':
    ('_weakrefset', 'WeakSet'): 'weakref.WeakSet',
    # types from 'zipfile':
    ('zipfile._path', 'CompleteDirs'): 'zipfile.CompleteDirs',
    ('zipfile._path', 'Path'): 'zipfile.Path',
}


def is_invalid_builtin_class(obj: Any) -> str:
    """Check *obj* is an invalid built-in class."""
    try:
        key = obj.__module__, obj.__qualname__
    except AttributeError:  # non-standard type
        return ''
    return _INVALID_BUILTIN_CLASSES.get(key, '')


# Text like nodes which are initialized with text and rawsource
type TextlikeNode = nodes.Text | nodes.TextElement

# path matcher
type PathMatcher = Callable[[str], bool]

# common role functions
if TYPE_CHECKING:

    class RoleFunction(Protocol):
        def __call__(
            self,
            name: str,
            rawtext: str,
            text: str,
            lineno: int,
            inliner: Inliner,
            /,
            options: dict[str, Any] | None = None,
            content: Sequence[str] = (),
        ) -> tuple[list[nodes.Node], list[nodes.system_message]]: ...

else:
    type RoleFunction = Callable[
        [str, str, str, int, Inliner, dict[str, typing.Any], Sequence[str]],
        tuple[list[nodes.Node], list[nodes.system_message]],
    ]

# A option spec for directive
type OptionSpec = dict[str, Callable[[str], typing.Any]]

# title getter functions for enumerable nodes (see sphinx.domains.std)
type TitleGetter = Callable[[nodes.Node], str]

# inventory data on memory
type Inventory = dict[str, dict[str, _InventoryItem]]


class ExtensionMetadata(typing.TypedDict, total=False):
    """The metadata returned by an extension's ``setup()`` function.

    See :ref:`ext-metadata`.
    """

    version: str
    """The extension version (default: ``'unknown version'``)."""
    env_version: int
    """An integer that identifies the version of env data added by the extension."""
    parallel_read_safe: bool
    """Indicate whether parallel reading of source files is supported
    by the extension.
    """
    parallel_write_safe: bool
    """Indicate whether parallel writing of output files is supported
    by the extension (default: ``True``).
    """


if TYPE_CHECKING:
    type _ExtensionSetupFunc = Callable[[Sphinx], ExtensionMetadata]  # NoQA: PYI047 (false positive)


def get_type_hints(
    obj: Any,
    globalns: dict[str, Any] | None = None,
    localns: Mapping[str, Any] | None = None,
    include_extras: bool = False,
) -> dict[str, Any]:
    """Return a dictionary containing type hints for a function, method, module or class
    object.

    This is a simple wrapper of `typing.get_type_hints()` that does not raise an error on
    runtime.
    """
    from sphinx.util.inspect import safe_getattr  # lazy loading

    try:
        return typing.get_type_hints(
            obj, globalns, localns, include_extras=include_extras
        )
    except NameError:
        # Failed to evaluate ForwardRef (maybe TYPE_CHECKING)
        return safe_getattr(obj, '__annotations__', {})
    except AttributeError:
        # Failed to evaluate ForwardRef (maybe not runtime checkable)
        return safe_getattr(obj, '__annotations__', {})
    except TypeError:
        # Invalid object is given. But try to get __annotations__ as a fallback.
        return safe_getattr(obj, '__annotations__', {})
    except KeyError:
        # a broken class found
        # See: https://github.com/sphinx-doc/sphinx/issues/8084
        return {}


def is_system_TypeVar(typ: Any) -> bool:
    """Check *typ* is system defined TypeVar."""
    modname = getattr(typ, '__module__', '')
    return modname == 'typing' and isinstance(typ, typing.TypeVar)


def _is_annotated_form(obj: Any) -> TypeIs[Annotated[Any, ...]]:
    """Check if *obj* is an annotated type."""
    return (
        typing.get_origin(obj) is typing.Annotated
        or str(obj).startswith('typing.Annotated')
    )  # fmt: skip


def _is_unpack_form(obj: Any) -> bool:
    """Check if the object is :class:`typing.Unpack` or equivalent."""
    return typing.get_origin(obj) is typing.Unpack


def restify(cls: Any, mode: _RestifyMode = 'fully-qualified-except-typing') -> str:
    """Convert a type-like object to a reST reference.

    :param mode: Specify a method how annotations will be stringified.

                 'fully-qualified-except-typing'
                     Show the module name and qualified name of the annotation except
                     the "typing" module.
                 'smart'
                     Show the name of the annotation.
    """
    from sphinx.ext.autodoc._dynamic._mock import ismock, ismockmodule  # lazy loading
    from sphinx.util.inspect import isgenericalias, object_description  # lazy loading

    valid_modes = {'fully-qualified-except-typing', 'smart'}
    if mode not in valid_modes:
        valid = ', '.join(map(repr, sorted(valid_modes)))
        msg = f'mode must be one of {valid}; got {mode!r}'
        raise ValueError(msg)

    # things that are not types
    if cls is None or cls == types.NoneType:
        return ':py:obj:`None`'
    if cls is Ellipsis:
        return '...'
    if isinstance(cls, str):
        return cls

    cls_module_is_typing = getattr(cls, '__module__', '') == 'typing'

    # If the mode is 'smart', we always use '~'.
    # If the mode is 'fully-qualified-except-typing',
    # we use '~' only for the objects in the ``typing`` module.
    module_prefix = '~' if mode == 'smart' or cls_module_is_typing else ''

    try:
        if ismockmodule(cls):
            return f':py:class:`{module_prefix}{cls.__name__}`'
        elif ismock(cls):
            return f':py:class:`{module_prefix}{cls.__module__}.{cls.__name__}`'
        elif fixed_cls := is_invalid_builtin_class(cls):
            # The above predicate never raises TypeError but should not be
            # evaluated before determining whether *cls* is a mocked object
            # or not; instead of two try-except blocks, we keep it here.
            return f':py:class:`{module_prefix}{fixed_cls}`'
        elif _is_annotated_form(cls):
            args = restify(cls.__args__[0], mode)
            meta_args = []
            for m in cls.__metadata__:
                if isinstance(m, type):
                    meta_args.append(restify(m, mode))
                elif dataclasses.is_dataclass(m):
                    # use restify for the repr of field values rather than repr
                    d_fields = ', '.join([
                        rf'{f.name}=\ {restify(getattr(m, f.name), mode)}'
                        for f in dataclasses.fields(m)
                        if f.repr
                    ])
                    meta_args.append(rf'{restify(type(m), mode)}\ ({d_fields})')
                else:
                    meta_args.append(repr(m))
            meta = ', '.join(meta_args)
            return (
                f':py:class:`{module_prefix}{cls.__module__}.{cls.__name__}`'
                rf'\ [{args}, {meta}]'
            )
        elif isinstance(cls, typing.NewType):
            return f':py:class:`{module_prefix}{cls.__module__}.{cls.__name__}`'  # type: ignore[attr-defined]
        elif isinstance(cls, types.UnionType) or (
            isgenericalias(cls)
            and cls_module_is_typing
            and cls.__origin__ is typing.Union
        ):
            # Union types (PEP 585) retain their definition order when they
            # are printed natively and ``None``-like types are kept as is.
            # *cls* is defined in ``typing``, and thus ``__args__`` must exist
            return ' | '.join(restify(a, mode) for a in cls.__args__)
        elif isinstance(cls, AnyTypeAliasType):
            # TODO: Use ``__qualname__`` here unconditionally (not yet supported)
            if hasattr(cls, '__qualname__'):
                return f':py:type:`{module_prefix}{cls.__module__}.{cls.__qualname__}`'
            return f':py:type:`{module_prefix}{cls.__module__}.{cls.__name__}`'  # type: ignore[attr-defined]
        elif cls.__module__ in {'__builtin__', 'builtins'}:
            if hasattr(cls, '__args__'):
                if not cls.__args__:  # Empty tuple, list, ...
                    return rf':py:class:`{cls.__name__}`\ [{cls.__args__!r}]'

                concatenated_args = ', '.join(
                    restify(arg, mode) for arg in cls.__args__
                )
                return rf':py:class:`{cls.__name__}`\ [{concatenated_args}]'
            return f':py:class:`{cls.__name__}`'
        elif isgenericalias(cls):
            if cls.__name__ and not isinstance(cls.__origin__, typing._SpecialForm):
                # Represent generic aliases as the classes in ``typing`` rather
                # than the underlying aliased classes,
                # e.g. ``~typing.Tuple`` instead of ``tuple``.
                text = f':py:class:`{module_prefix}{cls.__module__}.{cls.__name__}`'
            else:
                text = restify(cls.__origin__, mode)

            __args__ = getattr(cls, '__args__', ())
            if not __args__:
                return text
            if all(map(is_system_TypeVar, __args__)):
                # Don't print the arguments; they're all system defined type variables.
                return text

            # Callable has special formatting
            if (
                (cls_module_is_typing and cls.__name__ == 'Callable')
                or (cls.__module__ == 'collections.abc' and cls.__name__ == 'Callable')
            ):  # fmt: skip
                args = ', '.join(restify(a, mode) for a in __args__[:-1])
                returns = restify(__args__[-1], mode)
                return rf'{text}\ [[{args}], {returns}]'

            if cls_module_is_typing and cls.__origin__.__name__ == 'Literal':
                args = ', '.join(
                    _format_literal_arg_restify(a, mode=mode) for a in cls.__args__
                )
                return rf'{text}\ [{args}]'

            # generic representation of the parameters
            args = ', '.join(restify(a, mode) for a in __args__)
            return rf'{text}\ [{args}]'
        elif isinstance(cls, typing._SpecialForm):
            return f':py:obj:`~{cls.__module__}.{cls.__name__}`'  # type: ignore[attr-defined]
        elif cls is typing.Any:
            # handle bpo-46998
            return f':py:obj:`~{cls.__module__}.{cls.__name__}`'
        elif hasattr(cls, '__qualname__'):
            return f':py:class:`{module_prefix}{cls.__module__}.{cls.__qualname__}`'
        elif isinstance(cls, typing.ForwardRef):
            return f':py:class:`{cls.__forward_arg__}`'
        else:
            # not a class (ex. TypeVar) but should have a __name__
            return f':py:obj:`{module_prefix}{cls.__module__}.{cls.__name__}`'
    except (AttributeError, TypeError) as exc:
        logger.debug('restify on %r in mode %r failed: %r', cls, mode, exc)
        return object_description(cls)


def _format_literal_arg_restify(arg: Any, /, *, mode: str) -> str:
    from sphinx.util.inspect import isenumattribute  # lazy loading

    if isenumattribute(arg):
        enum_cls = arg.__class__
        if mode == 'smart' or enum_cls.__module__ == 'typing':
            # MyEnum.member
            return (
                f':py:attr:`~{enum_cls.__module__}.{enum_cls.__qualname__}.{arg.name}`'
            )
        # module.MyEnum.member
        return f':py:attr:`{enum_cls.__module__}.{enum_cls.__qualname__}.{arg.name}`'
    return repr(arg)


def stringify_annotation(
    annotation: Any,
    /,
    mode: _StringifyMode = 'fully-qualified-except-typing',
    *,
    short_literals: bool = False,
) -> str:
    """Stringify type annotation object.

    :param annotation: The annotation to stringified.
    :param mode: Specify a method how annotations will be stringified.

                 'fully-qualified-except-typing'
                     Show the module name and qualified name of the annotation except
                     the "typing" module.
                 'smart'
                     Show the name of the annotation.
                 'fully-qualified'
                     Show the module name and qualified name of the annotation.

    :param short_literals: Render :py:class:`Literals` in PEP 604 style (``|``).
    """
    from sphinx.ext.autodoc._dynamic._mock import ismock, ismockmodule  # lazy loading

    valid_modes = {'fully-qualified-except-typing', 'fully-qualified', 'smart'}
    if mode not in valid_modes:
        valid = ', '.join(map(repr, sorted(valid_modes)))
        msg = f'mode must be one of {valid}; got {mode!r}'
        raise ValueError(msg)

    # things that are not types
    if annotation is None or annotation == types.NoneType:
        return 'None'
    if annotation is Ellipsis:
        return '...'
    if isinstance(annotation, str):
        if annotation.startswith("'") and annotation.endswith("'"):
            # Might be a double Forward-ref'ed type.  Go unquoting.
            return annotation[1:-1]
        return annotation
    if not annotation:
        return repr(annotation)

    module_prefix = '~' if mode == 'smart' else ''

    # The values below must be strings if the objects are well-formed.
    annotation_qualname: str = getattr(annotation, '__qualname__', '')
    annotation_module: str = getattr(annotation, '__module__', '')
    annotation_name: str = getattr(annotation, '__name__', '')
    annotation_module_is_typing = annotation_module == 'typing'
    if sys.version_info[:2] >= (3, 14) and isinstance(annotation, typing.ForwardRef):
        # ForwardRef moved from `typing` to `annotationlib` in Python 3.14.
        annotation_module_is_typing = True

    # Extract the annotation's base type by considering formattable cases
    if isinstance(
        annotation, (typing.TypeVar, AnyTypeAliasType)
    ) and not _is_unpack_form(annotation):
        # typing_extensions.Unpack is incorrectly determined as a TypeVar
        if annotation_module_is_typing and mode in {
            'fully-qualified-except-typing',
            'smart',
        }:
            return annotation_name
        return module_prefix + f'{annotation_module}.{annotation_name}'
    elif isinstance(annotation, typing.NewType):
        return module_prefix + f'{annotation_module}.{annotation_name}'
    elif ismockmodule(annotation):
        return module_prefix + annotation_name
    elif ismock(annotation):
        return module_prefix + f'{annotation_module}.{annotation_name}'
    elif fixed_annotation := is_invalid_builtin_class(annotation):
        return module_prefix + fixed_annotation
    elif _is_annotated_form(annotation):
        pass
    elif annotation_module == 'builtins' and annotation_qualname:
        args = getattr(annotation, '__args__', None)
        if args is None:
            return annotation_qualname

        # PEP 585 generic
        if not args:  # Empty tuple, list, ...
            return repr(annotation)

        concatenated_args = ', '.join(
            stringify_annotation(arg, mode=mode, short_literals=short_literals)
            for arg in args
        )
        return f'{annotation_qualname}[{concatenated_args}]'
    else:
        # add other special cases that can be directly formatted
        pass

    module_prefix = f'{annotation_module}.'
    annotation_forward_arg: str | None = getattr(annotation, '__forward_arg__', None)
    if annotation_qualname or (
        annotation_module_is_typing and not annotation_forward_arg
    ):
        if mode == 'smart':
            module_prefix = f'~{module_prefix}'
        if annotation_module_is_typing and mode == 'fully-qualified-except-typing':
            module_prefix = ''
    elif _is_unpack_form(annotation) and annotation_module == 'typing_extensions':
        module_prefix = '~' if mode == 'smart' else ''
    else:
        module_prefix = ''

    if annotation_module_is_typing:
        if annotation_forward_arg:
            # handle ForwardRefs
            qualname = annotation_forward_arg
        else:
            if annotation_name:
                qualname = annotation_name
            elif annotation_qualname:
                qualname = annotation_qualname
            else:
                # in this case, we know that the annotation is a member
                # of ``typing`` and all of them define ``__origin__``
                qualname = stringify_annotation(
                    annotation.__origin__,
                    mode='fully-qualified-except-typing',
                    short_literals=short_literals,
                ).replace('typing.', '')  # ex. Union
    elif annotation_qualname:
        qualname = annotation_qualname
    elif hasattr(annotation, '__origin__'):
        # instantiated generic provided by a user
        qualname = stringify_annotation(
            annotation.__origin__, mode=mode, short_literals=short_literals
        )
    elif isinstance(annotation, types.UnionType):
        qualname = 'types.UnionType'
    else:
        # we weren't able to extract the base type, appending arguments would
        # only make them appear twice
        return repr(annotation)

    # Process the generic arguments (if any).
    # They must be a list or a tuple, otherwise they are considered 'broken'.
    annotation_args = getattr(annotation, '__args__', ())
    if annotation_args and isinstance(annotation_args, (list, tuple)):
        if (
            qualname in {'Union', 'types.UnionType'}
            and all(getattr(a, '__origin__', ...) is typing.Literal for a in annotation_args)
        ):  # fmt: skip
            # special case to flatten a Union of Literals into a literal
            flattened_args = typing.Literal[annotation_args].__args__  # type: ignore[attr-defined]
            args = ', '.join(
                _format_literal_arg_stringify(a, mode=mode) for a in flattened_args
            )
            return f'{module_prefix}Literal[{args}]'
        if qualname in {'Optional', 'Union', 'types.UnionType'}:
            return ' | '.join(
                stringify_annotation(a, mode=mode, short_literals=short_literals)
                for a in annotation_args
            )
        elif qualname == 'Callable':
            args = ', '.join(
                stringify_annotation(a, mode=mode, short_literals=short_literals)
                for a in annotation_args[:-1]
            )
            returns = stringify_annotation(
                annotation_args[-1], mode=mode, short_literals=short_literals
            )
            return f'{module_prefix}Callable[[{args}], {returns}]'
        elif qualname == 'Literal':
            if short_literals:
                return ' | '.join(
                    _format_literal_arg_stringify(a, mode=mode) for a in annotation_args
                )
            args = ', '.join(
                _format_literal_arg_stringify(a, mode=mode) for a in annotation_args
            )
            return f'{module_prefix}Literal[{args}]'
        elif _is_annotated_form(annotation):
            args = stringify_annotation(
                annotation_args[0], mode=mode, short_literals=short_literals
            )
            meta_args = []
            for m in annotation.__metadata__:
                if isinstance(m, type):
                    meta_args.append(
                        stringify_annotation(
                            m, mode=mode, short_literals=short_literals
                        )
                    )
                elif dataclasses.is_dataclass(m):
                    # use stringify_annotation for the repr of field values rather than repr
                    d_fields = ', '.join([
                        f'{f.name}={stringify_annotation(getattr(m, f.name), mode=mode, short_literals=short_literals)}'  # NoQA: E501
                        for f in dataclasses.fields(m)
                        if f.repr
                    ])
                    meta_args.append(
                        f'{stringify_annotation(type(m), mode=mode, short_literals=short_literals)}({d_fields})'  # NoQA: E501
                    )
                else:
                    meta_args.append(repr(m))
            meta = ', '.join(meta_args)
            return f'{module_prefix}Annotated[{args}, {meta}]'
        elif all(is_system_TypeVar(a) for a in annotation_args):
            # Suppress arguments if all system defined TypeVars (ex. Dict[KT, VT])
            return module_prefix + qualname
        else:
            args = ', '.join(
                stringify_annotation(a, mode=mode, short_literals=short_literals)
                for a in annotation_args
            )
            return f'{module_prefix}{qualname}[{args}]'

    return module_prefix + qualname


def _format_literal_arg_stringify(arg: Any, /, *, mode: str) -> str:
    from sphinx.util.inspect import isenumattribute  # lazy loading

    if isenumattribute(arg):
        enum_cls = arg.__class__
        if mode == 'smart' or enum_cls.__module__ == 'typing':
            # MyEnum.member
            return f'{enum_cls.__qualname__}.{arg.name}'
        # module.MyEnum.member
        return f'{enum_cls.__module__}.{enum_cls.__qualname__}.{arg.name}'
    return repr(arg)


# deprecated name -> (object to return, canonical path or empty string, removal version)
_DEPRECATED_OBJECTS: dict[str, tuple[Any, str, tuple[int, int]]] = {
}  # fmt: skip


def __getattr__(name: str) -> Any:
    if name not in _DEPRECATED_OBJECTS:
        msg = f'module {__name__!r} has no attribute {name!r}'
        raise AttributeError(msg)

    from sphinx.deprecation import _deprecation_warning

    deprecated_object, canonical_name, remove = _DEPRECATED_OBJECTS[name]
    _deprecation_warning(__name__, name, canonical_name, remove=remove)
    return deprecated_object
