"""
Internal hook annotation, representation and calling machinery.
"""

from __future__ import annotations

from collections.abc import Generator
from collections.abc import Mapping
from collections.abc import Sequence
from collections.abc import Set
import inspect
import sys
from types import ModuleType
from typing import Any
from typing import Callable
from typing import Final
from typing import final
from typing import Optional
from typing import overload
from typing import TYPE_CHECKING
from typing import TypedDict
from typing import TypeVar
from typing import Union
import warnings

from ._result import Result


_T = TypeVar("_T")
_F = TypeVar("_F", bound=Callable[..., object])
_Namespace = Union[ModuleType, type]
_Plugin = object
_HookExec = Callable[
    [str, Sequence["HookImpl"], Mapping[str, object], bool],
    Union[object, list[object]],
]
_HookImplFunction = Callable[..., Union[_T, Generator[None, Result[_T], None]]]


class HookspecOpts(TypedDict):
    """Options for a hook specification."""

    #: Whether the hook is :ref:`first result only <firstresult>`.
    firstresult: bool
    #: Whether the hook is :ref:`historic <historic>`.
    historic: bool
    #: Whether the hook :ref:`warns when implemented <warn_on_impl>`.
    warn_on_impl: Warning | None
    #: Whether the hook warns when :ref:`certain arguments are requested
    #: <warn_on_impl>`.
    #:
    #: .. versionadded:: 1.5
    warn_on_impl_args: Mapping[str, Warning] | None


class HookimplOpts(TypedDict):
    """Options for a hook implementation."""

    #: Whether the hook implementation is a :ref:`wrapper <hookwrapper>`.
    wrapper: bool
    #: Whether the hook implementation is an :ref:`old-style wrapper
    #: <old_style_hookwrappers>`.
    hookwrapper: bool
    #: Whether validation against a hook specification is :ref:`optional
    #: <optionalhook>`.
    optionalhook: bool
    #: Whether to try to order this hook implementation :ref:`first
    #: <callorder>`.
    tryfirst: bool
    #: Whether to try to order this hook implementation :ref:`last
    #: <callorder>`.
    trylast: bool
    #: The name of the hook specification to match, see :ref:`specname`.
    specname: str | None


@final
class HookspecMarker:
    """Decorator for marking functions as hook specifications.

    Instantiate it with a project_name to get a decorator.
    Calling :meth:`PluginManager.add_hookspecs` later will discover all marked
    functions if the :class:`PluginManager` uses the same project name.
    """

    __slots__ = ("project_name",)

    def __init__(self, project_name: str) -> None:
        self.project_name: Final = project_name

    @overload
    def __call__(
        self,
        function: _F,
        firstresult: bool = False,
        historic: bool = False,
        warn_on_impl: Warning | None = None,
        warn_on_impl_args: Mapping[str, Warning] | None = None,
    ) -> _F: ...

    @overload  # noqa: F811
    def __call__(  # noqa: F811
        self,
        function: None = ...,
        firstresult: bool = ...,
        historic: bool = ...,
        warn_on_impl: Warning | None = ...,
        warn_on_impl_args: Mapping[str, Warning] | None = ...,
    ) -> Callable[[_F], _F]: ...

    def __call__(  # noqa: F811
        self,
        function: _F | None = None,
        firstresult: bool = False,
        historic: bool = False,
        warn_on_impl: Warning | None = None,
        warn_on_impl_args: Mapping[str, Warning] | None = None,
    ) -> _F | Callable[[_F], _F]:
        """If passed a function, directly sets attributes on the function
        which will make it discoverable to :meth:`PluginManager.add_hookspecs`.

        If passed no function, returns a decorator which can be applied to a
        function later using the attributes supplied.

        :param firstresult:
            If ``True``, the 1:N hook call (N being the number of registered
            hook implementation functions) will stop at I<=N when the I'th
            function returns a non-``None`` result. See :ref:`firstresult`.

        :param historic:
            If ``True``, every call to the hook will be memorized and replayed
            on plugins registered after the call was made. See :ref:`historic`.

        :param warn_on_impl:
            If given, every implementation of this hook will trigger the given
            warning. See :ref:`warn_on_impl`.

        :param warn_on_impl_args:
            If given, every implementation of this hook which requests one of
            the arguments in the dict will trigger the corresponding warning.
            See :ref:`warn_on_impl`.

            .. versionadded:: 1.5
        """

        def setattr_hookspec_opts(func: _F) -> _F:
            if historic and firstresult:
                raise ValueError("cannot have a historic firstresult hook")
            opts: HookspecOpts = {
                "firstresult": firstresult,
                "historic": historic,
                "warn_on_impl": warn_on_impl,
                "warn_on_impl_args": warn_on_impl_args,
            }
            setattr(func, self.project_name + "_spec", opts)
            return func

        if function is not None:
            return setattr_hookspec_opts(function)
        else:
            return setattr_hookspec_opts


@final
class HookimplMarker:
    """Decorator for marking functions as hook implementations.

    Instantiate it with a ``project_name`` to get a decorator.
    Calling :meth:`PluginManager.register` later will discover all marked
    functions if the :class:`PluginManager` uses the same project name.
    """

    __slots__ = ("project_name",)

    def __init__(self, project_name: str) -> None:
        self.project_name: Final = project_name

    @overload
    def __call__(
        self,
        function: _F,
        hookwrapper: bool = ...,
        optionalhook: bool = ...,
        tryfirst: bool = ...,
        trylast: bool = ...,
        specname: str | None = ...,
        wrapper: bool = ...,
    ) -> _F: ...

    @overload  # noqa: F811
    def __call__(  # noqa: F811
        self,
        function: None = ...,
        hookwrapper: bool = ...,
        optionalhook: bool = ...,
        tryfirst: bool = ...,
        trylast: bool = ...,
        specname: str | None = ...,
        wrapper: bool = ...,
    ) -> Callable[[_F], _F]: ...

    def __call__(  # noqa: F811
        self,
        function: _F | None = None,
        hookwrapper: bool = False,
        optionalhook: bool = False,
        tryfirst: bool = False,
        trylast: bool = False,
        specname: str | None = None,
        wrapper: bool = False,
    ) -> _F | Callable[[_F], _F]:
        """If passed a function, directly sets attributes on the function
        which will make it discoverable to :meth:`PluginManager.register`.

        If passed no function, returns a decorator which can be applied to a
        function later using the attributes supplied.

        :param optionalhook:
            If ``True``, a missing matching hook specification will not result
            in an error (by default it is an error if no matching spec is
            found). See :ref:`optionalhook`.

        :param tryfirst:
            If ``True``, this hook implementation will run as early as possible
            in the chain of N hook implementations for a specification. See
            :ref:`callorder`.

        :param trylast:
            If ``True``, this hook implementation will run as late as possible
            in the chain of N hook implementations for a specification. See
            :ref:`callorder`.

        :param wrapper:
            If ``True`` ("new-style hook wrapper"), the hook implementation
            needs to execute exactly one ``yield``. The code before the
            ``yield`` is run early before any non-hook-wrapper function is run.
            The code after the ``yield`` is run after all non-hook-wrapper
            functions have run. The ``yield`` receives the result value of the
            inner calls, or raises the exception of inner calls (including
            earlier hook wrapper calls). The return value of the function
            becomes the return value of the hook, and a raised exception becomes
            the exception of the hook. See :ref:`hookwrapper`.

        :param hookwrapper:
            If ``True`` ("old-style hook wrapper"), the hook implementation
            needs to execute exactly one ``yield``. The code before the
            ``yield`` is run early before any non-hook-wrapper function is run.
            The code after the ``yield`` is run after all non-hook-wrapper
            function have run  The ``yield`` receives a :class:`Result` object
            representing the exception or result outcome of the inner calls
            (including earlier hook wrapper calls). This option is mutually
            exclusive with ``wrapper``. See :ref:`old_style_hookwrapper`.

        :param specname:
            If provided, the given name will be used instead of the function
            name when matching this hook implementation to a hook specification
            during registration. See :ref:`specname`.

        .. versionadded:: 1.2.0
            The ``wrapper`` parameter.
        """

        def setattr_hookimpl_opts(func: _F) -> _F:
            opts: HookimplOpts = {
                "wrapper": wrapper,
                "hookwrapper": hookwrapper,
                "optionalhook": optionalhook,
                "tryfirst": tryfirst,
                "trylast": trylast,
                "specname": specname,
            }
            setattr(func, self.project_name + "_impl", opts)
            return func

        if function is None:
            return setattr_hookimpl_opts
        else:
            return setattr_hookimpl_opts(function)


def normalize_hookimpl_opts(opts: HookimplOpts) -> None:
    opts.setdefault("tryfirst", False)
    opts.setdefault("trylast", False)
    opts.setdefault("wrapper", False)
    opts.setdefault("hookwrapper", False)
    opts.setdefault("optionalhook", False)
    opts.setdefault("specname", None)


_PYPY = hasattr(sys, "pypy_version_info")


def varnames(func: object) -> tuple[tuple[str, ...], tuple[str, ...]]:
    """Return tuple of positional and keywrord argument names for a function,
    method, class or callable.

    In case of a class, its ``__init__`` method is considered.
    For methods the ``self`` parameter is not included.
    """
    if inspect.isclass(func):
        try:
            func = func.__init__
        except AttributeError:  # pragma: no cover - pypy special case
            return (), ()
    elif not inspect.isroutine(func):  # callable object?
        try:
            func = getattr(func, "__call__", func)
        except Exception:  # pragma: no cover - pypy special case
            return (), ()

    try:
        # func MUST be a function or method here or we won't parse any args.
        sig = inspect.signature(
            func.__func__ if inspect.ismethod(func) else func  # type:ignore[arg-type]
        )
    except TypeError:  # pragma: no cover
        return (), ()

    _valid_param_kinds = (
        inspect.Parameter.POSITIONAL_ONLY,
        inspect.Parameter.POSITIONAL_OR_KEYWORD,
    )
    _valid_params = {
        name: param
        for name, param in sig.parameters.items()
        if param.kind in _valid_param_kinds
    }
    args = tuple(_valid_params)
    defaults = (
        tuple(
            param.default
            for param in _valid_params.values()
            if param.default is not param.empty
        )
        or None
    )

    if defaults:
        index = -len(defaults)
        args, kwargs = args[:index], tuple(args[index:])
    else:
        kwargs = ()

    # strip any implicit instance arg
    # pypy3 uses "obj" instead of "self" for default dunder methods
    if not _PYPY:
        implicit_names: tuple[str, ...] = ("self",)
    else:  # pragma: no cover
        implicit_names = ("self", "obj")
    if args:
        qualname: str = getattr(func, "__qualname__", "")
        if inspect.ismethod(func) or ("." in qualname and args[0] in implicit_names):
            args = args[1:]

    return args, kwargs


@final
class HookRelay:
    """Hook holder object for performing 1:N hook calls where N is the number
    of registered plugins."""

    __slots__ = ("__dict__",)

    def __init__(self) -> None:
        """:meta private:"""

    if TYPE_CHECKING:

        def __getattr__(self, name: str) -> HookCaller: ...


# Historical name (pluggy<=1.2), kept for backward compatibility.
_HookRelay = HookRelay


_CallHistory = list[tuple[Mapping[str, object], Optional[Callable[[Any], None]]]]


class HookCaller:
    """A caller of all registered implementations of a hook specification."""

    __slots__ = (
        "name",
        "spec",
        "_hookexec",
        "_hookimpls",
        "_call_history",
    )

    def __init__(
        self,
        name: str,
        hook_execute: _HookExec,
        specmodule_or_class: _Namespace | None = None,
        spec_opts: HookspecOpts | None = None,
    ) -> None:
        """:meta private:"""
        #: Name of the hook getting called.
        self.name: Final = name
        self._hookexec: Final = hook_execute
        # The hookimpls list. The caller iterates it *in reverse*. Format:
        # 1. trylast nonwrappers
        # 2. nonwrappers
        # 3. tryfirst nonwrappers
        # 4. trylast wrappers
        # 5. wrappers
        # 6. tryfirst wrappers
        self._hookimpls: Final[list[HookImpl]] = []
        self._call_history: _CallHistory | None = None
        # TODO: Document, or make private.
        self.spec: HookSpec | None = None
        if specmodule_or_class is not None:
            assert spec_opts is not None
            self.set_specification(specmodule_or_class, spec_opts)

    # TODO: Document, or make private.
    def has_spec(self) -> bool:
        return self.spec is not None

    # TODO: Document, or make private.
    def set_specification(
        self,
        specmodule_or_class: _Namespace,
        spec_opts: HookspecOpts,
    ) -> None:
        if self.spec is not None:
            raise ValueError(
                f"Hook {self.spec.name!r} is already registered "
                f"within namespace {self.spec.namespace}"
            )
        self.spec = HookSpec(specmodule_or_class, self.name, spec_opts)
        if spec_opts.get("historic"):
            self._call_history = []

    def is_historic(self) -> bool:
        """Whether this caller is :ref:`historic <historic>`."""
        return self._call_history is not None

    def _remove_plugin(self, plugin: _Plugin) -> None:
        for i, method in enumerate(self._hookimpls):
            if method.plugin == plugin:
                del self._hookimpls[i]
                return
        raise ValueError(f"plugin {plugin!r} not found")

    def get_hookimpls(self) -> list[HookImpl]:
        """Get all registered hook implementations for this hook."""
        return self._hookimpls.copy()

    def _add_hookimpl(self, hookimpl: HookImpl) -> None:
        """Add an implementation to the callback chain."""
        for i, method in enumerate(self._hookimpls):
            if method.hookwrapper or method.wrapper:
                splitpoint = i
                break
        else:
            splitpoint = len(self._hookimpls)
        if hookimpl.hookwrapper or hookimpl.wrapper:
            start, end = splitpoint, len(self._hookimpls)
        else:
            start, end = 0, splitpoint

        if hookimpl.trylast:
            self._hookimpls.insert(start, hookimpl)
        elif hookimpl.tryfirst:
            self._hookimpls.insert(end, hookimpl)
        else:
            # find last non-tryfirst method
            i = end - 1
            while i >= start and self._hookimpls[i].tryfirst:
                i -= 1
            self._hookimpls.insert(i + 1, hookimpl)

    def __repr__(self) -> str:
        return f"<HookCaller {self.name!r}>"

    def _verify_all_args_are_provided(self, kwargs: Mapping[str, object]) -> None:
        # This is written to avoid expensive operations when not needed.
        if self.spec:
            for argname in self.spec.argnames:
                if argname not in kwargs:
                    notincall = ", ".join(
                        repr(argname)
                        for argname in self.spec.argnames
                        # Avoid self.spec.argnames - kwargs.keys()
                        # it doesn't preserve order.
                        if argname not in kwargs.keys()
                    )
                    warnings.warn(
                        f"Argument(s) {notincall} which are declared in the hookspec "
                        "cannot be found in this hook call",
                        stacklevel=2,
                    )
                    break

    def __call__(self, **kwargs: object) -> Any:
        """Call the hook.

        Only accepts keyword arguments, which should match the hook
        specification.

        Returns the result(s) of calling all registered plugins, see
        :ref:`calling`.
        """
        assert not self.is_historic(), (
            "Cannot directly call a historic hook - use call_historic instead."
        )
        self._verify_all_args_are_provided(kwargs)
        firstresult = self.spec.opts.get("firstresult", False) if self.spec else False
        # Copy because plugins may register other plugins during iteration (#438).
        return self._hookexec(self.name, self._hookimpls.copy(), kwargs, firstresult)

    def call_historic(
        self,
        result_callback: Callable[[Any], None] | None = None,
        kwargs: Mapping[str, object] | None = None,
    ) -> None:
        """Call the hook with given ``kwargs`` for all registered plugins and
        for all plugins which will be registered afterwards, see
        :ref:`historic`.

        :param result_callback:
            If provided, will be called for each non-``None`` result obtained
            from a hook implementation.
        """
        assert self._call_history is not None
        kwargs = kwargs or {}
        self._verify_all_args_are_provided(kwargs)
        self._call_history.append((kwargs, result_callback))
        # Historizing hooks don't return results.
        # Remember firstresult isn't compatible with historic.
        # Copy because plugins may register other plugins during iteration (#438).
        res = self._hookexec(self.name, self._hookimpls.copy(), kwargs, False)
        if result_callback is None:
            return
        if isinstance(res, list):
            for x in res:
                result_callback(x)

    def call_extra(
        self, methods: Sequence[Callable[..., object]], kwargs: Mapping[str, object]
    ) -> Any:
        """Call the hook with some additional temporarily participating
        methods using the specified ``kwargs`` as call parameters, see
        :ref:`call_extra`."""
        assert not self.is_historic(), (
            "Cannot directly call a historic hook - use call_historic instead."
        )
        self._verify_all_args_are_provided(kwargs)
        opts: HookimplOpts = {
            "wrapper": False,
            "hookwrapper": False,
            "optionalhook": False,
            "trylast": False,
            "tryfirst": False,
            "specname": None,
        }
        hookimpls = self._hookimpls.copy()
        for method in methods:
            hookimpl = HookImpl(None, "<temp>", method, opts)
            # Find last non-tryfirst nonwrapper method.
            i = len(hookimpls) - 1
            while i >= 0 and (
                # Skip wrappers.
                (hookimpls[i].hookwrapper or hookimpls[i].wrapper)
                # Skip tryfirst nonwrappers.
                or hookimpls[i].tryfirst
            ):
                i -= 1
            hookimpls.insert(i + 1, hookimpl)
        firstresult = self.spec.opts.get("firstresult", False) if self.spec else False
        return self._hookexec(self.name, hookimpls, kwargs, firstresult)

    def _maybe_apply_history(self, method: HookImpl) -> None:
        """Apply call history to a new hookimpl if it is marked as historic."""
        if self.is_historic():
            assert self._call_history is not None
            for kwargs, result_callback in self._call_history:
                res = self._hookexec(self.name, [method], kwargs, False)
                if res and result_callback is not None:
                    # XXX: remember firstresult isn't compat with historic
                    assert isinstance(res, list)
                    result_callback(res[0])


# Historical name (pluggy<=1.2), kept for backward compatibility.
_HookCaller = HookCaller


class _SubsetHookCaller(HookCaller):
    """A proxy to another HookCaller which manages calls to all registered
    plugins except the ones from remove_plugins."""

    # This class is unusual: in inhertits from `HookCaller` so all of
    # the *code* runs in the class, but it delegates all underlying *data*
    # to the original HookCaller.
    # `subset_hook_caller` used to be implemented by creating a full-fledged
    # HookCaller, copying all hookimpls from the original. This had problems
    # with memory leaks (#346) and historic calls (#347), which make a proxy
    # approach better.
    # An alternative implementation is to use a `_getattr__`/`__getattribute__`
    # proxy, however that adds more overhead and is more tricky to implement.

    __slots__ = (
        "_orig",
        "_remove_plugins",
    )

    def __init__(self, orig: HookCaller, remove_plugins: Set[_Plugin]) -> None:
        self._orig = orig
        self._remove_plugins = remove_plugins
        self.name = orig.name  # type: ignore[misc]
        self._hookexec = orig._hookexec  # type: ignore[misc]

    @property  # type: ignore[misc]
    def _hookimpls(self) -> list[HookImpl]:
        return [
            impl
            for impl in self._orig._hookimpls
            if impl.plugin not in self._remove_plugins
        ]

    @property
    def spec(self) -> HookSpec | None:  # type: ignore[override]
        return self._orig.spec

    @property
    def _call_history(self) -> _CallHistory | None:  # type: ignore[override]
        return self._orig._call_history

    def __repr__(self) -> str:
        return f"<_SubsetHookCaller {self.name!r}>"


@final
class HookImpl:
    """A hook implementation in a :class:`HookCaller`."""

    __slots__ = (
        "function",
        "argnames",
        "kwargnames",
        "plugin",
        "opts",
        "plugin_name",
        "wrapper",
        "hookwrapper",
        "optionalhook",
        "tryfirst",
        "trylast",
    )

    def __init__(
        self,
        plugin: _Plugin,
        plugin_name: str,
        function: _HookImplFunction[object],
        hook_impl_opts: HookimplOpts,
    ) -> None:
        """:meta private:"""
        #: The hook implementation function.
        self.function: Final = function
        argnames, kwargnames = varnames(self.function)
        #: The positional parameter names of ``function```.
        self.argnames: Final = argnames
        #: The keyword parameter names of ``function```.
        self.kwargnames: Final = kwargnames
        #: The plugin which defined this hook implementation.
        self.plugin: Final = plugin
        #: The :class:`HookimplOpts` used to configure this hook implementation.
        self.opts: Final = hook_impl_opts
        #: The name of the plugin which defined this hook implementation.
        self.plugin_name: Final = plugin_name
        #: Whether the hook implementation is a :ref:`wrapper <hookwrapper>`.
        self.wrapper: Final = hook_impl_opts["wrapper"]
        #: Whether the hook implementation is an :ref:`old-style wrapper
        #: <old_style_hookwrappers>`.
        self.hookwrapper: Final = hook_impl_opts["hookwrapper"]
        #: Whether validation against a hook specification is :ref:`optional
        #: <optionalhook>`.
        self.optionalhook: Final = hook_impl_opts["optionalhook"]
        #: Whether to try to order this hook implementation :ref:`first
        #: <callorder>`.
        self.tryfirst: Final = hook_impl_opts["tryfirst"]
        #: Whether to try to order this hook implementation :ref:`last
        #: <callorder>`.
        self.trylast: Final = hook_impl_opts["trylast"]

    def __repr__(self) -> str:
        return f"<HookImpl plugin_name={self.plugin_name!r}, plugin={self.plugin!r}>"


@final
class HookSpec:
    __slots__ = (
        "namespace",
        "function",
        "name",
        "argnames",
        "kwargnames",
        "opts",
        "warn_on_impl",
        "warn_on_impl_args",
    )

    def __init__(self, namespace: _Namespace, name: str, opts: HookspecOpts) -> None:
        self.namespace = namespace
        self.function: Callable[..., object] = getattr(namespace, name)
        self.name = name
        self.argnames, self.kwargnames = varnames(self.function)
        self.opts = opts
        self.warn_on_impl = opts.get("warn_on_impl")
        self.warn_on_impl_args = opts.get("warn_on_impl_args")
