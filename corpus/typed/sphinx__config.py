"""Build configuration file handling."""

from __future__ import annotations

import time
import traceback
import types
from contextlib import chdir
from os import getenv
from pathlib import Path
from typing import TYPE_CHECKING, Any, Literal, NamedTuple

from sphinx.errors import ConfigError, ExtensionError
from sphinx.locale import _, __
from sphinx.util import logging

if TYPE_CHECKING:
    import os
    from collections.abc import Collection, Iterable, Iterator, Sequence, Set

    from sphinx.application import Sphinx
    from sphinx.environment import BuildEnvironment
    from sphinx.util.tags import Tags
    from sphinx.util.typing import ExtensionMetadata, _ExtensionSetupFunc

logger = logging.getLogger(__name__)

type _ConfigRebuild = Literal[
    '',
    'env',
    'epub',
    'gettext',
    'html',
    # sphinxcontrib-applehelp
    'applehelp',
    # sphinxcontrib-devhelp
    'devhelp',
]

CONFIG_FILENAME = 'conf.py'
UNSERIALIZABLE_TYPES = (type, types.ModuleType, types.FunctionType)


class ConfigValue(NamedTuple):
    name: str
    value: Any
    rebuild: _ConfigRebuild


def is_serializable(obj: object, *, _seen: frozenset[int] = frozenset()) -> bool:
    """Check if an object is serializable or not."""
    if isinstance(obj, UNSERIALIZABLE_TYPES):
        return False

    # use id() to handle un-hashable objects
    if id(obj) in _seen:
        return True

    if isinstance(obj, dict):
        seen = _seen | {id(obj)}
        return all(
            is_serializable(key, _seen=seen) and is_serializable(value, _seen=seen)
            for key, value in obj.items()
        )
    elif isinstance(obj, (list, tuple, set, frozenset)):
        seen = _seen | {id(obj)}
        return all(is_serializable(item, _seen=seen) for item in obj)

    # if an issue occurs for a non-serializable type, pickle will complain
    # since the object is likely coming from a third-party extension
    # (we natively expect 'simple' types and not weird ones)
    return True


class ENUM:
    """Represents the candidates which a config value should be one of.

    Example:
        app.add_config_value('latex_show_urls', 'no', None, ENUM('no', 'footnote', 'inline'))
    """

    def __init__(self, *candidates: str | bool | None) -> None:
        self._candidates = frozenset(candidates)

    def __repr__(self) -> str:
        return f'ENUM({", ".join(sorted(map(repr, self._candidates)))})'

    def match(self, value: str | bool | None | Sequence[str | bool | None]) -> bool:  # NoQA: RUF036
        if isinstance(value, (str, bool, types.NoneType)):
            return value in self._candidates
        return all(item in self._candidates for item in value)


type _OptValidTypes = frozenset[type] | ENUM


class _Opt:
    __slots__ = 'default', 'rebuild', 'valid_types', 'description'

    default: Any
    rebuild: _ConfigRebuild
    valid_types: _OptValidTypes
    description: str

    def __init__(
        self,
        default: Any,
        rebuild: _ConfigRebuild,
        valid_types: _OptValidTypes,
        description: str = '',
    ) -> None:
        """Configuration option type for Sphinx.

        The type is intended to be immutable; changing the field values
        is an unsupported action.
        No validation is performed on the values, though consumers will
        likely expect them to be of the types advertised.
        The old tuple-based interface will be removed in Sphinx 9.
        """
        super().__setattr__('default', default)
        super().__setattr__('rebuild', rebuild)
        super().__setattr__('valid_types', valid_types)
        super().__setattr__('description', description)

    def __repr__(self) -> str:
        return (
            f'{self.__class__.__qualname__}('
            f'default={self.default!r}, '
            f'rebuild={self.rebuild!r}, '
            f'valid_types={self.rebuild!r}, '
            f'description={self.description!r})'
        )

    def __eq__(self, other: object) -> bool:
        if isinstance(other, _Opt):
            self_tpl = (
                self.default,
                self.rebuild,
                self.valid_types,
                self.description,
            )
            other_tpl = (
                other.default,
                other.rebuild,
                other.valid_types,
                other.description,
            )
            return self_tpl == other_tpl
        return NotImplemented

    def __lt__(self, other: _Opt) -> bool:
        if self.__class__ is other.__class__:
            self_tpl = (
                self.default,
                self.rebuild,
                self.valid_types,
                self.description,
            )
            other_tpl = (
                other.default,
                other.rebuild,
                other.valid_types,
                other.description,
            )
            return self_tpl > other_tpl  # ty: ignore[unsupported-operator]
        return NotImplemented

    def __hash__(self) -> int:
        return hash((self.default, self.rebuild, self.valid_types, self.description))

    def __setattr__(self, key: str, value: Any) -> None:
        if key in {'default', 'rebuild', 'valid_types', 'description'}:
            msg = f'{self.__class__.__name__!r} object does not support assignment to {key!r}'
            raise TypeError(msg)
        super().__setattr__(key, value)

    def __delattr__(self, key: str) -> None:
        if key in {'default', 'rebuild', 'valid_types', 'description'}:
            msg = f'{self.__class__.__name__!r} object does not support deletion of {key!r}'
            raise TypeError(msg)
        super().__delattr__(key)

    def __getstate__(self) -> tuple[Any, _ConfigRebuild, _OptValidTypes, str]:
        return self.default, self.rebuild, self.valid_types, self.description

    def __setstate__(
        self, state: tuple[Any, _ConfigRebuild, _OptValidTypes, str]
    ) -> None:
        default, rebuild, valid_types, description = state
        super().__setattr__('default', default)
        super().__setattr__('rebuild', rebuild)
        super().__setattr__('valid_types', valid_types)
        super().__setattr__('description', description)


class Config:
    r"""Configuration file abstraction.

    The Config object makes the values of all config options available as
    attributes.

    It is exposed via the :py:class:`~sphinx.application.Sphinx`\ ``.config``
    and :py:class:`sphinx.environment.BuildEnvironment`\ ``.config`` attributes.
    For example, to get the value of :confval:`language`, use either
    ``app.config.language`` or ``env.config.language``.
    """

    # The values are:
    # 1. Default
    # 2. What needs to be rebuilt if changed
    # 3. Valid types

    # If you add a value here, remember to include it in the docs!

    config_values: dict[str, _Opt] = {
        # general options
        'project': _Opt('Project name not set', 'env', frozenset((str,))),
        'author': _Opt('Author name not set', 'env', frozenset((str,))),
        'project_copyright': _Opt('', 'html', frozenset((str, tuple, list))),
        'copyright': _Opt(
            lambda config: config.project_copyright,
            'html',
            frozenset((str, tuple, list)),
        ),
        'version': _Opt('', 'env', frozenset((str,))),
        'release': _Opt('', 'env', frozenset((str,))),
        'today': _Opt('', 'env', frozenset((str,))),
        # the real default is locale-dependent
        'today_fmt': _Opt(None, 'env', frozenset((str,))),
        'language': _Opt('en', 'env', frozenset((str,))),
        'locale_dirs': _Opt(['locales'], 'env', frozenset((list, tuple))),
        'figure_language_filename': _Opt(
            '{root}.{language}{ext}', 'env', frozenset((str,))
        ),
        'gettext_allow_fuzzy_translations': _Opt(False, 'gettext', frozenset((bool,))),
        'translation_progress_classes': _Opt(
            False, 'env', ENUM(True, False, 'translated', 'untranslated')
        ),
        'master_doc': _Opt('index', 'env', frozenset((str,))),
        'root_doc': _Opt(lambda config: config.master_doc, 'env', frozenset((str,))),
        # ``source_suffix`` type is actually ``dict[str, str | None]``:
        # see ``convert_source_suffix()`` below.
        'source_suffix': _Opt({'.rst': 'restructuredtext'}, 'env', Any),  # type: ignore[arg-type]
        'source_encoding': _Opt('utf-8-sig', 'env', frozenset((str,))),
        'exclude_patterns': _Opt([], 'env', frozenset((str,))),
        'include_patterns': _Opt(['**'], 'env', frozenset((str,))),
        'default_role': _Opt(None, 'env', frozenset((str,))),
        'add_function_parentheses': _Opt(True, 'env', frozenset((bool,))),
        'add_module_names': _Opt(True, 'env', frozenset((bool,))),
        'toc_object_entries': _Opt(True, 'env', frozenset((bool,))),
        'toc_object_entries_show_parents': _Opt(
            'domain', 'env', ENUM('domain', 'all', 'hide')
        ),
        'trim_footnote_reference_space': _Opt(False, 'env', frozenset((bool,))),
        'show_authors': _Opt(False, 'env', frozenset((bool,))),
        'pygments_style': _Opt(None, 'html', frozenset((str,))),
        'highlight_language': _Opt('default', 'env', frozenset((str,))),
        'highlight_options': _Opt({}, 'env', frozenset((dict,))),
        'templates_path': _Opt([], 'html', frozenset((list,))),
        'template_bridge': _Opt(None, 'html', frozenset((str,))),
        'keep_warnings': _Opt(False, 'env', frozenset((bool,))),
        'suppress_warnings': _Opt([], 'env', frozenset((list, tuple))),
        'show_warning_types': _Opt(True, 'env', frozenset((bool,))),
        'modindex_common_prefix': _Opt([], 'html', frozenset((list, tuple))),
        'rst_epilog': _Opt(None, 'env', frozenset((str,))),
        'rst_prolog': _Opt(None, 'env', frozenset((str,))),
        'trim_doctest_flags': _Opt(True, 'env', frozenset((bool,))),
        'primary_domain': _Opt('py', 'env', frozenset((types.NoneType,))),
        'needs_sphinx': _Opt(None, '', frozenset((str,))),
        'needs_extensions': _Opt({}, '', frozenset((dict,))),
        'manpages_url': _Opt(None, 'env', frozenset((str, types.NoneType))),
        'nitpicky': _Opt(False, '', frozenset((bool,))),
        'nitpick_ignore': _Opt([], '', frozenset((set, list, tuple))),
        'nitpick_ignore_regex': _Opt([], '', frozenset((set, list, tuple))),
        'numfig': _Opt(False, 'env', frozenset((bool,))),
        'numfig_secnum_depth': _Opt(1, 'env', frozenset((int, types.NoneType))),
        # numfig_format will be initialized in init_numfig_format()
        'numfig_format': _Opt({}, 'env', frozenset((dict,))),
        'maximum_signature_line_length': _Opt(
            None, 'env', frozenset((int, types.NoneType))
        ),
        'math_number_all': _Opt(False, 'env', frozenset((bool,))),
        'math_eqref_format': _Opt(None, 'env', frozenset((str,))),
        'math_numfig': _Opt(True, 'env', frozenset((bool,))),
        'math_numsep': _Opt('.', 'env', frozenset((str,))),
        'tls_verify': _Opt(True, 'env', frozenset((bool,))),
        'tls_cacerts': _Opt(None, 'env', frozenset((str, dict, types.NoneType))),
        'user_agent': _Opt(None, 'env', frozenset((str,))),
        'smartquotes': _Opt(True, 'env', frozenset((bool,))),
        'smartquotes_action': _Opt('qDe', 'env', frozenset((str,))),
        'smartquotes_excludes': _Opt(
            {'languages': ['ja', 'zh_CN', 'zh_TW'], 'builders': ['man', 'text']},
            'env',
            frozenset((dict,)),
        ),
        'option_emphasise_placeholders': _Opt(False, 'env', frozenset((bool,))),
    }

    def __init__(
        self,
        config: dict[str, Any] | None = None,
        overrides: dict[str, Any] | None = None,
    ) -> None:
        raw_config: dict[str, Any] = config or {}
        self._overrides = dict(overrides) if overrides is not None else {}
        self._options = Config.config_values.copy()
        self._raw_config = raw_config

        for name in list(self._overrides.keys()):
            if '.' in name:
                real_name, _, key = name.partition('.')
                raw_config.setdefault(real_name, {})[key] = self._overrides.pop(name)

        self.setup: _ExtensionSetupFunc | None = raw_config.get('setup')

        if 'extensions' in self._overrides:
            extensions = self._overrides.pop('extensions')
            if isinstance(extensions, str):
                raw_config['extensions'] = extensions.split(',')
            else:
                raw_config['extensions'] = extensions
        self.extensions: list[str] = raw_config.get('extensions', [])

        self._verbosity: int = 0  # updated in Sphinx.__init__()

    @property
    def values(self) -> dict[str, _Opt]:
        return self._options

    @property
    def overrides(self) -> dict[str, Any]:
        return self._overrides

    @property
    def verbosity(self) -> int:
        return self._verbosity

    @classmethod
    def read(
        cls: type[Config],
        confdir: str | os.PathLike[str],
        *,
        overrides: dict[str, Any],
        tags: Tags,
    ) -> Config:
        """Create a Config object from configuration file."""
        filename = Path(confdir, CONFIG_FILENAME)
        if not filename.is_file():
            raise ConfigError(
                __("config directory doesn't contain a conf.py file (%s)") % confdir
            )
        return _read_conf_py(filename, overrides=overrides, tags=tags)

    def convert_overrides(self, name: str, value: str) -> Any:
        opt = self._options[name]
        default = opt.default
        valid_types = opt.valid_types
        if valid_types == Any:
            return value
        if isinstance(valid_types, ENUM):
            if False in valid_types._candidates and value == '0':
                return False
            if True in valid_types._candidates and value == '1':
                return True
            return value
        elif type(default) is bool or (bool in valid_types):
            if value == '0':
                return False
            if value == '1':
                return True
            if len(valid_types) > 1:
                return value
            msg = __("'%s' must be '0' or '1', got '%s'") % (name, value)
            raise ConfigError(msg)
        if isinstance(default, dict):
            raise ValueError(  # NoQA: TRY004
                __(
                    'cannot override dictionary config setting %r, '
                    'ignoring (use %r to set individual elements)'
                )
                % (name, f'{name}.key=value')
            )
        if isinstance(default, list):
            return value.split(',')
        if isinstance(default, int):
            try:
                return int(value)
            except ValueError as exc:
                raise ValueError(
                    __('invalid number %r for config value %r, ignoring')
                    % (value, name)
                ) from exc
        if callable(default):
            return value
        if isinstance(default, str) or default is None:
            return value
        raise ValueError(
            __('cannot override config setting %r with unsupported type, ignoring')
            % name
        )

    @staticmethod
    def pre_init_values() -> None:
        # method only retained for compatibility
        pass
        # warnings.warn(
        #     'Config.pre_init_values() will be removed in Sphinx 9.0 or later',
        #     RemovedInSphinx90Warning, stacklevel=2)

    def init_values(self) -> None:
        # method only retained for compatibility
        self._report_override_warnings()
        # warnings.warn(
        #     'Config.init_values() will be removed in Sphinx 9.0 or later',
        #     RemovedInSphinx90Warning, stacklevel=2)

    def _report_override_warnings(self) -> None:
        for name in self._overrides:
            if name not in self._options:
                logger.warning(
                    __('unknown config value %r in override, ignoring'), name
                )

    def __repr__(self) -> str:
        values = []
        for opt_name in self._options:
            try:
                opt_value = getattr(self, opt_name)
            except Exception:
                opt_value = '<error!>'
            values.append(f'{opt_name}={opt_value!r}')
        return self.__class__.__qualname__ + '(' + ', '.join(values) + ')'

    def __setattr__(self, key: str, value: object) -> None:
        # Ensure aliases update their counterpart.
        if key == 'master_doc':
            super().__setattr__('root_doc', value)
        elif key == 'root_doc':
            super().__setattr__('master_doc', value)
        elif key == 'copyright':
            super().__setattr__('project_copyright', value)
        elif key == 'project_copyright':
            super().__setattr__('copyright', value)
        super().__setattr__(key, value)

    def __getattr__(self, name: str) -> Any:
        if name in self._options:
            # first check command-line overrides
            if name in self._overrides:
                value = self._overrides[name]
                if not isinstance(value, str):
                    self.__dict__[name] = value
                    return value
                try:
                    value = self.convert_overrides(name, value)
                except ValueError as exc:
                    logger.warning('%s', exc)
                else:
                    self.__setattr__(name, value)
                    return value
            # then check values from 'conf.py'
            if name in self._raw_config:
                value = self._raw_config[name]
                self.__setattr__(name, value)
                return value
            # finally, fall back to the default value
            default = self._options[name].default
            if callable(default):
                return default(self)
            self.__dict__[name] = default
            return default
        if name.startswith('_'):
            msg = f'{self.__class__.__name__!r} object has no attribute {name!r}'
            raise AttributeError(msg)
        msg = __('No such config value: %r') % name
        raise AttributeError(msg)

    def __getitem__(self, name: str) -> Any:
        return getattr(self, name)

    def __setitem__(self, name: str, value: Any) -> None:
        setattr(self, name, value)

    def __delitem__(self, name: str) -> None:
        delattr(self, name)

    def __contains__(self, name: str) -> bool:
        return name in self._options

    def __iter__(self) -> Iterator[ConfigValue]:
        for name, opt in self._options.items():
            yield ConfigValue(name, getattr(self, name), opt.rebuild)

    def add(
        self,
        name: str,
        default: Any,
        rebuild: _ConfigRebuild,
        types: type | Collection[type] | ENUM,
        description: str = '',
    ) -> None:
        if name in self._options:
            raise ExtensionError(__('Config value %r already present') % name)

        # standardise rebuild
        if isinstance(rebuild, bool):
            rebuild = 'env' if rebuild else ''

        # standardise valid_types
        valid_types = _validate_valid_types(types)
        self._options[name] = _Opt(default, rebuild, valid_types, description)

    def filter(self, rebuild: Set[_ConfigRebuild]) -> Iterator[ConfigValue]:
        if isinstance(rebuild, str):
            return (value for value in self if value.rebuild == rebuild)
        return (value for value in self if value.rebuild in rebuild)

    def __getstate__(self) -> dict[str, Any]:
        """Obtains serializable data for pickling."""
        # remove potentially pickling-problematic values from config
        __dict__ = {
            key: value
            for key, value in self.__dict__.items()
            if not key.startswith('_') and is_serializable(value)
        }
        # create a pickleable copy of ``self._options``
        __dict__['_options'] = _options = {}
        for name, opt in self._options.items():
            if not isinstance(opt, _Opt) and isinstance(opt, tuple) and len(opt) <= 3:
                # Fix for Furo's ``_update_default``.
                self._options[name] = opt = _Opt(*opt)
            real_value = getattr(self, name)
            if not is_serializable(real_value):
                if opt.rebuild:
                    # if the value is not cached, then any build that utilises this cache
                    # will always mark the config value as changed,
                    # and thus always invalidate the cache and perform a rebuild.
                    logger.warning(
                        __(
                            'cannot cache unpickleable configuration value: %r '
                            '(because it contains a function, class, or module object)'
                        ),
                        name,
                        type='config',
                        subtype='cache',
                        once=True,
                    )
                # omit unserializable value
                real_value = None
            # valid_types is also omitted
            _options[name] = real_value, opt.rebuild

        return __dict__

    def __setstate__(self, state: dict[str, Any]) -> None:
        self._overrides = {}
        self._options = {
            name: _Opt(real_value, rebuild, frozenset())
            for name, (real_value, rebuild) in state.pop('_options').items()
        }
        self._raw_config = {}
        self.__dict__.update(state)


def _read_conf_py(conf_path: Path, *, overrides: dict[str, Any], tags: Tags) -> Config:
    """Create a Config object from a conf.py file."""
    namespace = eval_config_file(conf_path, tags)

    # Note: Old sphinx projects have been configured as "language = None" because
    #       sphinx-quickstart previously generated this by default.
    #       To keep compatibility, they should be fallback to 'en' for a while
    #       (This conversion should not be removed before 2025-01-01).
    if namespace.get('language', ...) is None:
        logger.warning(
            __(
                "Invalid configuration value found: 'language = None'. "
                'Update your configuration to a valid language code. '
                "Falling back to 'en' (English)."
            )
        )
        namespace['language'] = 'en'
    return Config(namespace, overrides)


def eval_config_file(filename: Path, tags: Tags) -> dict[str, Any]:
    """Evaluate a config file."""
    namespace: dict[str, Any] = {
        '__file__': str(filename),
        'tags': tags,
    }

    with chdir(filename.parent):
        # during executing config file, current dir is changed to ``confdir``.
        try:
            code = compile(filename.read_bytes(), filename, 'exec')
            exec(code, namespace)  # NoQA: S102
        except SyntaxError as err:
            msg = __('There is a syntax error in your configuration file: %s\n')
            raise ConfigError(msg % err) from err
        except SystemExit as exc:
            msg = __(
                'The configuration file (or one of the modules it imports) '
                'called sys.exit()'
            )
            raise ConfigError(msg) from exc
        except ConfigError:
            # pass through ConfigError from conf.py as is.  It will be shown in console.
            raise
        except Exception as exc:
            msg = __('There is a programmable error in your configuration file:\n\n%s')
            raise ConfigError(msg % traceback.format_exc()) from exc

    return namespace


def _validate_valid_types(
    valid_types: type | Collection[type] | ENUM, /
) -> frozenset[type] | ENUM:
    if not valid_types:
        return frozenset()
    if isinstance(valid_types, (frozenset, ENUM)):
        return valid_types  # ty: ignore[invalid-return-type]
    if isinstance(valid_types, type):
        return frozenset((valid_types,))
    if valid_types is Any:
        return frozenset({Any})
    if isinstance(valid_types, set):
        return frozenset(valid_types)
    try:
        return frozenset(valid_types)
    except TypeError:
        logger.warning(__('Failed to convert %r to a frozenset'), valid_types)
        return frozenset()


def convert_source_suffix(app: Sphinx, config: Config) -> None:
    """Convert old styled source_suffix to new styled one.

    * old style: str or list
    * new style: a dict which maps from fileext to filetype
    """
    source_suffix = config.source_suffix
    if isinstance(source_suffix, str):
        # if str, considers as default filetype (None)
        #
        # The default filetype is determined on later step.
        # By default, it is considered as restructuredtext.
        config.source_suffix = {source_suffix: 'restructuredtext'}
        logger.info(
            __('Converting `source_suffix = %r` to `source_suffix = %r`.'),
            source_suffix,
            config.source_suffix,
        )
    elif isinstance(source_suffix, (list, tuple)):
        # if list, considers as all of them are default filetype
        config.source_suffix = dict.fromkeys(source_suffix, 'restructuredtext')
        logger.info(
            __('Converting `source_suffix = %r` to `source_suffix = %r`.'),
            source_suffix,
            config.source_suffix,
        )
    elif not isinstance(source_suffix, dict):
        msg = __(
            "The config value `source_suffix' expects a dictionary, "
            "a string, or a list of strings. Got `%r' instead (type %s)."
        )
        raise ConfigError(msg % (source_suffix, type(source_suffix)))


def convert_highlight_options(app: Sphinx, config: Config) -> None:
    """Convert old styled highlight_options to new styled one.

    * old style: options
    * new style: a dict which maps from language name to options
    """
    options = config.highlight_options
    if options and not all(isinstance(v, dict) for v in options.values()):
        # old styled option detected because all values are not dictionary.
        config.highlight_options = {config.highlight_language: options}


def init_numfig_format(app: Sphinx, config: Config) -> None:
    """Initialize :confval:`numfig_format`."""
    numfig_format = {
        'section': _('Section %s'),
        'figure': _('Fig. %s'),
        'table': _('Table %s'),
        'code-block': _('Listing %s'),
    }

    # override default labels by configuration
    numfig_format.update(config.numfig_format)
    config.numfig_format = numfig_format


def evaluate_copyright_placeholders(_app: Sphinx, config: Config) -> None:
    """Replace copyright year placeholders (%Y) with the current year."""
    replace_yr = str(time.localtime().tm_year)
    for k in ('copyright', 'epub_copyright'):
        if k in config:
            value: str | Sequence[str] = config[k]
            if isinstance(value, str):
                if '%Y' in value:
                    config[k] = value.replace('%Y', replace_yr)
            else:
                if any('%Y' in line for line in value):
                    items = (line.replace('%Y', replace_yr) for line in value)
                    config[k] = type(value)(items)  # type: ignore[call-arg]


def correct_copyright_year(_app: Sphinx, config: Config) -> None:
    """Correct values of copyright year that are not coherent with
    the SOURCE_DATE_EPOCH environment variable (if set)

    See https://reproducible-builds.org/specs/source-date-epoch/
    """
    if source_date_epoch := int(getenv('SOURCE_DATE_EPOCH', '0')):
        source_date_epoch_year = time.gmtime(source_date_epoch).tm_year
    else:
        return

    # If the current year is the replacement year, there's no work to do.
    # We also skip replacement years that are in the future.
    current_year = time.localtime().tm_year
    if current_year <= source_date_epoch_year:
        return

    current_yr = str(current_year)
    replace_yr = str(source_date_epoch_year)
    for k in ('copyright', 'epub_copyright'):
        if k in config:
            value: str | Sequence[str] = config[k]
            if isinstance(value, str):
                config[k] = _substitute_copyright_year(value, current_yr, replace_yr)
            else:
                items = (
                    _substitute_copyright_year(x, current_yr, replace_yr) for x in value
                )
                config[k] = type(value)(items)  # type: ignore[call-arg]


def _substitute_copyright_year(
    copyright_line: str, current_year: str, replace_year: str
) -> str:
    """Replace the year in a single copyright line.

    Legal formats are:

    * ``YYYY``
    * ``YYYY,``
    * ``YYYY ``
    * ``YYYY-YYYY``
    * ``YYYY-YYYY,``
    * ``YYYY-YYYY ``

    The final year in the string is replaced with ``replace_year``.
    """
    if len(copyright_line) < 4 or not copyright_line[:4].isdigit():
        return copyright_line

    if copyright_line[:4] == current_year and copyright_line[4:5] in {'', ' ', ','}:
        return replace_year + copyright_line[4:]

    if copyright_line[4:5] != '-':
        return copyright_line

    if (
        copyright_line[5:9].isdigit()
        and copyright_line[5:9] == current_year
        and copyright_line[9:10] in {'', ' ', ','}
    ):
        return copyright_line[:5] + replace_year + copyright_line[9:]

    return copyright_line


def check_confval_types(app: Sphinx | None, config: Config) -> None:
    """Check all values for deviation from the default value's type, since
    that can result in TypeErrors all over the place NB.
    """
    for name, opt in config._options.items():
        default = opt.default
        valid_types = opt.valid_types
        value = getattr(config, name)

        if callable(default):
            default = default(config)  # evaluate default value
        if default is None and not valid_types:
            continue  # neither inferable nor explicitly annotated types

        if valid_types == frozenset({Any}):  # any type of value is accepted
            continue

        if isinstance(valid_types, ENUM):
            if not valid_types.match(value):
                msg = __(
                    'The config value `{name}` has to be a one of {candidates}, '
                    'but `{current}` is given.'
                )
                logger.warning(
                    msg.format(
                        name=name, current=value, candidates=valid_types._candidates
                    ),
                    once=True,
                )
            continue

        type_value = type(value)
        type_default = type(default)

        if type_value is type_default:  # attempt to infer the type
            continue

        if type_value in valid_types:  # check explicitly listed types
            if frozenset in valid_types and type_value in {list, tuple, set}:
                setattr(config, name, frozenset(value))
            elif tuple in valid_types and type_value is list:
                setattr(config, name, tuple(value))
            continue

        common_bases = {*type_value.__bases__, type_value} & set(type_default.__bases__)
        common_bases.discard(object)
        if common_bases:
            continue  # at least we share a non-trivial base class

        if valid_types:
            msg = __(
                "The config value `{name}' has type `{current.__name__}'; "
                'expected {permitted}.'
            )
            wrapped_valid_types = sorted(f"`{c.__name__}'" for c in valid_types)
            if len(wrapped_valid_types) > 2:
                permitted = (
                    ', '.join(wrapped_valid_types[:-1])
                    + f', or {wrapped_valid_types[-1]}'
                )
            else:
                permitted = ' or '.join(wrapped_valid_types)
            logger.warning(
                msg.format(name=name, current=type_value, permitted=permitted),
                once=True,
            )
        else:
            msg = __(
                "The config value `{name}' has type `{current.__name__}', "
                "defaults to `{default.__name__}'."
            )
            logger.warning(
                msg.format(name=name, current=type_value, default=type_default),
                once=True,
            )


def check_primary_domain(app: Sphinx, config: Config) -> None:
    primary_domain = config.primary_domain
    if primary_domain and not app.registry.has_domain(primary_domain):
        logger.warning(__('primary_domain %r not found, ignored.'), primary_domain)
        config.primary_domain = None


def check_master_doc(
    app: Sphinx,
    env: BuildEnvironment,
    added: Set[str],
    changed: Set[str],
    removed: Set[str],
) -> Iterable[str]:
    """Sphinx 2.0 changed the default from 'contents' to 'index'."""
    docnames = app.project.docnames
    if (
        app.config.master_doc == 'index'
        and 'index' not in docnames
        and 'contents' in docnames
    ):
        logger.warning(
            __(
                'Sphinx now uses "index" as the master document by default. '
                'To keep pre-2.0 behaviour, set "master_doc = \'contents\'".'
            )
        )
        app.config.master_doc = 'contents'

    return changed


def deprecate_source_encoding(_app: Sphinx, config: Config) -> None:
    """Warn on non-UTF 8 source_encoding."""
    # RemovedInSphinx10Warning
    if config.source_encoding.lower() not in {'utf-8', 'utf-8-sig', 'utf8'}:
        msg = _(
            'Support for source encodings other than UTF-8 '
            'is deprecated and will be removed in Sphinx 10. '
            'Please comment at https://github.com/sphinx-doc/sphinx/issues/13665 '
            'if this causes a problem.'
        )
        logger.warning(msg)


def setup(app: Sphinx) -> ExtensionMetadata:
    app.connect('config-inited', deprecate_source_encoding, priority=790)
    app.connect('config-inited', convert_source_suffix, priority=800)
    app.connect('config-inited', convert_highlight_options, priority=800)
    app.connect('config-inited', init_numfig_format, priority=800)
    app.connect('config-inited', evaluate_copyright_placeholders, priority=795)
    app.connect('config-inited', correct_copyright_year, priority=800)
    app.connect('config-inited', check_confval_types, priority=800)
    app.connect('config-inited', check_primary_domain, priority=800)
    app.connect('env-get-outdated', check_master_doc)

    return {
        'version': 'builtin',
        'parallel_read_safe': True,
        'parallel_write_safe': True,
    }
