from __future__ import annotations

import os.path
import re
import sys
import textwrap
from abc import ABC, abstractmethod
from pathlib import Path
from typing import (
    TYPE_CHECKING,
    Any,
    Dict,
    Iterable,
    List,
    NamedTuple,
    Optional,
    Sequence,
    Set,
    Tuple,
    Type,
    Union,
)

from pygments.lexer import Lexer
from pygments.lexers import get_lexer_by_name, guess_lexer_for_filename
from pygments.style import Style as PygmentsStyle
from pygments.styles import get_style_by_name
from pygments.token import (
    Comment,
    Error,
    Generic,
    Keyword,
    Name,
    Number,
    Operator,
    String,
    Token,
    Whitespace,
)
from pygments.util import ClassNotFound

if TYPE_CHECKING:
    from .console import Console, ConsoleOptions, JustifyMethod, RenderResult

from rich.containers import Lines
from rich.padding import Padding, PaddingDimensions

from ._loop import loop_first
from .cells import cell_len
from .color import Color, blend_rgb
from .jupyter import JupyterMixin
from .measure import Measurement
from .segment import Segment, Segments
from .style import Style, StyleType
from .text import Text

TokenType = Tuple[str, ...]

WINDOWS = sys.platform == "win32"
DEFAULT_THEME = "monokai"

# The following styles are based on https://github.com/pygments/pygments/blob/master/pygments/formatters/terminal.py
# A few modifications were made

ANSI_LIGHT: Dict[TokenType, Style] = {
    Token: Style(),
    Whitespace: Style(color="white"),
    Comment: Style(dim=True),
    Comment.Preproc: Style(color="cyan"),
    Keyword: Style(color="blue"),
    Keyword.Type: Style(color="cyan"),
    Operator.Word: Style(color="magenta"),
    Name.Builtin: Style(color="cyan"),
    Name.Function: Style(color="green"),
    Name.Namespace: Style(color="cyan", underline=True),
    Name.Class: Style(color="green", underline=True),
    Name.Exception: Style(color="cyan"),
    Name.Decorator: Style(color="magenta", bold=True),
    Name.Variable: Style(color="red"),
    Name.Constant: Style(color="red"),
    Name.Attribute: Style(color="cyan"),
    Name.Tag: Style(color="bright_blue"),
    String: Style(color="yellow"),
    Number: Style(color="blue"),
    Generic.Deleted: Style(color="bright_red"),
    Generic.Inserted: Style(color="green"),
    Generic.Heading: Style(bold=True),
    Generic.Subheading: Style(color="magenta", bold=True),
    Generic.Prompt: Style(bold=True),
    Generic.Error: Style(color="bright_red"),
    Error: Style(color="red", underline=True),
}

ANSI_DARK: Dict[TokenType, Style] = {
    Token: Style(),
    Whitespace: Style(color="bright_black"),
    Comment: Style(dim=True),
    Comment.Preproc: Style(color="bright_cyan"),
    Keyword: Style(color="bright_blue"),
    Keyword.Type: Style(color="bright_cyan"),
    Operator.Word: Style(color="bright_magenta"),
    Name.Builtin: Style(color="bright_cyan"),
    Name.Function: Style(color="bright_green"),
    Name.Namespace: Style(color="bright_cyan", underline=True),
    Name.Class: Style(color="bright_green", underline=True),
    Name.Exception: Style(color="bright_cyan"),
    Name.Decorator: Style(color="bright_magenta", bold=True),
    Name.Variable: Style(color="bright_red"),
    Name.Constant: Style(color="bright_red"),
    Name.Attribute: Style(color="bright_cyan"),
    Name.Tag: Style(color="bright_blue"),
    String: Style(color="yellow"),
    Number: Style(color="bright_blue"),
    Generic.Deleted: Style(color="bright_red"),
    Generic.Inserted: Style(color="bright_green"),
    Generic.Heading: Style(bold=True),
    Generic.Subheading: Style(color="bright_magenta", bold=True),
    Generic.Prompt: Style(bold=True),
    Generic.Error: Style(color="bright_red"),
    Error: Style(color="red", underline=True),
}

RICH_SYNTAX_THEMES = {"ansi_light": ANSI_LIGHT, "ansi_dark": ANSI_DARK}
NUMBERS_COLUMN_DEFAULT_PADDING = 2


class SyntaxTheme(ABC):
    """Base class for a syntax theme."""

    @abstractmethod
    def get_style_for_token(self, token_type: TokenType) -> Style:
        """Get a style for a given Pygments token."""
        raise NotImplementedError  # pragma: no cover

    @abstractmethod
    def get_background_style(self) -> Style:
        """Get the background color."""
        raise NotImplementedError  # pragma: no cover


class PygmentsSyntaxTheme(SyntaxTheme):
    """Syntax theme that delegates to Pygments theme."""

    def __init__(self, theme: Union[str, Type[PygmentsStyle]]) -> None:
        self._style_cache: Dict[TokenType, Style] = {}
        if isinstance(theme, str):
            try:
                self._pygments_style_class = get_style_by_name(theme)
            except ClassNotFound:
                self._pygments_style_class = get_style_by_name("default")
        else:
            self._pygments_style_class = theme

        self._background_color = self._pygments_style_class.background_color
        self._background_style = Style(bgcolor=self._background_color)

    def get_style_for_token(self, token_type: TokenType) -> Style:
        """Get a style from a Pygments class."""
        try:
            return self._style_cache[token_type]
        except KeyError:
            try:
                pygments_style = self._pygments_style_class.style_for_token(token_type)
            except KeyError:
                style = Style.null()
            else:
                color = pygments_style["color"]
                bgcolor = pygments_style["bgcolor"]
                style = Style(
                    color="#" + color if color else "#000000",
                    bgcolor="#" + bgcolor if bgcolor else self._background_color,
                    bold=pygments_style["bold"],
                    italic=pygments_style["italic"],
                    underline=pygments_style["underline"],
                )
            self._style_cache[token_type] = style
        return style

    def get_background_style(self) -> Style:
        return self._background_style


class ANSISyntaxTheme(SyntaxTheme):
    """Syntax theme to use standard colors."""

    def __init__(self, style_map: Dict[TokenType, Style]) -> None:
        self.style_map = style_map
        self._missing_style = Style.null()
        self._background_style = Style.null()
        self._style_cache: Dict[TokenType, Style] = {}

    def get_style_for_token(self, token_type: TokenType) -> Style:
        """Look up style in the style map."""
        try:
            return self._style_cache[token_type]
        except KeyError:
            # Styles form a hierarchy
            # We need to go from most to least specific
            # e.g. ("foo", "bar", "baz") to ("foo", "bar")  to ("foo",)
            get_style = self.style_map.get
            token = tuple(token_type)
            style = self._missing_style
            while token:
                _style = get_style(token)
                if _style is not None:
                    style = _style
                    break
                token = token[:-1]
            self._style_cache[token_type] = style
            return style

    def get_background_style(self) -> Style:
        return self._background_style


SyntaxPosition = Tuple[int, int]


class _SyntaxHighlightRange(NamedTuple):
    """
    A range to highlight in a Syntax object.
    `start` and `end` are 2-integers tuples, where the first integer is the line number
    (starting from 1) and the second integer is the column index (starting from 0).
    """

    style: StyleType
    start: SyntaxPosition
    end: SyntaxPosition
    style_before: bool = False


class PaddingProperty:
    """Descriptor to get and set padding."""

    def __get__(self, obj: Syntax, objtype: Type[Syntax]) -> Tuple[int, int, int, int]:
        """Space around the Syntax."""
        return obj._padding

    def __set__(self, obj: Syntax, padding: PaddingDimensions) -> None:
        obj._padding = Padding.unpack(padding)


class Syntax(JupyterMixin):
    """Construct a Syntax object to render syntax highlighted code.

    Args:
        code (str): Code to highlight.
        lexer (Lexer | str): Lexer to use (see https://pygments.org/docs/lexers/)
        theme (str, optional): Color theme, aka Pygments style (see https://pygments.org/docs/styles/#getting-a-list-of-available-styles). Defaults to "monokai".
        dedent (bool, optional): Enable stripping of initial whitespace. Defaults to False.
        line_numbers (bool, optional): Enable rendering of line numbers. Defaults to False.
        start_line (int, optional): Starting number for line numbers. Defaults to 1.
        line_range (Tuple[int | None, int | None], optional): If given should be a tuple of the start and end line to render.
            A value of None in the tuple indicates the range is open in that direction.
        highlight_lines (Set[int]): A set of line numbers to highlight.
        code_width: Width of code to render (not including line numbers), or ``None`` to use all available width.
        tab_size (int, optional): Size of tabs. Defaults to 4.
        word_wrap (bool, optional): Enable word wrapping.
        background_color (str, optional): Optional background color, or None to use theme color. Defaults to None.
        indent_guides (bool, optional): Show indent guides. Defaults to False.
        padding (PaddingDimensions): Padding to apply around the syntax. Defaults to 0 (no padding).
    """

    _pygments_style_class: Type[PygmentsStyle]
    _theme: SyntaxTheme

    @classmethod
    def get_theme(cls, name: Union[str, SyntaxTheme]) -> SyntaxTheme:
        """Get a syntax theme instance."""
        if isinstance(name, SyntaxTheme):
            return name
        theme: SyntaxTheme
        if name in RICH_SYNTAX_THEMES:
            theme = ANSISyntaxTheme(RICH_SYNTAX_THEMES[name])
        else:
            theme = PygmentsSyntaxTheme(name)
        return theme

    def __init__(
        self,
        code: str,
        lexer: Union[Lexer, str],
        *,
        theme: Union[str, SyntaxTheme] = DEFAULT_THEME,
        dedent: bool = False,
        line_numbers: bool = False,
        start_line: int = 1,
        line_range: Optional[Tuple[Optional[int], Optional[int]]] = None,
        highlight_lines: Optional[Set[int]] = None,
        code_width: Optional[int] = None,
        tab_size: int = 4,
        word_wrap: bool = False,
        background_color: Optional[str] = None,
        indent_guides: bool = False,
        padding: PaddingDimensions = 0,
    ) -> None:
        self.code = code
        self._lexer = lexer
        self.dedent = dedent
        self.line_numbers = line_numbers
        self.start_line = start_line
        self.line_range = line_range
        self.highlight_lines = highlight_lines or set()
        self.code_width = code_width
        self.tab_size = tab_size
        self.word_wrap = word_wrap
        self.background_color = background_color
        self.background_style = (
            Style(bgcolor=background_color) if background_color else Style()
        )
        self.indent_guides = indent_guides
        self._padding = Padding.unpack(padding)

        self._theme = self.get_theme(theme)
        self._stylized_ranges: List[_SyntaxHighlightRange] = []

    padding = PaddingProperty()

    @classmethod
    def from_path(
        cls,
        path: str,
        encoding: str = "utf-8",
        lexer: Optional[Union[Lexer, str]] = None,
        theme: Union[str, SyntaxTheme] = DEFAULT_THEME,
        dedent: bool = False,
        line_numbers: bool = False,
        line_range: Optional[Tuple[int, int]] = None,
        start_line: int = 1,
        highlight_lines: Optional[Set[int]] = None,
        code_width: Optional[int] = None,
        tab_size: int = 4,
        word_wrap: bool = False,
        background_color: Optional[str] = None,
        indent_guides: bool = False,
        padding: PaddingDimensions = 0,
    ) -> "Syntax":
        """Construct a Syntax object from a file.

        Args:
            path (str): Path to file to highlight.
            encoding (str): Encoding of file.
            lexer (str | Lexer, optional): Lexer to use. If None, lexer will be auto-detected from path/file content.
            theme (str, optional): Color theme, aka Pygments style (see https://pygments.org/docs/styles/#getting-a-list-of-available-styles). Defaults to "emacs".
            dedent (bool, optional): Enable stripping of initial whitespace. Defaults to True.
            line_numbers (bool, optional): Enable rendering of line numbers. Defaults to False.
            start_line (int, optional): Starting number for line numbers. Defaults to 1.
            line_range (Tuple[int, int], optional): If given should be a tuple of the start and end line to render.
            highlight_lines (Set[int]): A set of line numbers to highlight.
            code_width: Width of code to render (not including line numbers), or ``None`` to use all available width.
            tab_size (int, optional): Size of tabs. Defaults to 4.
            word_wrap (bool, optional): Enable word wrapping of code.
            background_color (str, optional): Optional background color, or None to use theme color. Defaults to None.
            indent_guides (bool, optional): Show indent guides. Defaults to False.
            padding (PaddingDimensions): Padding to apply around the syntax. Defaults to 0 (no padding).

        Returns:
            [Syntax]: A Syntax object that may be printed to the console
        """
        code = Path(path).read_text(encoding=encoding)

        if not lexer:
            lexer = cls.guess_lexer(path, code=code)

        return cls(
            code,
            lexer,
            theme=theme,
            dedent=dedent,
            line_numbers=line_numbers,
            line_range=line_range,
            start_line=start_line,
            highlight_lines=highlight_lines,
            code_width=code_width,
            tab_size=tab_size,
            word_wrap=word_wrap,
            background_color=background_color,
            indent_guides=indent_guides,
            padding=padding,
        )

    @classmethod
    def guess_lexer(cls, path: str, code: Optional[str] = None) -> str:
        """Guess the alias of the Pygments lexer to use based on a path and an optional string of code.
        If code is supplied, it will use a combination of the code and the filename to determine the
        best lexer to use. For example, if the file is ``index.html`` and the file contains Django
        templating syntax, then "html+django" will be returned. If the file is ``index.html``, and no
        templating language is used, the "html" lexer will be used. If no string of code
        is supplied, the lexer will be chosen based on the file extension..

        Args:
            path (AnyStr): The path to the file containing the code you wish to know the lexer for.
            code (str, optional): Optional string of code that will be used as a fallback if no lexer
                is found for the supplied path.

        Returns:
            str: The name of the Pygments lexer that best matches the supplied path/code.
        """
        lexer: Optional[Lexer] = None
        lexer_name = "default"
        if code:
            try:
                lexer = guess_lexer_for_filename(path, code)
            except ClassNotFound:
                pass

        if not lexer:
            try:
                _, ext = os.path.splitext(path)
                if ext:
                    extension = ext.lstrip(".").lower()
                    lexer = get_lexer_by_name(extension)
            except ClassNotFound:
                pass

        if lexer:
            if lexer.aliases:
                lexer_name = lexer.aliases[0]
            else:
                lexer_name = lexer.name

        return lexer_name

    def _get_base_style(self) -> Style:
        """Get the base style."""
        default_style = self._theme.get_background_style() + self.background_style
        return default_style

    def _get_token_color(self, token_type: TokenType) -> Optional[Color]:
        """Get a color (if any) for the given token.

        Args:
            token_type (TokenType): A token type tuple from Pygments.

        Returns:
            Optional[Color]: Color from theme, or None for no color.
        """
        style = self._theme.get_style_for_token(token_type)
        return style.color

    @property
    def lexer(self) -> Optional[Lexer]:
        """The lexer for this syntax, or None if no lexer was found.

        Tries to find the lexer by name if a string was passed to the constructor.
        """

        if isinstance(self._lexer, Lexer):
            return self._lexer
        try:
            return get_lexer_by_name(
                self._lexer,
                stripnl=False,
                ensurenl=True,
                tabsize=self.tab_size,
            )
        except ClassNotFound:
            return None

    @property
    def default_lexer(self) -> Lexer:
        """A Pygments Lexer to use if one is not specified or invalid."""
        return get_lexer_by_name(
            "text",
            stripnl=False,
            ensurenl=True,
            tabsize=self.tab_size,
        )

    def highlight(
        self,
        code: str,
        line_range: Optional[Tuple[Optional[int], Optional[int]]] = None,
    ) -> Text:
        """Highlight code and return a Text instance.

        Args:
            code (str): Code to highlight.
            line_range(Tuple[int, int], optional): Optional line range to highlight.

        Returns:
            Text: A text instance containing highlighted syntax.
        """

        base_style = self._get_base_style()
        justify: JustifyMethod = (
            "default" if base_style.transparent_background else "left"
        )

        text = Text(
            justify=justify,
            style=base_style,
            tab_size=self.tab_size,
            no_wrap=not self.word_wrap,
        )
        _get_theme_style = self._theme.get_style_for_token

        lexer = self.lexer or self.default_lexer

        if lexer is None:
            text.append(code)
        else:
            if line_range:
                # More complicated path to only stylize a portion of the code
                # This speeds up further operations as there are less spans to process
                line_start, line_end = line_range

                def line_tokenize() -> Iterable[Tuple[Any, str]]:
                    """Split tokens to one per line."""
                    assert lexer  # required to make MyPy happy - we know lexer is not None at this point

                    for token_type, token in lexer.get_tokens(code):
                        while token:
                            line_token, new_line, token = token.partition("\n")
                            yield token_type, line_token + new_line

                def tokens_to_spans() -> Iterable[Tuple[str, Optional[Style]]]:
                    """Convert tokens to spans."""
                    tokens = iter(line_tokenize())
                    line_no = 0
                    _line_start = line_start - 1 if line_start else 0

                    # Skip over tokens until line start
                    while line_no < _line_start:
                        try:
                            _token_type, token = next(tokens)
                        except StopIteration:
                            break
                        yield (token, None)
                        if token.endswith("\n"):
                            line_no += 1
                    # Generate spans until line end
                    for token_type, token in tokens:
                        yield (token, _get_theme_style(token_type))
                        if token.endswith("\n"):
                            line_no += 1
                            if line_end and line_no >= line_end:
                                break

                text.append_tokens(tokens_to_spans())

            else:
                text.append_tokens(
                    (token, _get_theme_style(token_type))
                    for token_type, token in lexer.get_tokens(code)
                )
            if self.background_color is not None:
                text.stylize(f"on {self.background_color}")

        if self._stylized_ranges:
            self._apply_stylized_ranges(text)

        return text

    def stylize_range(
        self,
        style: StyleType,
        start: SyntaxPosition,
        end: SyntaxPosition,
        style_before: bool = False,
    ) -> None:
        """
        Adds a custom style on a part of the code, that will be applied to the syntax display when it's rendered.
        Line numbers are 1-based, while column indexes are 0-based.

        Args:
            style (StyleType): The style to apply.
            start (Tuple[int, int]): The start of the range, in the form `[line number, column index]`.
            end (Tuple[int, int]): The end of the range, in the form `[line number, column index]`.
            style_before (bool): Apply the style before any existing styles.
        """
        self._stylized_ranges.append(
            _SyntaxHighlightRange(style, start, end, style_before)
        )

    def _get_line_numbers_color(self, blend: float = 0.3) -> Color:
        background_style = self._theme.get_background_style() + self.background_style
        background_color = background_style.bgcolor
        if background_color is None or background_color.is_system_defined:
            return Color.default()
        foreground_color = self._get_token_color(Token.Text)
        if foreground_color is None or foreground_color.is_system_defined:
            return foreground_color or Color.default()
        new_color = blend_rgb(
            background_color.get_truecolor(),
            foreground_color.get_truecolor(),
            cross_fade=blend,
        )
        return Color.from_triplet(new_color)

    @property
    def _numbers_column_width(self) -> int:
        """Get the number of characters used to render the numbers column."""
        column_width = 0
        if self.line_numbers:
            column_width = (
                len(str(self.start_line + self.code.count("\n")))
                + NUMBERS_COLUMN_DEFAULT_PADDING
            )
        return column_width

    def _get_number_styles(self, console: Console) -> Tuple[Style, Style, Style]:
        """Get background, number, and highlight styles for line numbers."""
        background_style = self._get_base_style()
        if background_style.transparent_background:
            return Style.null(), Style(dim=True), Style.null()
        if console.color_system in ("256", "truecolor"):
            number_style = Style.chain(
                background_style,
                self._theme.get_style_for_token(Token.Text),
                Style(color=self._get_line_numbers_color()),
                self.background_style,
            )
            highlight_number_style = Style.chain(
                background_style,
                self._theme.get_style_for_token(Token.Text),
                Style(bold=True, color=self._get_line_numbers_color(0.9)),
                self.background_style,
            )
        else:
            number_style = background_style + Style(dim=True)
            highlight_number_style = background_style + Style(dim=False)
        return background_style, number_style, highlight_number_style

    def __rich_measure__(
        self, console: "Console", options: "ConsoleOptions"
    ) -> "Measurement":
        _, right, _, left = self.padding
        padding = left + right
        if self.code_width is not None:
            width = self.code_width + self._numbers_column_width + padding + 1
            return Measurement(self._numbers_column_width, width)
        lines = self.code.splitlines()
        width = (
            self._numbers_column_width
            + padding
            + (max(cell_len(line) for line in lines) if lines else 0)
        )
        if self.line_numbers:
            width += 1
        return Measurement(self._numbers_column_width, width)

    def __rich_console__(
        self, console: Console, options: ConsoleOptions
    ) -> RenderResult:
        segments = Segments(self._get_syntax(console, options))
        if any(self.padding):
            yield Padding(segments, style=self._get_base_style(), pad=self.padding)
        else:
            yield segments

    def _get_syntax(
        self,
        console: Console,
        options: ConsoleOptions,
    ) -> Iterable[Segment]:
        """
        Get the Segments for the Syntax object, excluding any vertical/horizontal padding
        """
        transparent_background = self._get_base_style().transparent_background
        _pad_top, pad_right, _pad_bottom, pad_left = self.padding
        horizontal_padding = pad_left + pad_right
        code_width = (
            (
                (options.max_width - self._numbers_column_width - 1)
                if self.line_numbers
                else options.max_width
            )
            - horizontal_padding
            if self.code_width is None
            else self.code_width
        )
        code_width = max(0, code_width)

        ends_on_nl, processed_code = self._process_code(self.code)
        text = self.highlight(processed_code, self.line_range)

        if not self.line_numbers and not self.word_wrap and not self.line_range:
            if not ends_on_nl:
                text.remove_suffix("\n")
            # Simple case of just rendering text
            style = (
                self._get_base_style()
                + self._theme.get_style_for_token(Comment)
                + Style(dim=True)
                + self.background_style
            )
            if self.indent_guides and not options.ascii_only:
                text = text.with_indent_guides(self.tab_size, style=style)
                text.overflow = "crop"
            if style.transparent_background:
                yield from console.render(
                    text, options=options.update(width=code_width)
                )
            else:
                syntax_lines = console.render_lines(
                    text,
                    options.update(width=code_width, height=None, justify="left"),
                    style=self.background_style,
                    pad=True,
                    new_lines=True,
                )
                for syntax_line in syntax_lines:
                    yield from syntax_line
            return

        start_line, end_line = self.line_range or (None, None)
        line_offset = 0
        if start_line:
            line_offset = max(0, start_line - 1)
        lines: Union[List[Text], Lines] = text.split("\n", allow_blank=ends_on_nl)
        if self.line_range:
            if line_offset > len(lines):
                return
            lines = lines[line_offset:end_line]

        if self.indent_guides and not options.ascii_only:
            style = (
                self._get_base_style()
                + self._theme.get_style_for_token(Comment)
                + Style(dim=True)
                + self.background_style
            )
            lines = (
                Text("\n")
                .join(lines)
                .with_indent_guides(self.tab_size, style=style + Style(italic=False))
                .split("\n", allow_blank=True)
            )

        numbers_column_width = self._numbers_column_width
        render_options = options.update(width=code_width)

        highlight_line = self.highlight_lines.__contains__
        _Segment = Segment
        new_line = _Segment("\n")

        line_pointer = "> " if options.legacy_windows else "❱ "

        (
            background_style,
            number_style,
            highlight_number_style,
        ) = self._get_number_styles(console)

        for line_no, line in enumerate(lines, self.start_line + line_offset):
            if self.word_wrap:
                wrapped_lines = console.render_lines(
                    line,
                    render_options.update(height=None, justify="left"),
                    style=background_style,
                    pad=not transparent_background,
                )
            else:
                segments = list(line.render(console, end=""))
                if options.no_wrap:
                    wrapped_lines = [segments]
                else:
                    wrapped_lines = [
                        _Segment.adjust_line_length(
                            segments,
                            render_options.max_width,
                            style=background_style,
                            pad=not transparent_background,
                        )
                    ]

            if self.line_numbers:
                wrapped_line_left_pad = _Segment(
                    " " * numbers_column_width + " ", background_style
                )
                for first, wrapped_line in loop_first(wrapped_lines):
                    if first:
                        line_column = str(line_no).rjust(numbers_column_width - 2) + " "
                        if highlight_line(line_no):
                            yield _Segment(line_pointer, Style(color="red"))
                            yield _Segment(line_column, highlight_number_style)
                        else:
                            yield _Segment("  ", highlight_number_style)
                            yield _Segment(line_column, number_style)
                    else:
                        yield wrapped_line_left_pad
                    yield from wrapped_line
                    yield new_line
            else:
                for wrapped_line in wrapped_lines:
                    yield from wrapped_line
                    yield new_line

    def _apply_stylized_ranges(self, text: Text) -> None:
        """
        Apply stylized ranges to a text instance,
        using the given code to determine the right portion to apply the style to.

        Args:
            text (Text): Text instance to apply the style to.
        """
        code = text.plain
        newlines_offsets = [
            # Let's add outer boundaries at each side of the list:
            0,
            # N.B. using "\n" here is much faster than using metacharacters such as "^" or "\Z":
            *[
                match.start() + 1
                for match in re.finditer("\n", code, flags=re.MULTILINE)
            ],
            len(code) + 1,
        ]

        for stylized_range in self._stylized_ranges:
            start = _get_code_index_for_syntax_position(
                newlines_offsets, stylized_range.start
            )
            end = _get_code_index_for_syntax_position(
                newlines_offsets, stylized_range.end
            )
            if start is not None and end is not None:
                if stylized_range.style_before:
                    text.stylize_before(stylized_range.style, start, end)
                else:
                    text.stylize(stylized_range.style, start, end)

    def _process_code(self, code: str) -> Tuple[bool, str]:
        """
        Applies various processing to a raw code string
        (normalises it so it always ends with a line return, dedents it if necessary, etc.)

        Args:
            code (str): The raw code string to process

        Returns:
            Tuple[bool, str]: the boolean indicates whether the raw code ends with a line return,
                while the string is the processed code.
        """
        ends_on_nl = code.endswith("\n")
        processed_code = code if ends_on_nl else code + "\n"
        processed_code = (
            textwrap.dedent(processed_code) if self.dedent else processed_code
        )
        processed_code = processed_code.expandtabs(self.tab_size)
        return ends_on_nl, processed_code


def _get_code_index_for_syntax_position(
    newlines_offsets: Sequence[int], position: SyntaxPosition
) -> Optional[int]:
    """
    Returns the index of the code string for the given positions.

    Args:
        newlines_offsets (Sequence[int]): The offset of each newline character found in the code snippet.
        position (SyntaxPosition): The position to search for.

    Returns:
        Optional[int]: The index of the code string for this position, or `None`
            if the given position's line number is out of range (if it's the column that is out of range
            we silently clamp its value so that it reaches the end of the line)
    """
    lines_count = len(newlines_offsets)

    line_number, column_index = position
    if line_number > lines_count or len(newlines_offsets) < (line_number + 1):
        return None  # `line_number` is out of range
    line_index = line_number - 1
    line_length = newlines_offsets[line_index + 1] - newlines_offsets[line_index] - 1
    # If `column_index` is out of range: let's silently clamp it:
    column_index = min(line_length, column_index)
    return newlines_offsets[line_index] + column_index


if __name__ == "__main__":  # pragma: no cover
    import argparse
    import sys

    parser = argparse.ArgumentParser(
        description="Render syntax to the console with Rich"
    )
    parser.add_argument(
        "path",
        metavar="PATH",
        help="path to file, or - for stdin",
    )
    parser.add_argument(
        "-c",
        "--force-color",
        dest="force_color",
        action="store_true",
        default=None,
        help="force color for non-terminals",
    )
    parser.add_argument(
        "-i",
        "--indent-guides",
        dest="indent_guides",
        action="store_true",
        default=False,
        help="display indent guides",
    )
    parser.add_argument(
        "-l",
        "--line-numbers",
        dest="line_numbers",
        action="store_true",
        help="render line numbers",
    )
    parser.add_argument(
        "-w",
        "--width",
        type=int,
        dest="width",
        default=None,
        help="width of output (default will auto-detect)",
    )
    parser.add_argument(
        "-r",
        "--wrap",
        dest="word_wrap",
        action="store_true",
        default=False,
        help="word wrap long lines",
    )
    parser.add_argument(
        "-s",
        "--soft-wrap",
        action="store_true",
        dest="soft_wrap",
        default=False,
        help="enable soft wrapping mode",
    )
    parser.add_argument(
        "-t", "--theme", dest="theme", default="monokai", help="pygments theme"
    )
    parser.add_argument(
        "-b",
        "--background-color",
        dest="background_color",
        default=None,
        help="Override background color",
    )
    parser.add_argument(
        "-x",
        "--lexer",
        default=None,
        dest="lexer_name",
        help="Lexer name",
    )
    parser.add_argument(
        "-p", "--padding", type=int, default=0, dest="padding", help="Padding"
    )
    parser.add_argument(
        "--highlight-line",
        type=int,
        default=None,
        dest="highlight_line",
        help="The line number (not index!) to highlight",
    )
    args = parser.parse_args()

    from rich.console import Console

    console = Console(force_terminal=args.force_color, width=args.width)

    if args.path == "-":
        code = sys.stdin.read()
        syntax = Syntax(
            code=code,
            lexer=args.lexer_name,
            line_numbers=args.line_numbers,
            word_wrap=args.word_wrap,
            theme=args.theme,
            background_color=args.background_color,
            indent_guides=args.indent_guides,
            padding=args.padding,
            highlight_lines={args.highlight_line},
        )
    else:
        syntax = Syntax.from_path(
            args.path,
            lexer=args.lexer_name,
            line_numbers=args.line_numbers,
            word_wrap=args.word_wrap,
            theme=args.theme,
            background_color=args.background_color,
            indent_guides=args.indent_guides,
            padding=args.padding,
            highlight_lines={args.highlight_line},
        )
    console.print(syntax, soft_wrap=args.soft_wrap)
