"""
shared options and groups

The principle here is to define options once, but *not* instantiate them
globally. One reason being that options with action='append' can carry state
between parses. pip parses general options twice internally, and shouldn't
pass on state. To be consistent, all options will follow this design.
"""

# The following comment should be removed at some point in the future.
# mypy: strict-optional=False
from __future__ import annotations

import logging
import os
import pathlib
import re
import textwrap
from collections.abc import Callable
from datetime import datetime, timedelta, timezone
from functools import partial
from optparse import SUPPRESS_HELP, Option, OptionGroup, OptionParser, Values
from textwrap import dedent
from typing import Any

from pip._vendor.packaging.utils import canonicalize_name

from pip._internal.cli.parser import ConfigOptionParser
from pip._internal.exceptions import CommandError
from pip._internal.locations import USER_CACHE_DIR, get_src_prefix
from pip._internal.models.format_control import FormatControl
from pip._internal.models.index import PyPI
from pip._internal.models.release_control import ReleaseControl
from pip._internal.models.target_python import TargetPython
from pip._internal.utils.datetime import parse_iso_datetime
from pip._internal.utils.hashes import STRONG_HASHES
from pip._internal.utils.misc import strtobool

logger = logging.getLogger(__name__)


def raise_option_error(parser: OptionParser, option: Option, msg: str) -> None:
    """
    Raise an option parsing error using parser.error().

    Args:
      parser: an OptionParser instance.
      option: an Option instance.
      msg: the error text.
    """
    msg = f"{option} error: {msg}"
    msg = textwrap.fill(" ".join(msg.split()))
    parser.error(msg)


def make_option_group(group: dict[str, Any], parser: ConfigOptionParser) -> OptionGroup:
    """
    Return an OptionGroup object
    group  -- assumed to be dict with 'name' and 'options' keys
    parser -- an optparse Parser
    """
    option_group = OptionGroup(parser, group["name"])
    for option in group["options"]:
        option_group.add_option(option())
    return option_group


def check_only_deps_option_does_not_conflict(options: Values) -> None:
    """Function for determining if --only-deps and other incompatible options are
    specified.

    :param options: The OptionParser options.
    """
    if not options.only_dependencies:
        return
    conflicts = []
    if options.ignore_dependencies:
        conflicts.append("'--no-deps'")
    if "legacy-resolver" in options.deprecated_features_enabled:
        conflicts.append("'--use-deprecated legacy-resolver'")
    if options.requirements:
        conflicts.append("'--requirement'")
    if options.requirements_from_scripts:
        conflicts.append("'--requirements-from-script'")
    if options.dependency_groups:
        conflicts.append("'--group'")
    if conflicts:
        if len(conflicts) > 1:
            conflicts[-1] = "or " + conflicts[-1]
        conflict_message = ", ".join(conflicts)
        raise CommandError(
            f"Cannot use '--only-dependencies' in combination with {conflict_message}. "
            "If this is unexpected, please refer to the user guide:\n"
            "\n"
            "    https://pip.pypa.io/en/stable/user_guide/#installing-only-dependencies"
        )


def check_dist_restriction(options: Values, check_target: bool = False) -> None:
    """Function for determining if custom platform options are allowed.

    :param options: The OptionParser options.
    :param check_target: Whether or not to check if --target is being used.
    """
    dist_restriction_set = any(
        [
            options.python_version,
            options.platforms,
            options.abis,
            options.implementation,
        ]
    )

    binary_only = FormatControl(set(), {":all:"})
    sdist_dependencies_allowed = (
        options.format_control != binary_only and not options.ignore_dependencies
    )

    # Installations or downloads using dist restrictions must not combine
    # source distributions and dist-specific wheels, as they are not
    # guaranteed to be locally compatible.
    if dist_restriction_set and sdist_dependencies_allowed:
        raise CommandError(
            "When restricting platform and interpreter constraints using "
            "--python-version, --platform, --abi, or --implementation, "
            "either --no-deps must be set, or --only-binary=:all: must be "
            "set and --no-binary must not be set (or must be set to "
            ":none:)."
        )

    if check_target:
        if not options.dry_run and dist_restriction_set and not options.target_dir:
            raise CommandError(
                "Can not use any platform or abi specific options unless "
                "installing via '--target' or using '--dry-run'"
            )

    if dist_restriction_set:
        # Lazy import to keep CLI startup fast
        from pip._internal.utils import pylock as pylock_utils

        for filename in options.requirements:
            if pylock_utils.is_valid_pylock_filename(filename):
                raise CommandError(
                    "Platform and interpreter constraints using "
                    "--python-version, --platform, --abi, or --implementation, "
                    f"are not supported when selecting requirements from {filename!r}"
                )


def check_build_constraints(options: Values) -> None:
    """Function for validating build constraints options.

    :param options: The OptionParser options.
    """
    if hasattr(options, "build_constraints") and options.build_constraints:
        if not options.build_isolation:
            raise CommandError(
                "--build-constraint cannot be used with --no-build-isolation."
            )

        # Import here to avoid circular imports
        from pip._internal.network.session import PipSession
        from pip._internal.req.req_file import get_file_content

        # Eagerly check build constraints file contents
        # is valid so that we don't fail in when trying
        # to check constraints in isolated build process
        with PipSession() as session:
            for constraint_file in options.build_constraints:
                get_file_content(constraint_file, session)


def _path_option_check(option: Option, opt: str, value: str) -> str:
    return os.path.expanduser(value)


def _package_name_option_check(option: Option, opt: str, value: str) -> str:
    return canonicalize_name(value)


class PipOption(Option):
    TYPES = Option.TYPES + ("path", "package_name")
    TYPE_CHECKER = Option.TYPE_CHECKER.copy()
    TYPE_CHECKER["package_name"] = _package_name_option_check
    TYPE_CHECKER["path"] = _path_option_check


###########
# options #
###########

help_: Callable[..., Option] = partial(
    Option,
    "-h",
    "--help",
    dest="help",
    action="help",
    help="Show help.",
)

debug_mode: Callable[..., Option] = partial(
    Option,
    "--debug",
    dest="debug_mode",
    action="store_true",
    default=False,
    help=(
        "Let unhandled exceptions propagate outside the main subroutine, "
        "instead of logging them to stderr."
    ),
)

isolated_mode: Callable[..., Option] = partial(
    Option,
    "--isolated",
    dest="isolated_mode",
    action="store_true",
    default=False,
    help=(
        "Run pip in an isolated mode, ignoring environment variables and user "
        "configuration."
    ),
)

require_virtualenv: Callable[..., Option] = partial(
    Option,
    "--require-virtualenv",
    "--require-venv",
    dest="require_venv",
    action="store_true",
    default=False,
    help=(
        "Allow pip to only run in a virtual environment; exit with an error otherwise."
    ),
)

override_externally_managed: Callable[..., Option] = partial(
    Option,
    "--break-system-packages",
    dest="override_externally_managed",
    action="store_true",
    help="Allow pip to modify an EXTERNALLY-MANAGED Python installation",
)

python: Callable[..., Option] = partial(
    Option,
    "--python",
    dest="python",
    help="Run pip with the specified Python interpreter.",
)

verbose: Callable[..., Option] = partial(
    Option,
    "-v",
    "--verbose",
    dest="verbose",
    action="count",
    default=0,
    help="Give more output. Option is additive, and can be used up to 3 times.",
)

no_color: Callable[..., Option] = partial(
    Option,
    "--no-color",
    dest="no_color",
    action="store_true",
    default=False,
    help="Suppress colored output.",
)

version: Callable[..., Option] = partial(
    Option,
    "-V",
    "--version",
    dest="version",
    action="store_true",
    help="Show version and exit.",
)

quiet: Callable[..., Option] = partial(
    Option,
    "-q",
    "--quiet",
    dest="quiet",
    action="count",
    default=0,
    help=(
        "Give less output. Option is additive, and can be used up to 3"
        " times (corresponding to WARNING, ERROR, and CRITICAL logging"
        " levels)."
    ),
)

progress_bar: Callable[..., Option] = partial(
    Option,
    "--progress-bar",
    dest="progress_bar",
    type="choice",
    choices=["auto", "on", "off", "raw"],
    default="auto",
    help=(
        "Specify whether the progress bar should be used. In 'auto'"
        " mode, --quiet will suppress all progress bars."
        " [auto, on, off, raw] (default: auto)"
    ),
)

log: Callable[..., Option] = partial(
    PipOption,
    "--log",
    "--log-file",
    "--local-log",
    dest="log",
    metavar="path",
    type="path",
    help="Path to a verbose appending log.",
)

no_input: Callable[..., Option] = partial(
    Option,
    # Don't ask for input
    "--no-input",
    dest="no_input",
    action="store_true",
    default=False,
    help="Disable prompting for input.",
)

keyring_provider: Callable[..., Option] = partial(
    Option,
    "--keyring-provider",
    dest="keyring_provider",
    choices=["auto", "disabled", "import", "subprocess"],
    default="auto",
    help=(
        "Enable the credential lookup via the keyring library if user input is allowed."
        " Specify which mechanism to use [auto, disabled, import, subprocess]."
        " (default: %default)"
    ),
)

proxy: Callable[..., Option] = partial(
    Option,
    "--proxy",
    dest="proxy",
    type="str",
    default=None,
    help="Specify a proxy in the form scheme://[user:passwd@]proxy.server:port.",
)

no_proxy_env: Callable[..., Option] = partial(
    Option,
    "--no-proxy-env",
    dest="no_proxy_env",
    action="store_true",
    default=False,
    help="Do not read proxy configuration from environment variables.",
)

retries: Callable[..., Option] = partial(
    Option,
    "--retries",
    dest="retries",
    type="int",
    default=5,
    help="Maximum attempts to establish a new HTTP connection. (default: %default)",
)

resume_retries: Callable[..., Option] = partial(
    Option,
    "--resume-retries",
    dest="resume_retries",
    type="int",
    default=5,
    help="Maximum attempts to resume or restart an incomplete download. "
    "(default: %default)",
)

timeout: Callable[..., Option] = partial(
    Option,
    "--timeout",
    "--default-timeout",
    metavar="sec",
    dest="timeout",
    type="float",
    default=15,
    help="Set the socket timeout (default %default seconds).",
)


def exists_action() -> Option:
    return Option(
        # Option when path already exist
        "--exists-action",
        dest="exists_action",
        type="choice",
        choices=["s", "i", "w", "b", "a"],
        default=[],
        action="append",
        metavar="action",
        help="Default action when a path already exists: "
        "(s)witch, (i)gnore, (w)ipe, (b)ackup, (a)bort.",
    )


cert: Callable[..., Option] = partial(
    PipOption,
    "--cert",
    dest="cert",
    type="path",
    metavar="path",
    help=(
        "Path to PEM-encoded CA certificate bundle. "
        "If provided, overrides the default. "
        "See 'SSL Certificate Verification' in pip documentation "
        "for more information."
    ),
)

client_cert: Callable[..., Option] = partial(
    PipOption,
    "--client-cert",
    dest="client_cert",
    type="path",
    default=None,
    metavar="path",
    help="Path to SSL client certificate, a single file containing the "
    "private key and the certificate in PEM format.",
)

index_url: Callable[..., Option] = partial(
    Option,
    "-i",
    "--index-url",
    "--pypi-url",
    dest="index_url",
    metavar="URL",
    default=PyPI.simple_url,
    help="Base URL of the Python Package Index (default %default). "
    "This should point to a repository compliant with PEP 503 "
    "(the simple repository API) or a local directory laid out "
    "in the same format.",
)


def extra_index_url() -> Option:
    return Option(
        "--extra-index-url",
        dest="extra_index_urls",
        metavar="URL",
        action="append",
        default=[],
        help="Extra URLs of package indexes to use in addition to "
        "--index-url. Should follow the same rules as "
        "--index-url.",
    )


no_index: Callable[..., Option] = partial(
    Option,
    "--no-index",
    dest="no_index",
    action="store_true",
    default=False,
    help="Ignore package index (only looking at --find-links URLs instead).",
)


def find_links() -> Option:
    return Option(
        "-f",
        "--find-links",
        dest="find_links",
        action="append",
        default=[],
        metavar="url",
        help="If a URL or path to an html file, then parse for links to "
        "archives such as sdist (.tar.gz) or wheel (.whl) files. "
        "If a local path or file:// URL that's a directory, "
        "then look for archives in the directory listing. "
        "Links to VCS project URLs are not supported.",
    )


def _handle_uploaded_prior_to(
    option: Option, opt: str, value: str, parser: OptionParser
) -> None:
    """
    This is an optparse.Option callback for the --uploaded-prior-to option.

    Accepts either an ISO 8601 datetime string (e.g., '2023-01-01T00:00:00Z')
    or a strict subset of ISO 8601 durations: PnD where n is a number of days
    (e.g., 'P7D' for 7 days ago).

    Note: This option only works with indexes that provide upload-time metadata
    as specified in the simple repository API:
    https://packaging.python.org/en/latest/specifications/simple-repository-api/
    """
    if value is None:
        return None

    # Try ISO 8601 duration in PnD format. The leading 'P' disambiguates
    # from absolute datetimes. Only whole days are supported; the format may
    # be extended to more of the ISO 8601 duration syntax in the future if
    # a real need is presented.
    match = re.match(r"^P(\d+)D$", value, re.ASCII)
    if match:
        days = int(match.group(1))
        parser.values.uploaded_prior_to = datetime.now(timezone.utc) - timedelta(
            days=days
        )
        return

    try:
        uploaded_prior_to = parse_iso_datetime(value)
        # Use local timezone if no offset is given in the ISO string.
        if uploaded_prior_to.tzinfo is None:
            uploaded_prior_to = uploaded_prior_to.astimezone()
        parser.values.uploaded_prior_to = uploaded_prior_to
    except ValueError as exc:
        msg = (
            f"invalid value: {value!r}: {exc}. "
            f"Expected an ISO 8601 datetime string "
            f"(e.g., '2023-01-01' or '2023-01-01T00:00:00Z') "
            f"or a duration in days (e.g., 'P3D')"
        )
        raise_option_error(parser, option=option, msg=msg)


def uploaded_prior_to() -> Option:
    return Option(
        "--uploaded-prior-to",
        dest="uploaded_prior_to",
        metavar="datetime_or_duration",
        action="callback",
        callback=_handle_uploaded_prior_to,
        type="str",
        help=(
            "Only consider packages uploaded prior to the given value. "
            "Accepts an ISO 8601 datetime (e.g., '2023-01-01T00:00:00Z', "
            "uses local timezone if none specified) or a duration in days "
            "(e.g., 'P3D' for packages uploaded at least 3 days ago). "
            "Only effective when using indexes that provide "
            "upload-time metadata."
        ),
    )


def trusted_host() -> Option:
    return Option(
        "--trusted-host",
        dest="trusted_hosts",
        action="append",
        metavar="HOSTNAME",
        default=[],
        help="Mark this host or host:port pair as trusted, even though it "
        "does not have valid or any HTTPS.",
    )


def constraints() -> Option:
    return Option(
        "-c",
        "--constraint",
        dest="constraints",
        action="append",
        default=[],
        metavar="file",
        help="Constrain versions using the given constraints file. "
        "This option can be used multiple times.",
    )


def build_constraints() -> Option:
    return Option(
        "--build-constraint",
        dest="build_constraints",
        action="append",
        type="str",
        default=[],
        metavar="file",
        help=(
            "Constrain build dependencies using the given constraints file. "
            "This option can be used multiple times."
        ),
    )


def requirements() -> Option:
    return Option(
        "-r",
        "--requirement",
        dest="requirements",
        action="append",
        default=[],
        metavar="file",
        help=(
            "Install from the given requirements file. "
            "The file or URL can be in pip's requirements.txt format, "
            "or pylock.toml format. pylock.toml support is experimental. "
            "This option can be used multiple times."
        ),
    )


def requirements_from_scripts() -> Option:
    return Option(
        "--requirements-from-script",
        action="append",
        default=[],
        dest="requirements_from_scripts",
        metavar="file",
        help="Install dependencies of the given script file "
        "as defined by PEP 723 inline metadata. ",
    )


def editable() -> Option:
    return Option(
        "-e",
        "--editable",
        dest="editables",
        action="append",
        default=[],
        metavar="path/url",
        help=(
            "Install a project in editable mode (i.e. setuptools "
            '"develop mode") from a local project path or a VCS url.'
        ),
    )


def _handle_src(option: Option, opt_str: str, value: str, parser: OptionParser) -> None:
    value = os.path.abspath(value)
    setattr(parser.values, option.dest, value)


src: Callable[..., Option] = partial(
    PipOption,
    "--src",
    "--source",
    "--source-dir",
    "--source-directory",
    dest="src_dir",
    type="path",
    metavar="dir",
    default=get_src_prefix(),
    action="callback",
    callback=_handle_src,
    help="Directory to check out editable projects into. "
    'The default in a virtualenv is "<venv path>/src". '
    'The default for global installs is "<current dir>/src".',
)


def _get_format_control(values: Values, option: Option) -> Any:
    """Get a format_control object."""
    return getattr(values, option.dest)


def _handle_no_binary(
    option: Option, opt_str: str, value: str, parser: OptionParser
) -> None:
    existing = _get_format_control(parser.values, option)
    FormatControl.handle_mutual_excludes(
        value,
        existing.no_binary,
        existing.only_binary,
    )


def _handle_only_binary(
    option: Option, opt_str: str, value: str, parser: OptionParser
) -> None:
    existing = _get_format_control(parser.values, option)
    FormatControl.handle_mutual_excludes(
        value,
        existing.only_binary,
        existing.no_binary,
    )


def no_binary() -> Option:
    format_control = FormatControl(set(), set())
    return Option(
        "--no-binary",
        dest="format_control",
        action="callback",
        callback=_handle_no_binary,
        type="str",
        default=format_control,
        help="Do not download binary packages. Cached binary packages may still "
        "be used. Can be supplied multiple times, and each time adds to "
        "the existing value. Accepts either ':all:' to disable all binary "
        "packages, ':none:' to empty the set (notice the colons), or one "
        "or more package names with commas between them (no colons). "
        "Note that some packages are tricky to compile and may fail to "
        "install when this option is used on them.",
    )


def only_binary() -> Option:
    format_control = FormatControl(set(), set())
    return Option(
        "--only-binary",
        dest="format_control",
        action="callback",
        callback=_handle_only_binary,
        type="str",
        default=format_control,
        help="Do not use source packages. Can be supplied multiple times, and "
        'each time adds to the existing value. Accepts either ":all:" to '
        'disable all source packages, ":none:" to empty the set, or one '
        "or more package names with commas between them. Packages "
        "without binary distributions will fail to install when this "
        "option is used on them.",
    )


def _get_release_control(values: Values, option: Option) -> Any:
    """Get a release_control object."""
    return getattr(values, option.dest)


def _handle_all_releases(
    option: Option, opt_str: str, value: str, parser: OptionParser
) -> None:
    existing = _get_release_control(parser.values, option)
    existing.handle_mutual_excludes(
        value,
        existing.all_releases,
        existing.only_final,
        "all_releases",
    )


def _handle_only_final(
    option: Option, opt_str: str, value: str, parser: OptionParser
) -> None:
    existing = _get_release_control(parser.values, option)
    existing.handle_mutual_excludes(
        value,
        existing.only_final,
        existing.all_releases,
        "only_final",
    )


def all_releases() -> Option:
    release_control = ReleaseControl(set(), set())
    return Option(
        "--all-releases",
        dest="release_control",
        action="callback",
        callback=_handle_all_releases,
        type="str",
        default=release_control,
        help="Allow all release types (including pre-releases) for a package. "
        "Can be supplied multiple times, and each time adds to the existing "
        'value. Accepts either ":all:" to allow pre-releases for all '
        'packages, ":none:" to empty the set (notice the colons), or one or '
        "more package names with commas between them (no colons). Cannot be "
        "used with --pre.",
    )


def only_final() -> Option:
    release_control = ReleaseControl(set(), set())
    return Option(
        "--only-final",
        dest="release_control",
        action="callback",
        callback=_handle_only_final,
        type="str",
        default=release_control,
        help="Only allow final releases (no pre-releases) for a package. Can be "
        "supplied multiple times, and each time adds to the existing value. "
        'Accepts either ":all:" to disable pre-releases for all packages, '
        '":none:" to empty the set, or one or more package names with commas '
        "between them. Cannot be used with --pre.",
    )


def check_release_control_exclusive(options: Values) -> None:
    """
    Raise an error if --pre is used with --all-releases or --only-final,
    and transform --pre into --all-releases :all: if used alone.
    """
    if not hasattr(options, "pre") or not options.pre:
        return

    release_control = options.release_control
    if release_control.all_releases or release_control.only_final:
        raise CommandError("--pre cannot be used with --all-releases or --only-final.")

    # Transform --pre into --all-releases :all:
    release_control.all_releases.add(":all:")


platforms: Callable[..., Option] = partial(
    Option,
    "--platform",
    dest="platforms",
    metavar="platform",
    action="append",
    default=None,
    help=(
        "Only use wheels compatible with <platform>. Defaults to the "
        "platform of the running system. Use this option multiple times to "
        "specify multiple platforms supported by the target interpreter."
    ),
)


# This was made a separate function for unit-testing purposes.
def _convert_python_version(value: str) -> tuple[tuple[int, ...], str | None]:
    """
    Convert a version string like "3", "37", or "3.7.3" into a tuple of ints.

    :return: A 2-tuple (version_info, error_msg), where `error_msg` is
        non-None if and only if there was a parsing error.
    """
    if not value:
        # The empty string is the same as not providing a value.
        return (None, None)

    parts = value.split(".")
    if len(parts) > 3:
        return ((), "at most three version parts are allowed")

    if len(parts) == 1:
        # Then we are in the case of "3" or "37".
        value = parts[0]
        if len(value) > 1:
            parts = [value[0], value[1:]]

    try:
        version_info = tuple(int(part) for part in parts)
    except ValueError:
        return ((), "each version part must be an integer")

    return (version_info, None)


def _handle_python_version(
    option: Option, opt_str: str, value: str, parser: OptionParser
) -> None:
    """
    Handle a provided --python-version value.
    """
    version_info, error_msg = _convert_python_version(value)
    if error_msg is not None:
        msg = f"invalid --python-version value: {value!r}: {error_msg}"
        raise_option_error(parser, option=option, msg=msg)

    parser.values.python_version = version_info


python_version: Callable[..., Option] = partial(
    Option,
    "--python-version",
    dest="python_version",
    metavar="python_version",
    action="callback",
    callback=_handle_python_version,
    type="str",
    default=None,
    help=dedent("""\
    The Python interpreter version to use for wheel and "Requires-Python"
    compatibility checks. Defaults to a version derived from the running
    interpreter. The version can be specified using up to three dot-separated
    integers (e.g. "3" for 3.0.0, "3.7" for 3.7.0, or "3.7.3"). A major-minor
    version can also be given as a string without dots (e.g. "37" for 3.7.0).
    """),
)


implementation: Callable[..., Option] = partial(
    Option,
    "--implementation",
    dest="implementation",
    metavar="implementation",
    default=None,
    help=(
        "Only use wheels compatible with Python "
        "implementation <implementation>, e.g. 'pp', 'jy', 'cp', "
        " or 'ip'. If not specified, then the current "
        "interpreter implementation is used.  Use 'py' to force "
        "implementation-agnostic wheels."
    ),
)


abis: Callable[..., Option] = partial(
    Option,
    "--abi",
    dest="abis",
    metavar="abi",
    action="append",
    default=None,
    help=(
        "Only use wheels compatible with Python abi <abi>, e.g. 'pypy_41'. "
        "If not specified, then the current interpreter abi tag is used. "
        "Use this option multiple times to specify multiple abis supported "
        "by the target interpreter. Generally you will need to specify "
        "--implementation, --platform, and --python-version when using this "
        "option."
    ),
)


def add_target_python_options(cmd_opts: OptionGroup) -> None:
    cmd_opts.add_option(platforms())
    cmd_opts.add_option(python_version())
    cmd_opts.add_option(implementation())
    cmd_opts.add_option(abis())


def make_target_python(options: Values) -> TargetPython:
    target_python = TargetPython(
        platforms=options.platforms,
        py_version_info=options.python_version,
        abis=options.abis,
        implementation=options.implementation,
    )

    return target_python


def prefer_binary() -> Option:
    return Option(
        "--prefer-binary",
        dest="prefer_binary",
        action="store_true",
        default=False,
        help=(
            "Prefer binary packages over source packages, even if the "
            "source packages are newer."
        ),
    )


cache_dir: Callable[..., Option] = partial(
    PipOption,
    "--cache-dir",
    dest="cache_dir",
    default=USER_CACHE_DIR,
    metavar="dir",
    type="path",
    help="Store the cache data in <dir>.",
)


def _handle_no_cache_dir(
    option: Option, opt: str, value: str, parser: OptionParser
) -> None:
    """
    Process a value provided for the --no-cache-dir option.

    This is an optparse.Option callback for the --no-cache-dir option.
    """
    # The value argument will be None if --no-cache-dir is passed via the
    # command-line, since the option doesn't accept arguments.  However,
    # the value can be non-None if the option is triggered e.g. by an
    # environment variable, like PIP_NO_CACHE_DIR=true.
    if value is not None:
        # Then parse the string value to get argument error-checking.
        try:
            strtobool(value)
        except ValueError as exc:
            raise_option_error(parser, option=option, msg=str(exc))

    # Originally, setting PIP_NO_CACHE_DIR to a value that strtobool()
    # converted to 0 (like "false" or "no") caused cache_dir to be disabled
    # rather than enabled (logic would say the latter).  Thus, we disable
    # the cache directory not just on values that parse to True, but (for
    # backwards compatibility reasons) also on values that parse to False.
    # In other words, always set it to False if the option is provided in
    # some (valid) form.
    parser.values.cache_dir = False


no_cache: Callable[..., Option] = partial(
    Option,
    "--no-cache-dir",
    dest="cache_dir",
    action="callback",
    callback=_handle_no_cache_dir,
    help="Disable the cache.",
)

no_deps: Callable[..., Option] = partial(
    Option,
    "--no-deps",
    "--no-dependencies",
    dest="ignore_dependencies",
    action="store_true",
    default=False,
    help="Don't install package dependencies.",
)


def _handle_refresh_package(
    option: Option, opt_str: str, value: str, parser: OptionParser
) -> None:
    if value.startswith("-"):
        raise CommandError("--refresh-package option requires 1 argument.")

    existing: set[str] = getattr(parser.values, option.dest)

    new = value.split(",")
    while ":all:" in new:
        existing.clear()
        existing.add(":all:")
        del new[: new.index(":all:") + 1]
        if ":none:" not in new:
            return

    for name in new:
        if name == ":none:":
            existing.clear()
        else:
            existing.add(canonicalize_name(name))


def refresh_package() -> Option:
    return Option(
        "--refresh-package",
        dest="refresh_package",
        action="callback",
        callback=_handle_refresh_package,
        type="str",
        default=set(),
        help="Refresh package index information for the given packages instead "
        "of using cached responses. Accepts ':all:' to apply "
        "to all packages, or a comma-separated list of package names.",
    )


only_deps: Callable[..., Option] = partial(
    Option,
    "--only-deps",
    "--only-dependencies",
    dest="only_dependencies",
    action="store_true",
    default=False,
    help=(
        "Take only the dependencies of the provided requirements into account, "
        "not the requirements themselves. Cannot be used in combination with "
        "--no-deps, --group, --requirement, or --requirements-from-script. "
        "No user-supplied requirements will be handled, even if they were "
        "dependencies of other user-supplied requirements."
    ),
)


def _handle_dependency_group(
    option: Option, opt: str, value: str, parser: OptionParser
) -> None:
    """
    Process a value provided for the --group option.

    Splits on the rightmost ":", and validates that the path (if present) ends
    in `pyproject.toml`. Defaults the path to `pyproject.toml` when one is not given.

    `:` cannot appear in dependency group names, so this is a safe and simple parse.

    This is an optparse.Option callback for the dependency_groups option.
    """
    path, sep, groupname = value.rpartition(":")
    if not sep:
        path = "pyproject.toml"
    else:
        # check for 'pyproject.toml' filenames using pathlib
        if pathlib.PurePath(path).name != "pyproject.toml":
            msg = "group paths use 'pyproject.toml' filenames"
            raise_option_error(parser, option=option, msg=msg)

    parser.values.dependency_groups.append((path, groupname))


dependency_groups: Callable[..., Option] = partial(
    Option,
    "--group",
    dest="dependency_groups",
    default=[],
    type=str,
    action="callback",
    callback=_handle_dependency_group,
    metavar="[path:]group",
    help='Install a named dependency-group from a "pyproject.toml" file. '
    'If a path is given, the name of the file must be "pyproject.toml". '
    'Defaults to using "pyproject.toml" in the current directory.',
)

ignore_requires_python: Callable[..., Option] = partial(
    Option,
    "--ignore-requires-python",
    dest="ignore_requires_python",
    action="store_true",
    help="Ignore the Requires-Python information.",
)


no_build_isolation: Callable[..., Option] = partial(
    Option,
    "--no-build-isolation",
    dest="build_isolation",
    action="store_false",
    default=True,
    help="Disable isolation when building a modern source distribution. "
    "Build dependencies specified by PEP 518 must be already installed "
    "if this option is used.",
)

check_build_deps: Callable[..., Option] = partial(
    Option,
    "--check-build-dependencies",
    dest="check_build_deps",
    action="store_true",
    default=False,
    help="Check the build dependencies.",
)


use_pep517: Any = partial(
    Option,
    "--use-pep517",
    dest="use_pep517",
    action="store_true",
    default=True,
    help=SUPPRESS_HELP,
)


def _handle_config_settings(
    option: Option, opt_str: str, value: str, parser: OptionParser
) -> None:
    key, sep, val = value.partition("=")
    if sep != "=":
        parser.error(f"Arguments to {opt_str} must be of the form KEY=VAL")
    dest = getattr(parser.values, option.dest)
    if dest is None:
        dest = {}
        setattr(parser.values, option.dest, dest)
    if key in dest:
        if isinstance(dest[key], list):
            dest[key].append(val)
        else:
            dest[key] = [dest[key], val]
    else:
        dest[key] = val


config_settings: Callable[..., Option] = partial(
    Option,
    "-C",
    "--config-settings",
    dest="config_settings",
    type=str,
    action="callback",
    callback=_handle_config_settings,
    metavar="settings",
    help="Configuration settings to be passed to the build backend. "
    "Settings take the form KEY=VALUE. Use multiple --config-settings options "
    "to pass multiple keys to the backend.",
)

no_clean: Callable[..., Option] = partial(
    Option,
    "--no-clean",
    action="store_true",
    default=False,
    help="Don't clean up build directories.",
)

pre: Callable[..., Option] = partial(
    Option,
    "--pre",
    action="store_true",
    default=False,
    help="Include pre-release and development versions. By default, "
    "pip only finds stable versions.",
)

json: Callable[..., Option] = partial(
    Option,
    "--json",
    action="store_true",
    default=False,
    help="Output data in a machine-readable JSON format.",
)

disable_pip_version_check: Callable[..., Option] = partial(
    Option,
    "--disable-pip-version-check",
    dest="disable_pip_version_check",
    action="store_true",
    default=False,
    help="Don't periodically check PyPI to determine whether a new version "
    "of pip is available for download. Implied with --no-index.",
)

root_user_action: Callable[..., Option] = partial(
    Option,
    "--root-user-action",
    dest="root_user_action",
    default="warn",
    choices=["warn", "ignore"],
    help="Action if pip is run as a root user [warn, ignore] (default: warn)",
)


def _handle_merge_hash(
    option: Option, opt_str: str, value: str, parser: OptionParser
) -> None:
    """Given a value spelled "algo:digest", append the digest to a list
    pointed to in a dict by the algo name."""
    if not parser.values.hashes:
        parser.values.hashes = {}
    try:
        algo, digest = value.split(":", 1)
    except ValueError:
        parser.error(
            f"Arguments to {opt_str} must be a hash name "
            "followed by a value, like --hash=sha256:"
            "abcde..."
        )
    if algo not in STRONG_HASHES:
        parser.error(
            "Allowed hash algorithms for {} are {}.".format(
                opt_str, ", ".join(STRONG_HASHES)
            )
        )
    parser.values.hashes.setdefault(algo, []).append(digest)


hash: Callable[..., Option] = partial(
    Option,
    "--hash",
    # Hash values eventually end up in InstallRequirement.hashes due to
    # __dict__ copying in process_line().
    dest="hashes",
    action="callback",
    callback=_handle_merge_hash,
    type="string",
    help="Verify that the package's archive matches this "
    "hash before installing. Example: --hash=sha256:abcdef...",
)


require_hashes: Callable[..., Option] = partial(
    Option,
    "--require-hashes",
    dest="require_hashes",
    action="store_true",
    default=False,
    help="Require a hash to check each requirement against, for "
    "repeatable installs. This option is implied when any package in a "
    "requirements file has a --hash option.",
)


no_require_hashes: Callable[..., Option] = partial(
    Option,
    "--no-require-hashes",
    dest="no_require_hashes",
    action="store_true",
    default=False,
    help="Do not automatically enable --require-hashes "
    "when encountering a requirement with hashes.",
)


list_path: Callable[..., Option] = partial(
    PipOption,
    "--path",
    dest="path",
    type="path",
    action="append",
    help="Restrict to the specified installation path for listing "
    "packages (can be used multiple times).",
)


def check_list_path_option(options: Values) -> None:
    if options.path and (options.user or options.local):
        raise CommandError("Cannot combine '--path' with '--user' or '--local'")


list_exclude: Callable[..., Option] = partial(
    PipOption,
    "--exclude",
    dest="excludes",
    action="append",
    metavar="package",
    type="package_name",
    help="Exclude specified package from the output",
)


no_python_version_warning: Callable[..., Option] = partial(
    Option,
    "--no-python-version-warning",
    dest="no_python_version_warning",
    action="store_true",
    default=False,
    help=SUPPRESS_HELP,  # No-op, a hold-over from the Python 2->3 transition.
)


# Features that are now always on. A warning is printed if they are used.
ALWAYS_ENABLED_FEATURES = [
    "truststore",  # always on since 24.2
    "no-binary-enable-wheel-cache",  # always on since 23.1
    "build-constraint",  # always on since 26.2
]

use_new_feature: Callable[..., Option] = partial(
    Option,
    "--use-feature",
    dest="features_enabled",
    metavar="feature",
    action="append",
    default=[],
    choices=[
        "fast-deps",
        "inprocess-build-deps",
        "venv-isolation",
    ]
    + ALWAYS_ENABLED_FEATURES,
    help="Enable new functionality, that may be backward incompatible.",
)

use_deprecated_feature: Callable[..., Option] = partial(
    Option,
    "--use-deprecated",
    dest="deprecated_features_enabled",
    metavar="feature",
    action="append",
    default=[],
    choices=[
        "legacy-resolver",
        "legacy-certs",
    ],
    help=("Enable deprecated functionality, that will be removed in the future."),
)

##########
# groups #
##########

general_group: dict[str, Any] = {
    "name": "General Options",
    "options": [
        help_,
        debug_mode,
        isolated_mode,
        require_virtualenv,
        python,
        verbose,
        version,
        quiet,
        log,
        no_input,
        keyring_provider,
        proxy,
        no_proxy_env,
        retries,
        timeout,
        exists_action,
        trusted_host,
        cert,
        client_cert,
        cache_dir,
        no_cache,
        disable_pip_version_check,
        no_color,
        no_python_version_warning,
        use_new_feature,
        use_deprecated_feature,
        resume_retries,
    ],
}

index_group: dict[str, Any] = {
    "name": "Package Index Options",
    "options": [
        index_url,
        extra_index_url,
        no_index,
        refresh_package,
        find_links,
        uploaded_prior_to,
    ],
}

package_selection_group: dict[str, Any] = {
    "name": "Package Selection Options",
    "options": [
        pre,
        all_releases,
        only_final,
        no_binary,
        only_binary,
        prefer_binary,
    ],
}
