#!/usr/bin/env python3
"""Copy confirmed seeded changes into /verif/seeded/<id>/ from a seedbatch result file: tools/keepseeded.py results.jsonl [results2.jsonl ...]"""
import json, os, shutil, sys

HERE = os.path.dirname(os.path.dirname(os.path.abspath(__file__)))
for path in sys.argv[1:]:
    for line in open(path):
        line = line.strip()
        if not line.startswith('{'):
            continue
        r = json.loads(line)
        if not r.get('applies'):
            print('skip (does not apply)', r['dir'], r['change']); continue
        confirmed = r.get('tests', '').startswith('358 passed') and r.get('demo_with_patch') not in (0, None) and r.get('demo_without') == 0
        prop = os.path.basename(r['dir'])
        sid = prop + r['change'] + ('-w2' if 'mutout2' in r['dir'] else '-w3' if 'mutout4' in r['dir'] else '-w4' if 'mutout5' in r['dir'] else '-w5' if 'mutout6' in r['dir'] else '')
        if not confirmed:
            print('NOT CONFIRMED', sid, r.get('tests'), r.get('demo_with_patch'), r.get('demo_without')); continue
        d = os.path.join(HERE, 'seeded', sid)
        os.makedirs(d, exist_ok=True)
        shutil.copy(os.path.join(r['dir'], r['change'] + '.patch.diff'), os.path.join(d, 'patch.diff'))
        shutil.copy(os.path.join(r['dir'], r['change'] + '.demo.py'), os.path.join(d, 'demo.py'))
        meta = {}
        mp = os.path.join(r['dir'], r['change'] + '.meta.json')
        if os.path.exists(mp):
            try:
                meta = json.load(open(mp))
            except ValueError:
                meta = {'raw': open(mp).read()}
        checks = {k: v for k, v in r.items() if k.startswith('C') and isinstance(v, dict)}
        out = {
            'id': sid, 'property': prop, 'summary': meta.get('summary'), 'needs': meta.get('needs'), 'author_ran': meta.get('ran'),
            'confirmed_by_me': {
                'patch_applies_to_repo_HEAD': True,
                'fast_suite_with_patch': r.get('tests'),
                'demo_exit_with_patch': r.get('demo_with_patch'), 'demo_exit_without_patch': r.get('demo_without'),
                'checks_quick_tier': {k: {'exit': v['exit'], 'violations': v['violations'], 'first_signatures': v['first']} for k, v in checks.items()},
            },
            'detected_by': sorted(k for k, v in checks.items() if v['exit'] == 1 and v['violations'] > 0),
        }
        if os.path.exists(os.path.join(d, 'meta.json')):
            old = json.load(open(os.path.join(d, 'meta.json')))
            old_checks = old.get('confirmed_by_me', {}).get('checks_quick_tier', {})
            old_checks.update(out['confirmed_by_me']['checks_quick_tier'])
            out['confirmed_by_me']['checks_quick_tier'] = old_checks
            out['detected_by'] = sorted(k for k, v in old_checks.items() if v['exit'] == 1 and v['violations'] > 0)
            if old.get('history'):
                out['history'] = old['history']
        json.dump(out, open(os.path.join(d, 'meta.json'), 'w'), indent=1)
        print('kept', sid, 'detected by', out['detected_by'])
