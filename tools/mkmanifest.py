#!/usr/bin/env python3
"""Regenerates /verif/MANIFEST.json from the table below (kept in one place so that it is always valid)."""
import json, os

HERE = os.path.dirname(os.path.dirname(os.path.abspath(__file__)))

CHECKS = {
 'C01': ('exploration', 'Every runnable scope-tree program (scope kinds x attachment slots x binding-event bundles) and every G_feat fragment program, under every option set within 1 (quick) / 2 (thorough) toggles of all-default and of all-off over the 13 documented-safe switches (plus fully crossed sets on programs that trigger every transform), is minified, compiled and executed; the obs()/stdout stream, terminating exception type and normalised public namespace must equal those of the original.',
         'bounded exhaustive enumeration of programs x option sets, differential execution against the original',
         'Programs are straight-line and bounded (<=2/3 nested scopes, fragment pairs/triples); reflective reads and annotation side effects are excluded as the documentation itself excludes them.'),
 'C02': ('model_checking', 'Exhaustive enumeration of the (context, slot, child[, grandchild], parenthesisation) table of the expression/statement/pattern grammar, of numeric spelling classes x contexts, of all strings over 14 quoting-relevant character classes up to length 3-5 in 28 literal placements, plus explicit-state exploration of the token-spacing machine (lexeme-class pairs observed from the real printers x every lexeme variant, re-tokenised). Every case is printed by the real unparser and by minify(all transforms off) and compared with a strict tree oracle under up to nine interpreters.',
         'bounded exhaustive enumeration of the grammar table + explicit-state exploration of the token-spacing machine on the real implementation',
         'Trusted: the interpreters\' own ast.parse/tokenize as reference; bounded depth/length as stated in the evidence file.'),
 'C03': ('exploration', 'Every compilable scope-tree program (runnable or not; incl. decoy names from the renamer\'s own alphabet, depth-3 chains and annotation-position programs) x all 15 non-empty subsets of the renaming switches (x annotation removal): the output must compile, must be alpha-equivalent to the un-renamed print under an independent implementation of the language\'s scoping rules (bijection on bindings, identity on builtin/unbound names, aliases merged), and must behave the same when run. The resolver is cross-checked against symtable on every program.',
         'bounded exhaustive enumeration of scope trees; static alpha-equivalence oracle + differential execution',
         'Scoping rules as implemented in mc/oracle/scopes.py (cross-checked against symtable and execution); <=2/3 nested scopes; one tracked name.'),
 'C04': ('exploration', 'Scope-tree programs and all fragment programs x option sets (all subsets of the renaming switches x annotation/literal-statement bases; full(7) on fragments): attribute, keyword, import, class-body, keyword-callable parameter, dunder and unbound names keep their spelling at every aligned position; module-level name set unchanged except for added underscore names when rename_globals is off.',
         'bounded exhaustive enumeration; positional alignment of identifier occurrences + independent scope analysis',
         'Interface roles are read from the input tree by mc/oracle/iface.py.'),
 'C06': ('exploration', 'Every pair (quick) / triple (thorough) of 40 syntactic positions receiving the same literal (7 literal kinds, look-alike pairs, 5 module heads) x 8 option sets: each inserted alias is bound exactly once at the head of a def/module body, every replaced literal resolves to an alias with strictly the same constant, nothing is replaced in patterns/__slots__/f-string text/expression statements, docstrings stay first, output compiles and behaves the same.',
         'bounded exhaustive enumeration of literal placements; alignment + independent resolution + differential execution',
         'Positions and literal kinds of mc/gen/hoist.py.'),
 'C09': ('exploration', 'Trigger name {exec, eval, locals, globals, vars} x form {call, bare, attribute base} x 25 positions, star imports in 5 positions, and scope-tree programs with a module-level trigger, x 60+ option sets (+ preserve lists): the output must be textually identical to the output without the three name-changing switches, and the program (whose trigger really reads the namespaces) behaves the same.',
         'bounded exhaustive enumeration of trigger placements x option sets; differential text + execution oracle',
         'Premise evaluated with the independent resolver on what the structural transforms leave; the Python 2 exec statement and the name triggers under the other installed interpreters go through the portable worker (textual freeze + stdout / exception comparison).'),
 'C10': ('exploration', 'Scope-tree and fragment programs x 4 option sets x every preserve specification drawn from the names the renamer would otherwise respell (subsets <=2 + full, list / single string / locals / globals / both), four literal __all__ spellings and awslambda entry points: preserved bindings keep their spelling at every site, the binding bijection still holds, and nothing but spellings changes.',
         'bounded exhaustive enumeration of programs x preserve specifications; alignment + independent resolution',
         'Lists of <=3 names taken from the program itself.'),
 'C05': ('exploration', 'G_stmt (19 block positions x 1-2 statements from 61 statement forms, dataclass/NamedTuple/TypedDict field classes, shadowing preambles) and the fragment programs x every option set within 1 (quick) / 2 (thorough) toggles of all-off, all-on and default over the 18 switches, plus all 2^18 subsets (thorough) / all <=3-subsets of the structural switches (quick) on a program that triggers every transform. (1) canon_O(P) == canon_O(minify(P,O)) strictly, where canon_O is an independent reference implementation of the documented rewrites with their side conditions; (2) the output behaves like the original under the optimisation level the options presuppose (-O / -OO).',
         'bounded exhaustive enumeration of statement blocks x option sets; canonical-form comparison against a reference implementation of the documented rewrites + differential execution',
         'mc/oracle/rewrite_rules.py is the reading of docs/source/transforms/*.rst; classifier applied to option sets without renaming/hoisting (those are C03/C06), behaviour to all.'),
 'C07': ('exploration', 'All pairs of 92 signed literal operands x 13 operators, both associations at depth 2 (12- / 23-operand alphabets), every foldable depth-1 expression in 51 syntactic contexts, under every installed interpreter: wherever the folded output differs from the unfolded one both sides are evaluated by the interpreter and must agree in type, value, sign of zero and infinities; raising / NaN originals must be left alone; the result must not be longer.',
         'bounded exhaustive enumeration of literal expressions; independent evaluation of every folded sub-expression',
         'Operand alphabet of mc/gen/lits.py; shifts by >= 2^31 excluded (the folder builds the value, which takes minutes and gigabytes on interpreters without the int->str limit - a resource issue outside the property).'),
 'C08': ('exploration', 'Union of all program enumerators (grammar table, numbers incl. 4300-digit boundaries, string placements, scope trees, fragments, hoisting and taint programs, literal arithmetic) x option sets (5 broad sets everywhere, dev(1) around default/all-on/all-off and the full rename group on small programs), all token strings of <=3/4 tokens from a 27-token alphabet for the invalid side, and every installed interpreter: compile(S) ok => minify returns and compile(out) ok; ast.parse(S) fails => same exception class from minify.',
         'bounded exhaustive enumeration over the union of program spaces x option sets x interpreters',
         'compile() of the running interpreter decides compilable; old interpreters are not fed N**N / N<<N with huge N because their own compile() folds them without limit.'),
 'C12': ('exploration', 'Every string/bytes over the quoting character classes (length <=3-5) in 28 literal placements, ~70 break-out payloads in every placement (escaped and raw), literal arithmetic and non-literal operands next to literals, x 2-3 option sets, each minify call under a sys.addaudithook recorder: every executed code object must be closed (no names/locals/free variables/nested code), no import outside python_minifier, no open/os/subprocess/socket/ctypes event; a sentinel function would flip a flag if input text ran.',
         'bounded exhaustive enumeration of literal contents x placements under an audit-hook monitor',
         'Audit hooks of CPython >= 3.8 see every exec/compile/import/open; the parser\'s own lazy import of unicodedata and its lookup of the pseudo file name for SyntaxError display are whitelisted.'),
 'C13': ('model_checking', 'Reference model = the documented flag->option table. (a) all 2^19 subsets of the boolean flags: the real parse_args + do_minify run in-process with minify replaced by a recorder, recorded keywords must equal the model, invalid subsets must exit non-zero before anything is recorded or written; (b) end-to-end bytes through the real main() for every subset within 2 flags of none (quick) / all 2^19 (thorough) x 3 sources on which every flag changes the output; (c) every way to split <=3 preserve names over repeated flags, commas, spaces and empty segments; (d) the dev(2) vectors repeated through the real executable in stdin / file / --output modes and compared byte for byte with the in-process driver; (e) every documented invalid path/output combination must exit non-zero having written nothing, in-process and through the executable.',
         'exhaustive enumeration of the 2^19 flag states against a reference model of the documented flag table; model traces replayed against the real executable',
         'The table in mc/clidrv.py is the reading of the documentation; fake streams validated against the subprocess.'),
 'C14': ('exploration', 'Every token string of <=3/4 tokens from a 27-token alphabet (incl. composite tokens that make a source grow) and grow/tie/shrink programs in 7 encodings x 3 newline conventions x 4 shebang forms, x 4 flag sets x 5 output modes (stdin/file -> stdout/--output, --in-place) x override {unset, empty, set}: nothing written and non-zero exit for unparseable input; written == api bytes when they are not longer than the source (or the override is set), else written == source; never more bytes than read.',
         'bounded exhaustive enumeration of source byte strings x flags x output modes x environment',
         'In-process main() validated against the executable on a subset.'),
 'C15': ('model_checking', 'Explicit tree/fault state machine: all trees of <=3/4 entries from 20 file kinds (shrinking/growing/empty .py, .pyw, syntax error, undecodable, injected unreadable / read-only, non-Python names incl. .pyi/.pyx/.PY, sub-directory, file/directory/dangling symlinks, symlink loop) x 7 argument forms (incl. a missing path) x 2 flag sets x both directory listing orders, against a reference model of visit order and per-file outcome; every file\'s post-state, the listing, the exit status and the set of files must match the model (post-state always in {pre, api(pre)[, api(api(pre)) for aliased paths]}); single-file stdout/--output modes never touch the source; a subset is repeated through the real executable.',
         'explicit-state enumeration of directory trees x fault positions x listing orders against a reference model; model traces validated against the implementation on every case',
         'Faults injected by shadowing open()/os.walk in python_minifier.__main__; a write() that fails after the open is part of the alphabet (recorded finding: truncate-then-write); crashes between truncation and write are not enumerated.'),
 'C16': ('exploration', '32 constant-carrying programs x 8 encodings (UTF-8, BOM, cookies latin-1/cp1252/shift_jis/utf-8, cookie contradicting a BOM) x 5 newline conventions x 11 shebang forms (incl. characters str.splitlines() treats as line ends) x {bytes, str} x preserve_shebang on/off x {all transforms off, default}, and through the CLI: strict tree equality with the interpreter\'s own parse of the bytes (or same behaviour), first-line rule, api(bytes) == api(text), CLI output decodes as UTF-8; sources the interpreter rejects must raise the same exception class.',
         'bounded exhaustive enumeration of encodings x newlines x shebangs x input types',
         'The interpreter\'s own reading of the bytes is the reference.'),
 'C11': ('model_checking', 'Four owned sources of nondeterminism. (1) explicit-state BFS over call histories (14-call alphabet sharing preserve lists, option objects, type parameters, __all__, raising calls; depth 3 / 4), every history in its own fresh process, state = digest of all mutable module-level/class/default-argument state of python_minifier + caller-owned arguments; invariants per transition: result == fresh-process result, arguments == pre-call copies, module state unchanged. (2) stateless preemption-bounded exploration of 2-3 threads calling minify() under a cooperative scheduler (trace events inside python_minifier are the scheduling points): bound 0, every single preemption at line granularity, pairs at call granularity and 3 threads (thorough). (3) every permutation (<=3 elements; reverse/rotations above) of the iteration order of the string sets the renamer builds. (4) PYTHONHASHSEED 0..15 / 0..63+random in fresh processes.',
         'explicit-state BFS over call histories + preemption-bounded schedule enumeration + exhaustive set-order permutations on the real implementation',
         'GIL-level interleavings: line / call events everywhere, every bytecode instruction of the smallest program in the thorough tier; seeds are a bounded enumeration backed by explicit set-order control.'),
 'C17': ('exploration', 'Pinned corpus (329 modules: python_minifier itself at the pinned commit, 149 CPython 3.12.1 stdlib modules of 2-120 KiB and 146 small real modules of 40 B - 2 KiB, checksummed) x 11 size options x 2 bases {all off, default minus the option}: the minified text with the option on is never longer (characters and UTF-8 bytes) than with it off. The finite space is enumerated completely; there is no state machine here.',
         'complete enumeration of a finite configuration space (corpus x option x base)',
         'The corpus is fixed bytes; both tiers enumerate all of it (about half a minute). Two recorded findings (hoisting cost model ignores indentation).'),
}


# what later sessions added to the explored space of a check (appended to the level text)
ADDED = {
 'C01': 'The scope-tree part is repeated under the other installed interpreters (3.7 and 3.13 over the one- and two-scope core space in the quick tier; 3.7-3.11 and 3.13 over the whole quick-tier space in the thorough tier): minified, compiled and executed by that interpreter.',
 'C03': 'The scope-tree part is repeated under the other installed interpreters (3.7 and 3.13 in the quick tier, 3.7-3.11 and 3.13 in the thorough tier) including the symtable cross-check of that version; decoy programs also delete (never assign) the injected global.',
 'C05': 'Field classes also carry their fields inside if / try / with / for blocks of the class body and after a nested class; the reference canonicaliser decides class attribute vs variable by the enclosing scope; exception names rebound through globals().',
 'C06': 'Placements include annotated and nested __slots__ assignments and the values of annotated assignments (crossed with annotation removal).',
 'C08': 'Depth ladders: 36 chained / nested shapes x rungs 10..3000 x 3 option sets, each on a fresh thread; the first failing rung of a ladder is part of the signature (14 shapes reach the recursive visitors\' limit before the interpreter\'s: recorded findings).',
 'C09': 'The Python 2 exec statement (5 forms) and the name triggers in 19 statement positions are run by the portable worker under every installed interpreter (2.7, 3.6-3.13); trigger names declared global, used as same-named parameter defaults or as method / class-attribute names are in the position alphabet.',
 'C10': 'Seven literal __all__ spellings (incl. chained assignments and a rebound list).',
 'C11': 'Set-order permutations and hash seeds also cover 1 728 f-string programs whose printed form has tied candidates, the f-string members of the expression table and the pattern table; call histories include the exit paths of minify() (shebang early return, literals at the interpreter-wide digit limit, bytes sources); thorough: every single preemption at bytecode granularity on the smallest program.',
 'C13': 'End-to-end sources sit on both sides of the byte-size rule (latin-1 module, hair\'s-breadth UTF-8 module); stdin mixed with several paths in every position is in the invalid-invocation list.',
 'C14': 'The size rule is also enforced when the API raises for a parseable (very deep) module, and for several modules - some byte-identical - in one --in-place run.',
 'C15': 'File kinds also include a module in a declared non-UTF-8 encoding and a module whose write() fails after the open (ENOSPC); argument forms include <symlinked directory>/../target.py.',
 'C16': 'Also: a shebang line that is itself the coding line, cookies that come too late (line 3), bytes that are not valid in the declared encoding inside comments; the result is parsed / run from its UTF-8 bytes.',
 'C17': 'Plus 14 typed real modules (annotated assignments with repeated literals) from installed packages: 343 modules.',
}


def main():
    checks = []
    for pid in sorted(CHECKS):
        level, text, technique, note = CHECKS[pid]
        if pid in ADDED:
            text = text + ' ' + ADDED[pid]
        checks.append({
            'property_id': pid, 'quick_cmd': './run %s --tier quick' % pid, 'thorough_cmd': './run %s --tier thorough' % pid,
            'evidence_file': '/verif/evidence/%s.json' % pid, 'replay_cmd_template': './run replay {path}', 'engine': 'mc',
            'level_claimed': {'category': level, 'text': text, 'design_ref': 'DESIGN.md §3 %s' % pid},
            'level_note': note, 'technique': technique,
        })
    na = [{'property_id': 'C%02d' % i, 'reason': 'check not built yet (work in progress, see DESIGN.md §7 order of work)'}
          for i in range(1, 18) if 'C%02d' % i not in CHECKS]
    m = {
        'version': 1, 'setup_cmd': './run setup',
        'hooks': {'guard': 'PYMINIFY_VERIF',
                  'enable': 'no source hooks: all interposition is done from the harness (sys.settrace, audit hooks, module attribute shadowing); ./run exports PYMINIFY_VERIF=1 for symmetry',
                  'baseline_off_cmd': 'cd /repo && /venv/bin/python -m pytest -ra -q -p no:cacheprovider --timeout=900 --continue-on-collection-errors',
                  'source_commits': [], 'add_only': True},
        'engines': [{'name': 'mc', 'path': '/verif/mc', 'serves_properties': sorted(CHECKS),
                     'kind_free_text': 'hand-written bounded exhaustive explorer driving the real implementation (Python); sharded over 16 processes'}],
        'checks': checks, 'not_applicable': na, 'notes': 'see DESIGN.md; known_findings.json lists recorded findings and fixed defects',
    }
    with open(os.path.join(HERE, 'MANIFEST.json'), 'w') as f:
        json.dump(m, f, indent=1)
    print('wrote MANIFEST.json with', len(checks), 'checks')


if __name__ == '__main__':
    main()
