#!/usr/bin/env python3
"""Run the repository's pinned test suite (the command of /root/.vp/BASELINE.json) in a checkout and report which of the 6212 stable tests
no longer pass.   usage: tools/baseline_check.py <repo dir> [-n WORKERS]
Exit 0 when every stable test passed."""
import json, os, subprocess, sys, tempfile
import xml.etree.ElementTree as ET

repo = sys.argv[1]
n = sys.argv[3] if len(sys.argv) > 3 and sys.argv[2] == '-n' else '8'
base = json.load(open('/root/.vp/BASELINE.json'))
fd, junit = tempfile.mkstemp(prefix='baseline-', suffix='.xml', dir='/var/tmp')
os.close(fd)
env = dict(os.environ, PYTHONPATH=os.path.join(repo, 'src'))
env.pop('PYMINIFY_VERIF', None)
cmd = ['/venv/bin/python', '-m', 'pytest', '-ra', '-q', '-p', 'no:cacheprovider', '--timeout=900', '--continue-on-collection-errors', '-n', n, '--junitxml=' + junit]
p = subprocess.run(cmd, cwd=repo, env=env, stdout=subprocess.PIPE, stderr=subprocess.STDOUT, text=True)
passed = set()
for tc in ET.parse(junit).getroot().iter('testcase'):
    if not any(ch.tag in ('failure', 'error', 'skipped') for ch in tc):
        passed.add((tc.get('classname') or '') + '::' + (tc.get('name') or ''))
os.unlink(junit)
missing = [t for t in base['stable_pass'] if t not in passed]
print(p.stdout.strip().splitlines()[-1])
print('stable tests: %d, passed now: %d, missing: %d' % (len(base['stable_pass']), len(base['stable_pass']) - len(missing), len(missing)))
for t in missing[:40]:
    print('  NOT PASSING:', t)
sys.exit(1 if missing else 0)
