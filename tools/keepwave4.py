#!/usr/bin/env python3
"""Record the wave-4 seeded changes under seeded/<id>-w4/ from /tmp/mutout5 and the evaluation logs (see DESIGN.md 8.8).
usage: tools/keepwave4.py <status.json>   where status.json maps "C05a" -> {"first_run": ..., "after": ..., "detected_by": [...]}"""
import glob, json, os, shutil, sys

HERE = os.path.dirname(os.path.dirname(os.path.abspath(__file__)))
status = json.load(open(sys.argv[1]))
logs = {}
for f in sorted(glob.glob('/var/tmp/vlog/w4_*.jsonl')) + sorted(glob.glob('/var/tmp/vlog/w4s_*.jsonl')):
    for line in open(f):
        if line.startswith('{'):
            r = json.loads(line)
            key = os.path.basename(r['dir']) + r['change']
            logs.setdefault(key, []).append(r)
for key, st in sorted(status.items()):
    prop, ch = key[:3], key[3:]
    src = '/tmp/mutout5/%s' % prop
    d = os.path.join(HERE, 'seeded', '%s%s-w4' % (prop, ch))
    os.makedirs(d, exist_ok=True)
    shutil.copy(os.path.join(src, ch + '.patch.diff'), os.path.join(d, 'patch.diff'))
    shutil.copy(os.path.join(src, ch + '.demo.py'), os.path.join(d, 'demo.py'))
    try:
        meta = json.load(open(os.path.join(src, ch + '.meta.json')))
    except ValueError:
        meta = {'summary': open(os.path.join(src, ch + '.meta.json')).read()}
    rs = logs.get(key, [])
    tests = next((r.get('tests') for r in rs if r.get('tests')), st.get('tests'))
    out = {
        'id': '%s%s-w4' % (prop, ch), 'property': prop, 'summary': meta.get('summary'), 'needs': meta.get('needs'), 'author_ran': meta.get('ran'),
        'confirmed_by_me': {
            'patch_applies_to_repo_HEAD': True,
            'fast_suite_with_patch': tests,
            'demo_exit_with_patch': next((r.get('demo_with_patch') for r in rs if r.get('demo_with_patch') is not None), st.get('demo_with')),
            'demo_exit_without_patch': next((r.get('demo_without') for r in rs if r.get('demo_without') is not None), st.get('demo_without')),
        },
        'first_run': st['first_run'], 'after_strengthening': st.get('after'), 'detected_by': st['detected_by'],
    }
    if st.get('note'):
        out['note'] = st['note']
    json.dump(out, open(os.path.join(d, 'meta.json'), 'w'), indent=1)
    print('kept', out['id'], out['detected_by'])
