#!/bin/sh
# usage: tools/seedtest.sh <patch.diff> <Cnn> [<Cnn> ...]
# Applies a seeded change to a scratch worktree of /repo (never to /repo itself), runs the quick tier of the given checks against it with
# evidence/replay redirected to a scratch directory, prints one line per check, and removes the worktree.
set -u
PATCH="$1"; shift
HERE="$(cd "$(dirname "$0")/.." && pwd)"
WT="$(mktemp -d /var/tmp/seedwt-XXXXXX)"
OUT="$(mktemp -d /var/tmp/seedout-XXXXXX)"
rmdir "$WT"
git -C /repo worktree add -q "$WT" HEAD || exit 2
if ! { git -C "$WT" apply --3way "$PATCH" && git -C "$WT" reset -q; }; then echo "PATCH DOES NOT APPLY: $PATCH"; git -C /repo worktree remove --force "$WT"; exit 2; fi
for C in "$@"; do
  VERIF_REPO="$WT" VERIF_EVIDENCE_DIR="$OUT/evidence" VERIF_REPLAY_DIR="$OUT/replay" VERIF_TIER="${SEED_TIER:-quick}" timeout "${SEED_TIMEOUT:-900}" "$HERE/run" "$C" --tier "${SEED_TIER:-quick}" > "$OUT/$C.log" 2>&1
  rc=$?
  nviol=$(grep -c '^VIOLATION' "$OUT/$C.log")
  first=$(grep -m1 'signature:' "$OUT/$C.log" | cut -c1-160)
  echo "$(basename "$PATCH") $C exit=$rc violations=$nviol $first"
done
git -C /repo worktree remove --force "$WT"
rm -rf "$OUT"
