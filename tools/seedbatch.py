#!/usr/bin/env python3
"""Evaluate seeded changes: tools/seedbatch.py <dir with x.patch.diff/x.demo.py/x.meta.json> <check ids...>
For each change: (1) the patch applies to a scratch worktree of /repo HEAD, (2) the fast test directory passes with it, (3) the demo fails with it
and passes without it, (4) the given checks (quick tier) are run against it.  Prints one JSON line per change."""
import glob, json, os, subprocess, sys, tempfile, shutil

def sh(cmd, **kw):
    return subprocess.run(cmd, shell=True, stdout=subprocess.PIPE, stderr=subprocess.STDOUT, text=True, **kw)

def main():
    d = sys.argv[1]
    checks = sys.argv[2:]
    for patch in sorted(glob.glob(os.path.join(d, '*.patch.diff'))):
        x = os.path.basename(patch).split('.')[0]
        if os.environ.get('SEED_ONLY') and x not in os.environ['SEED_ONLY'].split(','):
            continue
        demo = os.path.join(d, x + '.demo.py')
        wt = tempfile.mkdtemp(prefix='seedwt-', dir='/var/tmp'); os.rmdir(wt)
        sh('git -C /repo worktree add -q %s HEAD' % wt)
        rec = {'dir': d, 'change': x}
        try:
            r = sh('git -C %s apply --3way %s && git -C %s reset -q' % (wt, patch, wt))      # 3-way: later fix: commits may have moved the context
            rec['applies'] = r.returncode == 0
            if not rec['applies']:
                rec['apply_error'] = r.stdout[-300:]
                print(json.dumps(rec)); continue
            r = sh('cd %s && PYTHONPATH=%s/src /venv/bin/python -m pytest test -q -p no:cacheprovider -n 4 2>&1 | tail -1' % (wt, wt))
            rec['tests'] = r.stdout.strip()
            r1 = sh('PYTHONPATH=%s/src timeout 300 /venv/bin/python %s' % (wt, demo))
            r0 = sh('PYTHONPATH=/repo/src timeout 300 /venv/bin/python %s' % demo)
            rec['demo_with_patch'] = r1.returncode
            rec['demo_without'] = r0.returncode
            for c in checks:
                out = tempfile.mkdtemp(prefix='seedout-', dir='/var/tmp')
                env = dict(os.environ, VERIF_REPO=wt, VERIF_EVIDENCE_DIR=out + '/evidence', VERIF_REPLAY_DIR=out + '/replay')
                r = subprocess.run(['timeout', '1500', os.environ.get('VERIF_HOME', '/verif') + '/run', c, '--tier', 'quick'], stdout=subprocess.PIPE, stderr=subprocess.STDOUT, text=True, env=env)
                lines = r.stdout.splitlines()
                nv = sum(1 for l in lines if l.startswith('VIOLATION'))
                sig = [l.strip() for l in lines if 'signature:' in l][:2]
                rec[c] = {'exit': r.returncode, 'violations': nv, 'first': sig}
                shutil.rmtree(out, ignore_errors=True)
        finally:
            sh('git -C /repo worktree remove --force %s' % wt)
        print(json.dumps(rec)); sys.stdout.flush()

main()
