#!/usr/bin/env python3
"""Regenerates section 8.6 of DESIGN.md (the seeded-change table) from seeded/*/meta.json."""
import glob, json, os, re

HERE = os.path.dirname(os.path.dirname(os.path.abspath(__file__)))
rows = []
for d in sorted(glob.glob(os.path.join(HERE, 'seeded', '*'))):
    m = json.load(open(os.path.join(d, 'meta.json')))
    summ = (m.get('summary') or '').replace('\n', ' ').replace('|', '/')
    summ = re.sub(r'\s+', ' ', summ)[:170]
    rows.append('| %s | %s | %s | %s |' % (m['id'], summ, ', '.join(m['detected_by']) or '**not detected**', 'yes' if (m.get('history') or m.get('after_strengthening')) else ''))
n = len(rows)
nstrength = sum(1 for r in rows if r.endswith('| yes |'))
text = """### 8.6 Seeded changes: which check catches which change

Four waves of seeded changes were written by fresh sub-agents that saw only the property text and a scratch worktree of the repository
(never /verif); waves 2-4 were additionally told what had been tried before and asked for subtler changes (cooperating edits,
multi-step situations, unusual inputs). Three more were written by hand from the list in section 6. A change is kept under
`seeded/<id>/` (patch.diff, demo.py, meta.json) only after I confirmed, in a scratch worktree of /repo HEAD, that the patch applies, the
repository's fast suite still gives "358 passed, 68 skipped", the demo fails with the patch and passes without it; `tools/seedbatch.py`
then runs the quick tier of the named check(s) against the patched worktree (evidence and replay files redirected to a scratch directory).
%d changes are kept; all but one (C17b-w4, see its meta.json and 8.8) are detected by the current machinery; %d of them ("strengthened") were
missed, skipped vacuously or ended in a harness error the first time - what was added each time is in the change's `history` /
`after_strengthening` field and in 8.7 / 8.8. For wave 4 the `first_run` field records what the first complete quick run of the named check
reported; where a placement had already been added earlier in the same session the field says so. Patches of earlier waves that no longer
applied after the fix: commits of session 3 were rebased by hand (same edit on the new context) and re-checked (their `history` records this, so the
last column is also set for them). One change (a one-shot
iterator passed as preserve list) was not kept: the property quantifies over lists and single strings.

| id | seeded change (abridged) | detected by | strengthened |
|---|---|---|---|
""" % (n, nstrength) + '\n'.join(rows) + '\n'
p = os.path.join(HERE, 'DESIGN.md')
s = open(p).read()
start = s.find('### 8.6 Seeded changes')
if start >= 0:
    end = s.find('### 8.7', start)
    s = s[:start] + text + '\n' + (s[end:] if end >= 0 else '')
else:
    s = s.rstrip('\n') + '\n\n' + text
open(p, 'w').write(s)
print('8.6 written with', n, 'rows,', nstrength, 'strengthened')
